import sys

if sys.version < '3':  # pragma: no cover
    from itertools import ifilter

    reduce = reduce
    string_types = (str, unicode)


    def to_bytes(str_):
        return str_


    def decode_string(str_or_unicode_or_bytes):
        if isinstance(str_or_unicode_or_bytes, str):
            if any(ord(c) > 127 for c in str_or_unicode_or_bytes):
                return str_or_unicode_or_bytes.decode("utf-8")
            return str_or_unicode_or_bytes
        if isinstance(str_or_unicode_or_bytes, bytes):
            return str_or_unicode_or_bytes.decode("utf-8")
        if isinstance(str_or_unicode_or_bytes, unicode):
            return str_or_unicode_or_bytes
        raise TypeError("Got text as %s, expected string." % type(str_or_unicode_or_bytes).__name__)

else:  # pragma: no cover
    ifilter = filter
    from functools import reduce

    string_types = (str,)


    def decode_string(str_or_bytes):
        if isinstance(str_or_bytes, bytes):
            return str_or_bytes.decode("utf-8")
        if isinstance(str_or_bytes, string_types):
            return str_or_bytes
        raise TypeError("Got text as %s, expected string." % type(str_or_bytes).__name__)


    def to_bytes(str_):
        return bytes(str_, 'utf-8')
