from collections import namedtuple

from prophyc.generators import base, word_wrap

INDENT_STR = u"    "
MAX_LINE_WIDTH = 100

DocStr = namedtuple("DocStr", "block, inline")


def _form_doc(model_node, max_inl_docstring_len, indent_level):
    block_doc, inline_doc = "", ""
    if model_node.docstring:
        if len(model_node.docstring) <= max_inl_docstring_len and "\n" not in model_node.docstring:
            inline_doc = u"  // {}".format(model_node.docstring)

        elif model_node.docstring:
            block_doc = u"\n" + "".join(
                _gen_multi_line_doc(model_node.docstring, indent_level=indent_level, block_header=model_node.name))

    return DocStr(block_doc, inline_doc)


schema_line_breaker = word_wrap.BreakLinesByWidth(MAX_LINE_WIDTH, "    ", "/* ", " * ", "   ", " */")


@schema_line_breaker
def _gen_multi_line_doc(block_comment_text, indent_level=0, block_header=""):
    assert "\n" not in block_header, "Will not work with line breaks in header bar."

    if block_header:
        if len(block_comment_text) >= 250:
            schema_line_breaker.make_a_bar("-" if indent_level else "=", block_header)
        yield block_header

    for paragraph in block_comment_text.split("\n"):
        yield paragraph


def _columnizer(model_node, column_splitter, max_line_width=100):
    members_table = [column_splitter(m) for m in model_node.members]
    widths = [max(len(str(r)) for r in g) for g in zip(*members_table)]
    max_inline_comment_width = max_line_width - sum(widths)

    for member, columns in zip(model_node.members, members_table):
        doc = _form_doc(member, max_inline_comment_width, indent_level=1)

        if doc.block:
            yield doc.block
        yield u"\n" + INDENT_STR

        for is_not_last, (cell_width, cell_str) in enumerate(zip(widths, columns), 1 - len(columns)):

            yield cell_str

            padding = u" " * (max(0, cell_width - len(cell_str)))
            if is_not_last:
                yield padding
            elif doc.inline:
                yield padding + doc.inline

    if model_node.members:
        yield "\n"


def generate_schema_container(model_node, designator, column_splitter):
    if model_node.docstring:
        block_docstring = u"".join(_gen_multi_line_doc(model_node.docstring, indent_level=0,
                                                       block_header=model_node.name))
        if block_docstring:
            block_docstring += u"\n"
    else:
        block_docstring = u""
    members = u"".join(_columnizer(model_node, column_splitter, max_line_width=100))
    return u"{}{} {} {{{}}};".format(block_docstring, designator, model_node.name, members)


class SchemaTranslator(base.TranslatorBase):
    block_template = u'''{content}'''

    @staticmethod
    def translate_include(include):
        doc = _form_doc(include, 50, indent_level=0)
        return u"{d.block}#include \"{0.name}\"{d.inline}".format(include, d=doc)

    @staticmethod
    def translate_constant(constant):
        doc = _form_doc(constant, max_inl_docstring_len=50, indent_level=0)
        return u"{d.block}\n{0.name} = {0.value};{d.inline}".format(constant, d=doc)

    @staticmethod
    def translate_enum(enumerator):
        def column_selector(member):
            value = u" = {};".format(member.value)
            return member.name, value

        return generate_schema_container(enumerator, "enum", column_selector)

    @staticmethod
    def translate_struct(struct):
        def column_selector(member):
            type_ = member.value
            if member.optional:
                type_ += u"*"

            if member.is_fixed:
                name = u"{m.name}[{m.size}];"
            elif member.is_limited:
                name = u"{m.name}<{m.size}>;"
            elif member.is_dynamic:
                name = u"{m.name}<@{m.bound}>;"
            elif member.greedy:
                name = u"{m.name}<...>;"
            else:
                name = u"{m.name};"

            return type_, u" ", name.format(m=member)

        return generate_schema_container(struct, u"struct", column_selector)

    @staticmethod
    def translate_union(union):
        def column_selector(member):
            discriminator = u"{}: ".format(member.discriminator)
            field_type = member.value
            field_name = u" {};".format(member.name)
            return discriminator, field_type, field_name

        return generate_schema_container(union, u"union", column_selector)

    @classmethod
    def _make_lines_splitter(cls, previous_node_type, current_node_type):
        if not previous_node_type:
            return u""

        if previous_node_type == "Include" and current_node_type != "Include":
            return u"\n\n"

        if previous_node_type in ("Struct", "Union") or current_node_type in ("Enum", "Struct", "Union"):
            return u"\n\n\n"

        if previous_node_type != current_node_type:
            return u"\n\n"

        return u"\n"


class SchemaGenerator(base.GeneratorBase):
    top_level_translators = {
        '.prophy': SchemaTranslator,
    }
