from collections import deque
from contextlib import contextmanager
from functools import wraps

from prophyc import six

BREAKABLE_SPACE = " "


class BreakLinesByWidth(object):
    def __init__(
            self,
            max_line_width=100,
            indent_str="    ",
            block_start_token="",
            hard_indent_tail="",
            soft_indent_tail="",
            block_end_token="",
    ):
        self.max_line_width = max_line_width
        self.indent_str = indent_str
        self.hard_indent_tail = hard_indent_tail
        self.soft_indent_tail = soft_indent_tail
        self.block_start_token = block_start_token
        self.block_end_token = block_end_token

        self.indent_level = None
        self.line_abs_pos = None
        self.line_rel_pos = None
        self._markup_queue = None

    def _init(self, indent_level):
        self.indent_level = indent_level
        self.line_abs_pos = 0
        self.line_rel_pos = 0
        self._markup_queue = deque()

    def __call__(self, decorated_generator):
        @wraps(decorated_generator)
        def sub_generator(*p, **k):
            """ Is supposed to decorate a generator that:
            - yields paragraphs
            - and controls markup elements via the decorator class instance.
            """
            self._init(k.pop('indent_level', 0))

            if self.block_start_token:
                self.open_block()

            for paragraph in decorated_generator(*p, **k):
                while self._markup_queue:
                    yield self._markup_queue.popleft()

                if paragraph:
                    with self.being_a_paragraph():
                        soft_lines = paragraph.split("\n")
                        for is_not_last, soft_line in enumerate(soft_lines, 1 - len(soft_lines)):
                            for word in soft_line.split(BREAKABLE_SPACE):
                                if self.line_rel_pos > 0:
                                    if self.line_would_overflow(word):
                                        self.break_line()
                                        self.make_soft_line_indent()

                                if self.line_rel_pos > 0 or word == "":
                                    self._advance(BREAKABLE_SPACE)

                                self._advance(word)
                            if is_not_last:
                                self.break_line()
                                self.make_soft_line_indent()

            while self._markup_queue:
                yield self._markup_queue.popleft()

            if self.block_end_token:
                self.close_block()

            while self._markup_queue:
                yield self._markup_queue.popleft()

        return sub_generator

    def line_would_overflow(self, word):
        return self.line_abs_pos + len(word) >= self.max_line_width

    def make_a_bar(self, char_="=", title=""):
        assert isinstance(char_, six.string_types), "Bar character has to be a string."
        assert len(char_) == 1, "Bar character has to be a single character."
        line = "{} {} ".format(char_ * 4, title) if title else ""
        padding_width = self.max_line_width - len(line) - self._hard_indent_len
        bar = line + char_ * padding_width

        with self.being_a_paragraph():
            self._advance(bar)

    @contextmanager
    def being_a_paragraph(self):
        if not self.block_just_started:
            self.make_paragraph_indent()
        try:
            yield
        finally:
            self.break_line()

    @property
    def block_just_started(self):
        return self.line_abs_pos == self._hard_indent_len

    def break_line(self):
        self.line_abs_pos = 0
        self.line_rel_pos = 0
        self._markup_queue.append("\n")

    def _make_indent_w_tail(self, tail):
        self._advance(self._base_indent() + tail, False)

    def make_paragraph_indent(self):
        self._make_indent_w_tail(self.hard_indent_tail)

    def make_soft_line_indent(self):
        self._make_indent_w_tail(self.soft_indent_tail)

    def open_block(self):
        self._make_indent_w_tail(self.block_start_token)

    def close_block(self):
        if not self.block_just_started:
            self._make_indent_w_tail(self.block_end_token)
        else:
            self._advance(self.block_end_token, False)

    def _base_indent(self):
        return self.indent_str * self.indent_level

    @property
    def _hard_indent_len(self):
        return len(self._base_indent()) + len(self.hard_indent_tail)

    def _advance(self, text, increment_rel_pos=True):
        self.line_abs_pos += len(text)
        if increment_rel_pos:
            # intended to avoid counting indentation length
            self.line_rel_pos += len(text)
        self._markup_queue.append(text)


def split_long_string(long_string, max_line_width=80):
    lines = long_string.split("\n")
    if not any(len(line) > max_line_width for line in lines):
        for not_last, line in enumerate(lines, 1 - len(lines)):
            yield line + ("\n" if not_last else "")
    else:
        words = long_string.split(" ")
        if not any(len(word) > max_line_width for word in words):
            line, pos = "", 0
            for not_last, word in enumerate(words, 1 - len(words)):
                word += " " if not_last else ""
                line += word
                pos += len(word)
                if pos >= 80:
                    yield line
                    line, pos = "", 0
            if line:
                yield line
        else:
            pos = 0
            while pos < len(long_string):
                yield long_string[pos:pos + max_line_width]
                pos += max_line_width
