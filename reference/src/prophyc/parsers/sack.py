import ctypes.util
import os
import re
from contextlib import contextmanager

from prophyc import model
from prophyc.generators.cpp import _HppDefinitionsTranslator
from prophyc.six import to_bytes
from .clang import cindex


class SackParserError(Exception):
    pass


class SackModelTree(object):
    def __init__(self):
        self.known = set()
        self.nodes = []

    def add_node(self, node):
        self.known.add(node.name)
        self.nodes.append(node)

    def remove_nodes(self, node_names_to_remove):
        self.nodes = [node for node in self.nodes if node.name not in node_names_to_remove]
        self.known -= set(node_names_to_remove)


class Builder(object):
    unambiguous_builtins = {
        cindex.TypeKind.UCHAR: 'u8',
        cindex.TypeKind.SCHAR: 'i8',
        cindex.TypeKind.CHAR_S: 'i8',
        cindex.TypeKind.POINTER: 'u32',
        cindex.TypeKind.FLOAT: 'r32',
        cindex.TypeKind.DOUBLE: 'r64',
        cindex.TypeKind.BOOL: 'i32'
    }

    def __init__(self, tree_model):
        self.tree = tree_model

    @staticmethod
    def alphanumeric_name(cursor):
        name = cursor.type.spelling.decode()
        if name.startswith('struct '):
            name = name.replace('struct ', '', 1)
        elif name.startswith('enum '):
            name = name.replace('enum ', '', 1)
        elif name.startswith('union '):
            name = name.replace('union ', '', 1)
        return re.sub('[^0-9a-zA-Z_]+', '__', name)

    def get_type_name(self, tp):
        decl = tp.get_declaration()

        def dive_deeper(method):
            name = Builder.alphanumeric_name(decl)
            if name not in self.tree.known:
                method(decl)
            return name

        if tp.kind is cindex.TypeKind.TYPEDEF:
            return self.get_type_name(decl.underlying_typedef_type)

        elif tp.kind in (cindex.TypeKind.UNEXPOSED, cindex.TypeKind.ELABORATED, cindex.TypeKind.RECORD):

            if decl.kind in (cindex.CursorKind.STRUCT_DECL, cindex.CursorKind.CLASS_DECL):
                return dive_deeper(self.add_struct)

            elif decl.kind is cindex.CursorKind.UNION_DECL:
                return dive_deeper(self.add_union)

            elif decl.kind is cindex.CursorKind.ENUM_DECL:
                return self.get_type_name(decl.type)

            elif decl.kind is cindex.CursorKind.TYPEDEF_DECL:
                return self.get_type_name(decl.underlying_typedef_type)

            else:
                raise SackParserError("Unknown declaration, {} {}".format(tp.spelling, decl.kind))

        elif tp.kind in (cindex.TypeKind.CONSTANTARRAY, cindex.TypeKind.INCOMPLETEARRAY):
            return self.get_type_name(tp.element_type)

        elif tp.kind is cindex.TypeKind.ENUM:
            return dive_deeper(self.add_enum)

        if tp.kind in (cindex.TypeKind.USHORT, cindex.TypeKind.UINT, cindex.TypeKind.ULONG, cindex.TypeKind.ULONGLONG):
            return 'u%d' % (tp.get_size() * 8)

        elif tp.kind in (cindex.TypeKind.SHORT, cindex.TypeKind.INT, cindex.TypeKind.LONG, cindex.TypeKind.LONGLONG):
            return 'i%d' % (tp.get_size() * 8)

        return self.unambiguous_builtins[tp.kind]

    def add_enum(self, cursor):
        def enum_member(cursor):
            name = cursor.spelling.decode()
            value = cursor.enum_value
            if value < 0:
                value = "0x%X" % (0x100000000 + value)
            else:
                value = str(value)
            return model.EnumMember(name, value)

        members = [enum_member(x) for x in cursor.get_children()]
        node = model.Enum(Builder.alphanumeric_name(cursor), members)
        self.tree.add_node(node)

    def add_struct(self, cursor):
        def array_length(tp):
            if tp.kind is cindex.TypeKind.CONSTANTARRAY:
                return tp.element_count

        def struct_member(cursor_):
            name = cursor_.spelling.decode()
            type_name = self.get_type_name(cursor_.type)
            array_len = array_length(cursor_.type)
            return model.StructMember(name, type_name, size=array_len)

        members = [struct_member(x) for x in cursor.get_children()
                   if x.kind is cindex.CursorKind.FIELD_DECL and not x.is_bitfield()]
        node = model.Struct(Builder.alphanumeric_name(cursor), members)
        self.tree.add_node(node)

    def add_union(self, cursor):
        def union_member(cursor, disc):
            name = cursor.spelling.decode()
            type_name = self.get_type_name(cursor.type)
            return model.UnionMember(name, type_name, str(disc))

        members = [union_member(x, i) for i, x in enumerate(cursor.get_children())
                   if x.kind is cindex.CursorKind.FIELD_DECL]
        node = model.Union(Builder.alphanumeric_name(cursor), members)
        self.tree.add_node(node)

    def build_model(self, translation_unit):
        for cursor in translation_unit.cursor.get_children():
            if cursor.kind is cindex.CursorKind.UNEXPOSED_DECL:
                for in_cursor in cursor.get_children():
                    if in_cursor.kind is cindex.CursorKind.STRUCT_DECL:
                        if in_cursor.spelling and in_cursor.is_definition():
                            self.add_struct(in_cursor)
            if cursor.spelling and cursor.is_definition():
                if cursor.kind is cindex.CursorKind.STRUCT_DECL:
                    self.add_struct(cursor)
                if cursor.kind is cindex.CursorKind.ENUM_DECL:
                    self.add_enum(cursor)


class SupplementaryDefs(object):

    def __init__(self, include_tree):

        self.include_tree = include_tree
        self.stub_names = [node.name for node in SupplementaryDefs.flatten_nodes(include_tree)]
        self.stub_defs = SupplementaryDefs.prepare_stubs(include_tree)
        self.stubs_lines_count = len(self.stub_defs)

    @staticmethod
    def flatten_nodes(nodes_list):
        for node in nodes_list:
            if isinstance(node, model.Include):
                for node in SupplementaryDefs.flatten_nodes(node.members):
                    yield node
            else:
                yield node

    @staticmethod
    def unique_nodes(include_tree):
        picked = []
        for node in SupplementaryDefs.flatten_nodes(include_tree):
            if node.name not in picked:
                picked.append(node.name)
                yield node

    @staticmethod
    def prepare_stubs(include_tree):
        def create_stub_definition(node):
            if isinstance(node, model.Constant):
                yield "#define {} {}".format(node.name, node.value)
            elif isinstance(node, model.Enum):
                cpp_translator = _HppDefinitionsTranslator()
                for line in cpp_translator.translate_enum(node).split('\n'):
                    # need to have all lines separated to know its count
                    yield line
            else:
                yield "struct {} {{}};".format(node.name)

        flatten_nodes = SupplementaryDefs.unique_nodes(include_tree)
        return [line for node in flatten_nodes for line in create_stub_definition(node)]

    def prepend_stubs(self, content):
        if not self.stub_defs:
            return content
        return '\n'.join(self.stub_defs) + '\n' + content

    @contextmanager
    def implicit_supplementation(self, parsed_content):
        enriched_content = self.prepend_stubs(parsed_content)

        sack_tree = SackModelTree()
        for include_node in self.include_tree:
            sack_tree.add_node(include_node)

        yield enriched_content, sack_tree

        sack_tree.remove_nodes(self.stub_names)


class SackParser(object):

    @staticmethod
    def check():
        class SackParserStatus(object):
            def __init__(self, error=None):
                self.error = error

            def __bool__(self):
                return not bool(self.error)

            __nonzero__ = __bool__

        def _check_libclang():
            testconf = cindex.Config()
            try:
                testconf.get_cindex_library()
                return True
            except cindex.LibclangError:
                return False

        import platform
        if platform.python_implementation() == 'PyPy':
            return SackParserStatus("sack input doesn't work under PyPy due to ctypes incompatibilities")
        if not _check_libclang():
            return SackParserStatus("sack input requires libclang and it's not installed")
        return SackParserStatus()

    def __init__(self, include_dirs=None, warn=None, include_tree=None):
        self.include_dirs = include_dirs or []
        self.warn = warn
        self.supples = SupplementaryDefs(include_tree or [])

    def parse(self, content, path, _):
        args_ = [to_bytes("-I" + x) for x in self.include_dirs]
        index = cindex.Index.create()
        with self.supples.implicit_supplementation(content) as (content_, tree):
            builder = Builder(tree)
            path = path.encode()
            content_ = content_.encode()

            try:
                translation_unit = index.parse(path, args_, unsaved_files=((path, content_),))
            except cindex.TranslationUnitLoadError:
                raise model.ParseError([(path.decode(), 'error parsing translation unit')])

            self.print_diagnostics(path, translation_unit)
            builder.build_model(translation_unit)

        return tree.nodes

    def print_diagnostics(self, path, translation_unit):
        if self.warn:
            for diag in translation_unit.diagnostics:
                spelling = diag.spelling.decode()
                location = self._get_location(diag.location, path)
                self.warn(spelling, location)

    def _get_location(self, location, target_path):
        location_file = location.file.name.decode()
        target_file_name = os.path.basename(target_path.decode())
        if os.path.basename(location_file) == target_file_name:
            stubs_len = self.supples.stubs_lines_count
            is_in_stubs = location.line < stubs_len
            stubs_file = "supplementary_defs_in_{}".format(target_file_name)
            location_line = location.line if is_in_stubs else (location.line - stubs_len)
            location_file = location_file if not is_in_stubs else stubs_file

        else:
            location_line = location.line
        return '%s:%s:%s' % (location_file, location_line, location.column)


def _setup_libclang():
    if os.environ.get('PROPHY_NOCLANG'):
        cindex.Config.set_library_file('prophy_noclang')
        return

    versions = ([None] +
                ['%d' % m for m in tuple(range(14, 3, -1))] +
                ['3.%d' % m for m in tuple(range(9, 1, -1))])
    for v in versions:
        name = v and 'clang-' + v or 'clang'
        libname = ctypes.util.find_library(name)
        if libname:
            cindex.Config.set_library_file(libname)
            break


_setup_libclang()
