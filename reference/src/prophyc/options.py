import os
import argparse


def readable_dir(string):
    if not os.path.isdir(string):
        raise argparse.ArgumentTypeError("%s directory not found" % string)
    return string


def readable_file(string):
    if not os.path.isfile(string):
        raise argparse.ArgumentTypeError("%s file not found" % string)
    return string


def parse_options(emit_error, args):
    class ArgumentParser(argparse.ArgumentParser):
        def error(self, message):
            emit_error(message)

    parser = ArgumentParser('prophyc',
                            description=('Parse input files and generate '
                                         'output based on options given.'))

    parser.add_argument('input_files',
                        metavar='INPUT_FILE',
                        type=readable_file,
                        nargs='*',
                        help=('Prophy language, C++ or isar xml files with definitions of prophy '
                              'messages. By default prophy language is assumed.'))

    group = parser.add_mutually_exclusive_group()
    group.add_argument('--isar',
                       action='store_true',
                       help='Parse input files as isar xml.')

    group.add_argument('--sack',
                       action='store_true',
                       help='Parse input files as sack C++.')

    parser.add_argument('-I', '--include_dir',
                        metavar='DIR',
                        dest='include_dirs',
                        type=readable_dir,
                        action='append',
                        default=[],
                        help=('Add the directory to the list of directories to be '
                              'searched for included files.'))

    parser.add_argument('-S', '--include_isar',
                        metavar='XMLFILE',
                        dest='isar_includes',
                        type=readable_file,
                        action='append',
                        default=[],
                        help='Add isar source file for other languages compilation.')

    parser.add_argument('-p', '--patch',
                        metavar='FILE',
                        type=readable_file,
                        help=("File with instructions changing definitions of prophy "
                              "messages after parsing. It's needed in sack and isar "
                              "modes, since C++ and isar xml are unable to express "
                              "all prophy features."))

    parser.add_argument('--python_out',
                        metavar='OUT_DIR',
                        type=readable_dir,
                        help='Generate Python source files.')

    parser.add_argument('--prophy_out',
                        metavar='OUT_DIR',
                        type=readable_dir,
                        help='Generate prophy schema source files.')

    parser.add_argument('--cpp_out',
                        metavar='OUT_DIR',
                        type=readable_dir,
                        help='Generate C++ simple POD-based codec header and source files.')

    parser.add_argument('--cpp_full_out',
                        metavar='OUT_DIR',
                        type=readable_dir,
                        help='Generate C++ full object-based codec header and source files.')

    parser.add_argument('--void_out',
                        action='store_true',
                        help='Allow compilation without generating any files.')

    parser.add_argument('--version',
                        action='store_true',
                        help='Show version information and exit.')

    parser.add_argument('--quiet',
                        action='store_true',
                        help='Suppress warnings prints.')

    return parser.parse_args(args)
