import sys
from . import main


def entry_main(args=sys.argv[1:]):
    try:
        main(args)
    except Exception as e:
        sys.exit(str(e))


if __name__ == '__main__':
    sys.exit(entry_main())
