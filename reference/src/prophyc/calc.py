import ply.lex as lex
import ply.yacc as yacc


class ParseError(Exception):
    pass


class Calc(object):
    tokens = ('NAME', 'CONST16', 'CONST10', 'LSHIFT', 'RSHIFT')
    precedence = (
        ('left', '+', '-'),
        ('left', '*', '/'),
        ('left', 'LSHIFT', 'RSHIFT'),
        ('right', 'UMINUS'),
    )

    literals = ['+', '-', '*', '/', '(', ')', '|']

    t_NAME = r'[a-zA-Z_][a-zA-Z0-9_]*'
    t_LSHIFT = r'<<'
    t_RSHIFT = r'>>'

    def __init__(self):
        self.lexer = lex.lex(module=self, debug=0)
        self.parser = yacc.yacc(module=self, tabmodule='parsetab_calc', write_tables=0, debug=0)
        self.vars = {}

    def eval(self, expr, vars_):
        self.vars = vars_
        return self.parser.parse(expr, lexer=self.lexer)

    @staticmethod
    def t_CONST16(t):
        r"""0x[0-9a-fA-F]+"""
        t.value = int(t.value, 16)
        return t

    @staticmethod
    def t_CONST10(t):
        r"""\d+"""
        t.value = int(t.value)
        return t

    t_ignore = " \t"

    @staticmethod
    def t_newline(t):
        r"""\n+"""
        t.lexer.lineno += t.value.count("\n")

    @staticmethod
    def t_error(t):
        raise ParseError('illegal character %s' % t.value[0])

    @staticmethod
    def p_statement_expr(p):
        """statement : expression"""
        p[0] = p[1]

    def p_expression_binop(self, p):
        """expression : expression '+' expression
                      | expression '-' expression
                      | expression '*' expression
                      | expression '/' expression
                      | expression '|' expression
                      | expression LSHIFT expression
                      | expression RSHIFT expression"""
        try:
            self._apply_binop(p)
        except ZeroDivisionError:
            raise ParseError("division by zero")
        except ValueError:
            raise ParseError("invalid shift count '%s'" % p[3])

    @staticmethod
    def _apply_binop(p):
        if p[2] == '+':
            p[0] = p[1] + p[3]
        elif p[2] == '-':
            p[0] = p[1] - p[3]
        elif p[2] == '*':
            p[0] = p[1] * p[3]
        elif p[2] == '/':
            p[0] = p[1] // p[3]
        elif p[2] == '<<':
            p[0] = p[1] << p[3]
        elif p[2] == '>>':
            p[0] = p[1] >> p[3]
        elif p[2] == '|':
            p[0] = p[1] | p[3]

    @staticmethod
    def p_expression_uminus(p):
        """expression : '-' expression %prec UMINUS"""
        p[0] = -p[2]

    @staticmethod
    def p_expression_group(p):
        """expression : '(' expression ')'"""
        p[0] = p[2]

    @staticmethod
    def p_expression_number(p):
        """expression : CONST10
                      | CONST16"""
        p[0] = p[1]

    def p_expression_name(self, p):
        """expression : NAME"""
        try:
            p[0] = p[1]
            while not isinstance(p[0], int):
                p[0] = self.vars[p[0]]
        except LookupError:
            raise ParseError("numeric constant '%s' not found" % p[1])

    def p_error(self, p):
        raise ParseError("syntax error at '%s'" % p.value)


calc = Calc()


def eval(expr, vars_):
    return calc.eval(expr, vars_)
