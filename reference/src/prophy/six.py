# License

import sys

if sys.version < '3':  # pragma: no cover
    long = long
    from itertools import ifilter
    xrange = xrange

    def repr_bytes(x):
        return repr(x)

else:  # pragma: no cover
    long = int
    ifilter = filter
    xrange = range

    def repr_bytes(x):
        return repr(x)[1:]


def with_metaclass(meta, *bases):
    class metaclass(meta):
        def __new__(cls, name, this_bases, d):
            return meta(name, bases, d)
    return type.__new__(metaclass, 'temporary_class', (), {})
