class ProphyError(Exception):
    pass
