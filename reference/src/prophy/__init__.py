from .generators import (
    enum_generator,
    struct_generator,
    union_generator
)
from .container import array
from .composite import (
    bytes_ as bytes,
    struct,
    struct_packed,
    union,
)
from .descriptor import kind
from .exception import ProphyError
from .optional import optional
from .scalar import i8, i16, i32, i64, u8, u16, u32, u64, r32, r64, enum, enum8
from .six import with_metaclass


__all__ = [
    'i8', 'i16', 'i32', 'i64',
    'u8', 'u16', 'u32', 'u64',
    'r32', 'r64',
    'array',
    'bytes',
    'enum', 'enum8', 'enum_generator',
    'kind',
    'optional',
    'ProphyError',
    'struct',
    'struct_generator',
    'struct_packed',
    'union',
    'union_generator',
    'with_metaclass',
]

__version__ = '1.2.5'
