"""E6 PredAbs: finite predicate abstraction of guards over an enumerated domain of abstract model members.

A decision-table analysis: only boolean/compare expressions over member attributes are folded over a small
finite domain; no statement of the repository is executed. The derived attributes (is_array, is_fixed,
is_limited, is_dynamic) are read from the property definitions in prophyc/model.py on every run.
"""
import ast
import re

from .core import AnalysisError
from .pyfront import unparse
from .pyfront import ws  # noqa: E402,F401

FIXED, DYNAMIC, UNLIMITED = 0, 1, 2
KIND_NAMES = {'FIXED': FIXED, 'DYNAMIC': DYNAMIC, 'UNLIMITED': UNLIMITED}


class AM(object):
    """Abstract struct member."""

    def __init__(self, form, elem, optional=False, sizer_of=None, last=False, type_name='T', padding=0):
        self.form = form            # plain | fixed | limited | dynamic | greedy
        self.elem = elem            # scalar | enum | byte | union | fixed struct | dynamic struct | unlimited struct
        self.optional = optional
        self.sizer_of = sizer_of    # None | 'dynamic' | 'limited'  (this member counts such an array)
        self.last = last
        self.padding = padding
        self.name = 'n' if sizer_of else 'f'
        self.type_name = 'byte' if elem == 'byte' else ('u32' if elem == 'scalar' else type_name)
        self.size = '3' if form in ('fixed', 'limited') else None
        self.bound = 'n' if form in ('limited', 'dynamic') else None
        self.greedy = form == 'greedy'
        self.kind = {'dynamic struct': DYNAMIC, 'unlimited struct': UNLIMITED}.get(elem, FIXED)
        self.byte_size = 4
        self.alignment = 4
        self.numeric_size = 3 if self.size else None
        self.definition = None

    @property
    def cls(self):
        """The documented member class (Appendix B)."""
        if self.form != 'plain':
            return self.form
        if self.optional:
            return 'optional'
        if self.sizer_of:
            return 'sizer:' + self.sizer_of
        return 'plain'

    def label(self):
        return '%s %s%s%s%s' % (self.form, self.elem, ' optional' if self.optional else '',
                                ' sizer-of-%s' % self.sizer_of if self.sizer_of else '', ' last' if self.last else '')

    def __repr__(self):
        return '<AM %s>' % self.label()


ELEMS = ('scalar', 'enum', 'byte', 'union', 'fixed struct', 'dynamic struct', 'unlimited struct')


def domain(paddings=(0,), composability=True):
    """Abstract members allowed by StructMember's over-constraint invariant (and, optionally, by the documented
    composability rules D1..D4)."""
    out = []
    for last in (False, True):
        for pad in paddings:
            for elem in ELEMS:
                for form in ('plain', 'fixed', 'limited', 'dynamic', 'greedy'):
                    if composability:
                        if form in ('fixed', 'limited') and elem in ('dynamic struct', 'unlimited struct'):
                            continue        # D1
                        if form != 'plain' and elem == 'unlimited struct':
                            continue        # D2
                        if not last and (form == 'greedy' or elem == 'unlimited struct'):
                            continue        # D3
                        if elem == 'byte' and form == 'plain':
                            continue        # byte exists only in arrays
                    out.append(AM(form, elem, last=last, padding=pad))
                    if form == 'plain':
                        if not (composability and elem in ('dynamic struct', 'unlimited struct', 'byte')):
                            out.append(AM(form, elem, optional=True, last=last, padding=pad))      # D4
                        if elem == 'scalar':
                            out.append(AM(form, elem, sizer_of='dynamic', last=last, padding=pad))
                            out.append(AM(form, elem, sizer_of='limited', last=last, padding=pad))
    return out


class Unknown(Exception):
    pass


class Evaluator(object):
    """Evaluates a guard over one abstract member. `var` is the member variable name of the guard; `props`
    are the property bodies of StructMember read from model.py; `env` binds further names."""

    def __init__(self, props, var='m', env=None):
        self.props = props
        self.var = var
        self.env = env or {}

    def attr(self, m, name):
        if name in self.props:
            return Evaluator(self.props, 'self', self.env).ev(self.props[name], m)
        if hasattr(m, name) and name not in ('cls', 'label', 'form', 'elem', 'sizer_of', 'last'):
            return getattr(m, name)
        raise Unknown('attribute %s' % name)

    def ev(self, e, m):
        if isinstance(e, ast.Constant):
            return e.value
        if isinstance(e, ast.BoolOp):
            if isinstance(e.op, ast.And):
                v = True
                for x in e.values:
                    v = self.ev(x, m)
                    if not v:
                        return v
                return v
            v = False
            for x in e.values:
                v = self.ev(x, m)
                if v:
                    return v
            return v
        if isinstance(e, ast.UnaryOp) and isinstance(e.op, ast.Not):
            return not self.ev(e.operand, m)
        if isinstance(e, ast.UnaryOp) and isinstance(e.op, ast.USub):
            return -self.ev(e.operand, m)
        if isinstance(e, ast.Attribute):
            s = unparse(e)
            if s.endswith(('Kind.FIXED', 'Kind.DYNAMIC', 'Kind.UNLIMITED')):
                return KIND_NAMES[e.attr]
            if isinstance(e.value, ast.Name) and e.value.id == self.var:
                return self.attr(m, e.attr)
            if s in self.env:
                return self.env[s]
            raise Unknown(s)
        if isinstance(e, ast.Name):
            if e.id in self.env:
                v = self.env[e.id]
                return v(m) if callable(v) else v
            raise Unknown(e.id)
        if isinstance(e, ast.Compare) and len(e.ops) == 1:
            a, b, op = self.ev(e.left, m), self.ev(e.comparators[0], m), e.ops[0]
            if isinstance(op, ast.Eq):
                return a == b
            if isinstance(op, ast.NotEq):
                return a != b
            if isinstance(op, ast.Is):
                return a is b
            if isinstance(op, ast.IsNot):
                return a is not b
            if isinstance(op, ast.In):
                return a in b
            if isinstance(op, ast.NotIn):
                return a not in b
            if a is None or b is None:
                raise Unknown('ordering comparison with None (TypeError at run time): ' + unparse(e))
            if isinstance(op, ast.Lt):
                return a < b
            if isinstance(op, ast.LtE):
                return a <= b
            if isinstance(op, ast.Gt):
                return a > b
            if isinstance(op, ast.GtE):
                return a >= b
        if isinstance(e, ast.IfExp):
            return self.ev(e.body, m) if self.ev(e.test, m) else self.ev(e.orelse, m)
        if isinstance(e, ast.Call) and unparse(e.func) == 'bool' and len(e.args) == 1:
            return bool(self.ev(e.args[0], m))
        if isinstance(e, ast.Call) and unparse(e.func) == 'abs' and len(e.args) == 1:
            return abs(self.ev(e.args[0], m))
        raise Unknown(unparse(e))


def model_props(tree):
    """{property name: return expression} of prophyc.model.StructMember (is_array, is_fixed, ...)."""
    m = tree.mod('prophyc.model')
    out = {}
    for name in ('is_array', 'is_fixed', 'is_limited', 'is_dynamic'):
        f = m.func('StructMember.' + name)
        body = [s for s in f.node.body if not (isinstance(s, ast.Expr) and isinstance(s.value, ast.Constant))]
        if len(body) != 1 or not isinstance(body[0], ast.Return):
            raise AnalysisError('StructMember.%s is no longer a single return expression' % name)
        out[name] = body[0].value
    return out


def truth(ev, guards, m):
    """Truth of a guard chain [(test, polarity)] for member m."""
    for t, pol in guards:
        if bool(ev.ev(t, m)) != pol:
            return False
    return True


def classify_branches(ev, branches, dom):
    """For every abstract member the index of the (first and only) branch it reaches; raises Unknown on
    unrecognised guard terms. Returns {member: [branch indices]}."""
    out = {}
    for m in dom:
        out[m] = [i for i, b in enumerate(branches) if truth(ev, b.guards, m)]
    return out


# ------------------------------------------------------------------------------------------------ abstract execution
def mentions(e, names):
    return any(isinstance(x, ast.Name) and x.id in names for x in ast.walk(e))


def abstract_exec(stmts, ev, am, member_vars, effects=None, maybe=()):
    """Follows the path one abstract member takes through a statement list. Guards over the member (or over locals bound
    from it) are decided by the predicate abstraction; guards over other state fork, their statements are recorded as
    'maybe'. Simple statements are recorded as effects (text, maybe-conditions, node); a local bound to an evaluable
    expression becomes known to later guards (copy propagation), so `is_seq = m.is_dynamic or m.greedy; if is_seq:` is
    decided like the inlined guard.
    Outcome: 'fall' | ('return', node) | ('raise', node) | 'continue' | 'break'."""
    if effects is None:
        effects = []
    known = set(member_vars) | set(k for k in ev.env)
    for st in stmts:
        if isinstance(st, ast.If):
            decided = False
            if mentions(st.test, known | set(ev.env)):
                try:
                    t = bool(ev.ev(st.test, am))
                    decided = True
                except Unknown as e:
                    names = set(x.id for x in ast.walk(st.test) if isinstance(x, ast.Name))
                    if names <= (known | set(ev.env)):
                        raise AnalysisError('guard term not recognised: %s' % e)
            if decided:
                out = abstract_exec(st.body if t else st.orelse, ev, am, member_vars, effects, maybe)[1]
                if out != 'fall':
                    return effects, out
            else:
                g = ws(unparse(st.test))
                o1 = abstract_exec(st.body, ev, am, member_vars, effects, tuple(maybe) + ((True, st.test),))[1]
                o2 = abstract_exec(st.orelse, ev, am, member_vars, effects, tuple(maybe) + ((False, st.test),))[1]
                if o1 != 'fall' or o2 != 'fall':
                    if o1 == o2 or (isinstance(o1, tuple) and isinstance(o2, tuple) and o1[0] == o2[0]):
                        return effects, o1
                    raise AnalysisError('a state guard `%s` decides whether the path leaves the block: not modelled' % g)
        elif isinstance(st, ast.Return):
            effects.append((ws(unparse(st)), tuple(maybe), st))
            return effects, ('return', st)
        elif isinstance(st, ast.Raise):
            return effects, ('raise', st)
        elif isinstance(st, ast.Continue):
            return effects, 'continue'
        elif isinstance(st, ast.Break):
            return effects, 'break'
        elif isinstance(st, (ast.Assign, ast.AugAssign, ast.Expr, ast.Pass, ast.Assert)):
            if isinstance(st, ast.Assign) and len(st.targets) == 1 and isinstance(st.targets[0], ast.Name) and not maybe:
                try:
                    ev.env[st.targets[0].id] = ev.ev(st.value, am)
                except Unknown:
                    ev.env.pop(st.targets[0].id, None)
            if not isinstance(st, ast.Pass):
                effects.append((ws(unparse(st)), tuple(maybe), st))
        elif isinstance(st, (ast.FunctionDef, ast.ClassDef)):
            continue
        else:
            raise AnalysisError('statement kind %s not modelled in abstract execution' % type(st).__name__)
    return effects, 'fall'


def maybe_text(maybe):
    return tuple(('' if pol else 'not ') + ws(unparse(t)) for pol, t in maybe)
