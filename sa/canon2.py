"""Second group of normal-form rewrites (N21-N36), added after a second batch of independently written behaviour-preserving
refactorings (DESIGN 11.2) showed which *general* equivalences the first group did not cover. Every rewrite is
semantics-preserving under the stated side conditions; where a condition cannot be established syntactically the code is
left alone.

  N21  a module-level name bound once to a constant expression (and not part of the reviewed baseline) is its value
  N22  `try: x = CALL  except E: <leave>` directly followed by `y += x` (x used nowhere else)  ==  `try: y += CALL ...`
  N24  `try: A except E: <leave>  else: B`            ==  `try: A except E: <leave>` followed by B
  N25  `try: <leaves> except E: pass` followed by R   ==  `try: <leaves> except E: R`
  N26  `for x in it: if c: [P;] break  else: <leaves>` followed by R (to the end of the function)
                                                      ==  `for x in it: if c: P; R; return` followed by <leaves>
  N27  `return next((e for x in it if c), d)`         ==  `for x in it: if c: return e` followed by `return d`
  N28  `for x in (e for y in it if c): B`             ==  `for y in it: if c: x = e; B`
  N29  `filter(lambda x: c, it)`, `map(lambda x: e, it)` (also six.ifilter / six.imap)  ==  generator expressions
  N30  `[x for x in it]`  ==  `list(it)`;  `set(frozenset(g))`  ==  `set(g)`;  `v in frozenset(g)`  ==  `v in set(g)`
  N31  `s.join((a, b))`   ==  `a + s + b`   (pure operands)
  N32  `d.update(dict.fromkeys(ks, v))`               ==  `for k in ks: d[k] = v`   (pure v)
  N33  `a - b if b < a else 0`                        ==  `max(0, a - b)`
  N34  `if c: X` followed by a short tail T that reads what both branches bind  ==  T pushed into the branches (tail
       duplication), so that a value prepared per branch and the call made per branch have one form
  N35  nested `if a: if b: S` without else branches  ==  `if a and b: S`
  N36  in a boolean position `len(tuple(x for x in it if c))`  ==  `any(c for x in it)`
  N38  `reduce(f, seq, init)` (first thing a statement evaluates)  ==  `acc = init; for y in seq: acc = f(acc, y)`
  N39  `a, b = x, y`  ==  `a = x; b = y`  (values; no target is read on the right)
  N40  `x = E; while c(x): B; x = E`  ==  `while True: x = E; if not c(x): break; B`  (B without `continue`)
  N44  `T = E` directly followed by a read of T  ==  `t = E; T = t` followed by the read of t   (store-to-load forwarding)
  N42  `o.f = a if c else b`  ==  `if c: o.f = a else: o.f = b`   (stores into state; a local keeps the expression)
  N37  `return a if c else b`                         ==  `if c: return a` followed by `return b`
"""
import ast
import copy

from . import canon

loc = ast.copy_location


def _name(id_, ctx=None, like=None):
    n = ast.Name(id=id_, ctx=ctx or ast.Load())
    return loc(n, like) if like is not None else n


def _names_in(nodes, ctx=None):
    out = set()
    for s in nodes if isinstance(nodes, list) else [nodes]:
        for n in ast.walk(s):
            if isinstance(n, ast.Name) and (ctx is None or isinstance(n.ctx, ctx)):
                out.add(n.id)
    return out


def _handlers_leave(t):
    return bool(t.handlers) and all(canon.terminates(h.body) for h in t.handlers)


# ------------------------------------------------------------------------------------------------ expressions
class Expr(ast.NodeTransformer):
    ITER_FILTER = ('filter', 'ifilter', 'six.ifilter', 'six.moves.filter', 'itertools.ifilter')
    ITER_MAP = ('map', 'imap', 'six.imap', 'six.moves.map', 'itertools.imap')

    def visit_Call(self, node):
        self.generic_visit(node)
        fn = ast.unparse(node.func) if isinstance(node.func, (ast.Name, ast.Attribute)) else ''
        # N29
        if fn in self.ITER_FILTER + self.ITER_MAP and len(node.args) == 2 and not node.keywords and isinstance(node.args[0], ast.Lambda):
            lam = node.args[0]
            a = lam.args
            if len(a.args) == 1 and not (a.vararg or a.kwarg or a.kwonlyargs or a.posonlyargs or a.defaults):
                x = a.args[0].arg
                tgt = _name(x, ast.Store(), lam)
                if fn in self.ITER_FILTER:
                    gen = ast.comprehension(target=tgt, iter=node.args[1], ifs=[lam.body], is_async=0)
                    return loc(ast.GeneratorExp(elt=_name(x, like=lam), generators=[gen]), node)
                gen = ast.comprehension(target=tgt, iter=node.args[1], ifs=[], is_async=0)
                return loc(ast.GeneratorExp(elt=lam.body, generators=[gen]), node)
        # N30
        if fn in ('set', 'frozenset') and len(node.args) == 1 and not node.keywords and isinstance(node.args[0], ast.Call) \
                and isinstance(node.args[0].func, ast.Name) and node.args[0].func.id in ('set', 'frozenset') and len(node.args[0].args) == 1 \
                and not node.args[0].keywords:
            node.args[0] = node.args[0].args[0]
        if fn == 'list' and len(node.args) == 1 and not node.keywords and isinstance(node.args[0], ast.ListComp):
            return node.args[0]
        # N31
        if isinstance(node.func, ast.Attribute) and node.func.attr == 'join' and len(node.args) == 1 and not node.keywords \
                and isinstance(node.args[0], ast.Tuple) and len(node.args[0].elts) == 2 \
                and not any(isinstance(e, ast.Starred) for e in node.args[0].elts) \
                and all(canon.is_pure(e) for e in node.args[0].elts + [node.func.value]):
            a, b = node.args[0].elts
            return loc(ast.BinOp(left=loc(ast.BinOp(left=a, op=ast.Add(), right=node.func.value), node), op=ast.Add(), right=b), node)
        return node

    def _iters(self, node):
        # N30b: iterating a copy made only to be iterated (`for x in list(it)` inside a comprehension whose element and
        # conditions are values) is iterating `it`
        parts = [node.elt] if hasattr(node, 'elt') else [node.key, node.value]
        for g in node.generators:
            parts.extend(g.ifs)
        if all(canon.is_pure(p, containers=True) for p in parts):
            for g in node.generators:
                it = g.iter
                if isinstance(it, ast.Call) and isinstance(it.func, ast.Name) and it.func.id in ('list', 'tuple') and len(it.args) == 1 \
                        and not it.keywords and not isinstance(it.args[0], ast.Starred):
                    g.iter = it.args[0]
        return node

    def visit_GeneratorExp(self, node):
        self.generic_visit(node)
        return self._iters(node)

    def visit_SetComp(self, node):
        self.generic_visit(node)
        return self._iters(node)

    def visit_ListComp(self, node):
        self.generic_visit(node)
        self._iters(node)
        if len(node.generators) == 1:
            g = node.generators[0]
            if not g.ifs and not g.is_async and isinstance(g.target, ast.Name) and isinstance(node.elt, ast.Name) and node.elt.id == g.target.id:
                return loc(ast.Call(func=_name('list', like=node), args=[g.iter], keywords=[]), node)
        return node

    def visit_Compare(self, node):
        self.generic_visit(node)
        if len(node.ops) == 1 and isinstance(node.ops[0], (ast.In, ast.NotIn)):
            c = node.comparators[0]
            if isinstance(c, ast.Call) and isinstance(c.func, ast.Name) and c.func.id == 'frozenset':
                c.func.id = 'set'
        return node

    def visit_IfExp(self, node):
        self.generic_visit(node)
        # N33 (the test may still be spelled `a > b`, the zero may be in either arm, equality may go to either side)
        t = node.test
        body, orelse = node.body, node.orelse
        if isinstance(t, ast.Compare) and len(t.ops) == 1 and isinstance(t.ops[0], (ast.Lt, ast.Gt, ast.LtE, ast.GtE)):
            op = type(t.ops[0])
            l, r = t.left, t.comparators[0]
            if isinstance(body, ast.Constant) and body.value == 0 and not isinstance(body.value, bool):
                body, orelse = orelse, body
                op = {ast.Lt: ast.GtE, ast.LtE: ast.Gt, ast.Gt: ast.LtE, ast.GtE: ast.Lt}[op]      # the negated test
            small, big = (l, r) if op in (ast.Lt, ast.LtE) else (r, l)
            if isinstance(orelse, ast.Constant) and orelse.value == 0 and not isinstance(orelse.value, bool) \
                    and isinstance(body, ast.BinOp) and isinstance(body.op, ast.Sub) \
                    and ast.unparse(body.left) == ast.unparse(big) and ast.unparse(body.right) == ast.unparse(small) and canon.is_pure(body):
                args = sorted([orelse, body], key=ast.unparse)
                return loc(ast.Call(func=_name('max', like=node), args=args, keywords=[]), node)
        return node


# ------------------------------------------------------------------------------------------------ statements
def _fresh(base, taken):
    i = 0
    while True:
        cand = '%s__n%d' % (base, i)
        if cand not in taken:
            taken.add(cand)
            return cand
        i += 1


def _genexp_to_loops(g, innermost, like):
    """for/if nest of the generator expression's clauses around the statements `innermost`."""
    body = innermost
    for comp in reversed(g.generators):
        for cond in reversed(comp.ifs):
            body = [loc(ast.If(test=cond, body=body, orelse=[]), like)]
        body = [loc(ast.For(target=comp.target, iter=comp.iter, body=body, orelse=[], type_comment=None), like)]
    return body


def _comp_targets(g):
    return set(n.id for comp in g.generators for n in ast.walk(comp.target) if isinstance(n, ast.Name))


def rewrite_blocks(fn):
    """Statement-level rewrites inside one function (N22, N24-N28, N32). Returns True if anything changed."""
    changed = False
    taken = _names_in(fn)

    def loads(name):
        return sum(1 for n in canon._own_nodes(fn) if isinstance(n, ast.Name) and n.id == name and isinstance(n.ctx, ast.Load))

    def nested_uses(name):
        for n in canon._own_nodes(fn):
            if isinstance(n, canon.SCOPES):
                for x in ast.walk(n):
                    if isinstance(x, ast.Name) and x.id == name:
                        return True
        return False

    def do(blk, is_fn_body):
        nonlocal changed
        i = 0
        while i < len(blk):
            st = blk[i]
            rest = blk[i + 1:]
            # N37: `return a if c else b` is `if c: return a` followed by `return b` (the statement form carries path facts)
            if isinstance(st, ast.Return) and isinstance(st.value, ast.IfExp):
                v = st.value
                blk[i:i + 1] = [loc(ast.If(test=v.test, body=[loc(ast.Return(value=v.body), st)], orelse=[]), st), loc(ast.Return(value=v.orelse), st)]
                changed = True
                continue
            # N39: `a, b = x, y` (values, no target read on the right) is `a = x; b = y`
            if isinstance(st, ast.Assign) and len(st.targets) == 1 and isinstance(st.targets[0], ast.Tuple) and isinstance(st.value, ast.Tuple) \
                    and len(st.targets[0].elts) == len(st.value.elts) >= 2 and all(isinstance(t, ast.Name) for t in st.targets[0].elts) \
                    and all(canon.is_pure(v) for v in st.value.elts) \
                    and not (set(t.id for t in st.targets[0].elts) & _names_in(list(st.value.elts))) \
                    and len(set(t.id for t in st.targets[0].elts)) == len(st.targets[0].elts):
                blk[i:i + 1] = [loc(ast.Assign(targets=[t], value=v, type_comment=None), st) for t, v in zip(st.targets[0].elts, st.value.elts)]
                changed = True
                continue
            # N40: the rotated loop `x = E; while c: B; x = E` is `while True: x = E; if not c: break; B` (B without `continue`)
            if isinstance(st, ast.Assign) and len(st.targets) == 1 and isinstance(st.targets[0], ast.Name) and rest and isinstance(rest[0], ast.While) \
                    and not rest[0].orelse and len(rest[0].body) >= 2:
                w = rest[0]
                last = w.body[-1]
                x = st.targets[0].id
                if isinstance(last, ast.Assign) and len(last.targets) == 1 and isinstance(last.targets[0], ast.Name) and last.targets[0].id == x \
                        and ast.unparse(last.value) == ast.unparse(st.value) and x in _names_in(w.test) \
                        and not any(isinstance(n, ast.Continue) for n in _loop_own(w)) \
                        and not any(isinstance(n, ast.Name) and n.id == x and isinstance(n.ctx, ast.Store) for b in w.body[:-1] for n in ast.walk(b)):
                    brk = loc(ast.If(test=canon.negate(w.test), body=[loc(ast.Break(), w)], orelse=[]), w)
                    w.body = [st, brk] + w.body[:-1]
                    w.test = loc(ast.Constant(value=True), w)
                    del blk[i]
                    changed = True
                    continue
            # N38: `reduce(f, seq, init)` is the loop `acc = init; for y in seq: acc = f(acc, y)`
            holder = None
            if isinstance(st, ast.For):
                holder = ('iter', st.iter)
            elif isinstance(st, (ast.Assign, ast.Return)) and st.value is not None:
                holder = ('value', st.value)
            if holder is not None:
                root = holder[1]
                red = root
                if isinstance(root, ast.Call) and isinstance(root.func, ast.Attribute) and all(canon.is_pure(a) for a in root.args) and not root.keywords:
                    red = root.func.value           # `reduce(...).split()`
                if isinstance(red, ast.Call) and ast.unparse(red.func) in ('reduce', 'six.reduce', 'functools.reduce', 'six.moves.reduce') \
                        and len(red.args) == 3 and not red.keywords and isinstance(red.args[0], (ast.Name, ast.Lambda)) \
                        and canon.is_pure(red.args[1]) and canon.is_pure(red.args[2]):
                    acc, y = _fresh('acc', taken), _fresh('item', taken)
                    fcall = ast.Call(func=red.args[0], args=[_name(acc), _name(y)], keywords=[])
                    if isinstance(red.args[0], ast.Lambda) and len(red.args[0].args.args) == 2:
                        lam = red.args[0]
                        class _S(ast.NodeTransformer):
                            def visit_Name(self, n, _m={lam.args.args[0].arg: acc, lam.args.args[1].arg: y}):
                                return _name(_m[n.id], like=n) if n.id in _m and isinstance(n.ctx, ast.Load) else n
                        fcall = _S().visit(copy.deepcopy(lam.body))
                    new = [ast.Assign(targets=[_name(acc, ast.Store())], value=red.args[2], type_comment=None),
                           ast.For(target=_name(y, ast.Store()), iter=red.args[1],
                                   body=[ast.Assign(targets=[_name(acc, ast.Store())], value=fcall, type_comment=None)], orelse=[], type_comment=None)]
                    repl = _name(acc)
                    if red is root:
                        setattr(st, holder[0], repl)
                    else:
                        root.func.value = repl
                    for n in new:
                        for x in ast.walk(n):
                            loc(x, st)
                    blk[i:i] = new
                    changed = True
                    i += 2
                    continue
            # N44: `T = E` directly followed by a statement that reads T back (`d[k] = f(); return d[k]`) is
            # `t = E; T = t` followed by the statement reading t
            if isinstance(st, ast.Assign) and len(st.targets) == 1 and isinstance(st.targets[0], (ast.Subscript, ast.Attribute)) \
                    and canon.is_pure(st.targets[0]) and not isinstance(st.value, (ast.Name, ast.Constant)) and rest \
                    and isinstance(rest[0], (ast.Return, ast.Expr, ast.Assign)):
                path = ast.unparse(st.targets[0])
                hits = [n for n in ast.walk(rest[0]) if isinstance(n, (ast.Subscript, ast.Attribute)) and isinstance(n.ctx, ast.Load)
                        and ast.unparse(n) == path]
                first_impure = None
                for n in canon._eval_order(rest[0]):
                    if hits and n is hits[0]:
                        break
                    if isinstance(n, ast.Call) and not canon.is_pure(n):
                        first_impure = n
                        break
                if hits and first_impure is None and not any(isinstance(n, (ast.Lambda, ast.GeneratorExp, ast.ListComp, ast.SetComp, ast.DictComp))
                                                             for n in ast.walk(rest[0])):
                    tmp = _fresh('stored', taken)
                    class _R(ast.NodeTransformer):
                        def generic_visit(self, n):
                            if isinstance(n, (ast.Subscript, ast.Attribute)) and isinstance(n.ctx, ast.Load) and ast.unparse(n) == path:
                                return _name(tmp, like=n)
                            return super(_R, self).generic_visit(n)
                    if isinstance(rest[0], ast.Assign):
                        rest[0].value = _R().visit(rest[0].value)
                    else:
                        blk[i + 1] = _R().visit(rest[0])
                    blk[i:i + 1] = [loc(ast.Assign(targets=[_name(tmp, ast.Store(), st)], value=st.value, type_comment=None), st),
                                    loc(ast.Assign(targets=st.targets, value=_name(tmp, like=st), type_comment=None), st)]
                    changed = True
                    i += 2
                    continue
            # N42: `x = a if c else b` is `if c: x = a else: x = b` (targets whose own sub-expressions are values)
            if isinstance(st, (ast.Assign, ast.AugAssign)) and isinstance(st.value, ast.IfExp):
                tgts = st.targets if isinstance(st, ast.Assign) else [st.target]
                # (a *local* bound to a conditional expression stays an expression: N10 substitutes it where it is used, which is
                # the form the same code has when the conditional is written inline)
                if len(tgts) == 1 and isinstance(tgts[0], (ast.Attribute, ast.Subscript)) and canon.is_pure(tgts[0]):
                    v = st.value
                    a, b = copy.deepcopy(st), copy.deepcopy(st)
                    a.value, b.value = v.body, v.orelse
                    blk[i] = loc(ast.If(test=v.test, body=[a], orelse=[b]), st)
                    changed = True
                    continue
            # N24
            if isinstance(st, ast.Try) and st.orelse and not st.finalbody and _handlers_leave(st):
                blk[i + 1:i + 1] = st.orelse
                st.orelse = []
                changed = True
                continue
            # N25
            if isinstance(st, ast.Try) and not st.orelse and not st.finalbody and len(st.handlers) == 1 and canon.terminates(st.body) \
                    and len(st.handlers[0].body) == 1 and isinstance(st.handlers[0].body[0], ast.Pass) and rest \
                    and not (st.handlers[0].name and st.handlers[0].name in _names_in(rest)):
                st.handlers[0].body = rest
                del blk[i + 1:]
                changed = True
                continue
            # N22
            if isinstance(st, ast.Try) and not st.orelse and not st.finalbody and _handlers_leave(st) and len(st.body) == 1 and rest:
                a, u = st.body[0], rest[0]
                if isinstance(a, ast.Assign) and len(a.targets) == 1 and isinstance(a.targets[0], ast.Name) \
                        and isinstance(u, ast.AugAssign) and isinstance(u.target, ast.Name) and isinstance(u.value, ast.Name) \
                        and u.value.id == a.targets[0].id and u.target.id != u.value.id and loads(u.value.id) == 1 \
                        and not nested_uses(u.value.id) and not nested_uses(u.target.id):
                    # (the call cannot re-bind the local target, so reading it before or after the call is the same)
                    st.body = [loc(ast.AugAssign(target=u.target, op=u.op, value=a.value), a)]
                    del blk[i + 1]
                    changed = True
                    continue
            # N26
            if isinstance(st, ast.For) and st.orelse and canon.terminates(st.orelse) and is_fn_body and not canon._defines(rest):
                breaks = [n for n in _loop_own(st) if isinstance(n, ast.Break)]
                holder = None
                for s in st.body:
                    if isinstance(s, ast.If) and not s.orelse and s.body and isinstance(s.body[-1], ast.Break):
                        holder = s
                if len(breaks) == 1 and holder is not None and holder.body[-1] is breaks[0]:
                    tail = copy.deepcopy(rest)
                    holder.body[-1:] = tail + ([] if canon.terminates(tail) else [loc(ast.Return(value=None), breaks[0])])
                    blk[i + 1:] = st.orelse
                    st.orelse = []
                    changed = True
                    continue
            # N27
            if isinstance(st, ast.Return) and isinstance(st.value, ast.Call) and isinstance(st.value.func, ast.Name) and st.value.func.id == 'next' \
                    and len(st.value.args) == 2 and not st.value.keywords and isinstance(st.value.args[0], ast.GeneratorExp) \
                    and canon.is_pure(st.value.args[1]) and not (_comp_targets(st.value.args[0]) & (taken - _names_in(st.value.args[0]))):
                g = st.value.args[0]
                loops = _genexp_to_loops(g, [loc(ast.Return(value=g.elt), st)], st)
                blk[i:i + 1] = loops + [loc(ast.Return(value=st.value.args[1]), st)]
                changed = True
                continue
            # N28
            if isinstance(st, ast.For) and isinstance(st.iter, ast.GeneratorExp) and not st.orelse \
                    and not (_comp_targets(st.iter) & (taken - _names_in(st.iter))):
                g = st.iter
                inner = [loc(ast.Assign(targets=[st.target], value=g.elt, type_comment=None), st)] + st.body
                blk[i:i + 1] = _genexp_to_loops(g, inner, st)
                changed = True
                continue
            # N32
            if isinstance(st, ast.Expr) and isinstance(st.value, ast.Call) and isinstance(st.value.func, ast.Attribute) and st.value.func.attr == 'update' \
                    and len(st.value.args) == 1 and not st.value.keywords:
                arg = st.value.args[0]
                if isinstance(arg, ast.Call) and ast.unparse(arg.func) == 'dict.fromkeys' and len(arg.args) == 2 and not arg.keywords \
                        and canon.is_pure(arg.args[1]) and canon.is_pure(st.value.func.value):
                    k = _fresh('key', taken)
                    tgt = loc(ast.Subscript(value=st.value.func.value, slice=_name(k, like=st), ctx=ast.Store()), st)
                    body = [loc(ast.Assign(targets=[tgt], value=arg.args[1], type_comment=None), st)]
                    blk[i] = loc(ast.For(target=_name(k, ast.Store(), st), iter=arg.args[0], body=body, orelse=[], type_comment=None), st)
                    changed = True
                    continue
            # recurse
            for field in ('body', 'orelse', 'finalbody'):
                b = getattr(st, field, None)
                if isinstance(b, list) and b and isinstance(b[0], ast.stmt) and not isinstance(st, canon.SCOPES):
                    do(b, False)
            for h in getattr(st, 'handlers', []) or []:
                do(h.body, False)
            i += 1
    do(fn.body, True)
    if changed:
        ast.fix_missing_locations(fn)
    return changed


def _loop_own(loop):
    """Nodes of the loop body that belong to this loop (nested loops' and scopes' bodies excluded)."""
    out = []
    stack = list(loop.body)
    while stack:
        n = stack.pop()
        out.append(n)
        if isinstance(n, canon.SCOPES + (ast.For, ast.While)):
            continue
        stack.extend(ast.iter_child_nodes(n))
    return out


# ------------------------------------------------------------------------------------------------ N34 tail duplication
SIMPLE = (ast.Expr, ast.Assign, ast.AugAssign, ast.Return, ast.Raise)


def _branches(ifs):
    """The leaf blocks of an if / elif / else ladder (None when a final else is missing)."""
    out = [ifs.body]
    if not ifs.orelse:
        return None
    if len(ifs.orelse) == 1 and isinstance(ifs.orelse[0], ast.If):
        sub = _branches(ifs.orelse[0])
        if sub is None:
            return None
        return out + sub
    return out + [ifs.orelse]


def duplicate_tails(fn):
    """N34. The tail (at most two simple statements directly after a complete if / elif / else ladder) is copied to the end of
    every branch that can fall through when it reads a name that every such branch binds as its last action(s)."""
    changed = False

    def do(blk):
        nonlocal changed
        i = 0
        while i < len(blk):
            st = blk[i]
            if isinstance(st, ast.If) and i + 1 < len(blk):
                leaves = _branches(st)
                tail = []
                for s in blk[i + 1:i + 3]:
                    if isinstance(s, SIMPLE) and not any(isinstance(n, (ast.Yield, ast.YieldFrom, ast.Lambda)) for n in ast.walk(s)):
                        tail.append(s)
                        if isinstance(s, (ast.Return, ast.Raise)):
                            break
                    else:
                        break
                if leaves is not None and tail:
                    open_ = [b for b in leaves if not canon.terminates(b)]
                    bound = None
                    for b in open_:
                        names = set()
                        for s in b:
                            if isinstance(s, ast.Assign) and len(s.targets) == 1 and isinstance(s.targets[0], ast.Name):
                                names.add(s.targets[0].id)
                        bound = names if bound is None else bound & names
                    reads = _names_in(tail, ast.Load)
                    if open_ and bound and (bound & reads) and len(open_) >= 2:
                        for b in open_:
                            b.extend(copy.deepcopy(tail))
                        del blk[i + 1:i + 1 + len(tail)]
                        changed = True
                        continue
            for field in ('body', 'orelse', 'finalbody'):
                b = getattr(st, field, None)
                if isinstance(b, list) and b and isinstance(b[0], ast.stmt) and not isinstance(st, canon.SCOPES):
                    do(b)
            for h in getattr(st, 'handlers', []) or []:
                do(h.body)
            i += 1
    do(fn.body)
    if changed:
        ast.fix_missing_locations(fn)
    return changed


# ------------------------------------------------------------------------------------------------ N21 module constants
CONST_CALLS = ('frozenset', 'set', 'tuple', 'len', 'str', 'range', 'sorted', 'max', 'min', 'sum', 'abs', 'int')


def _constant_expr(e):
    """Built from literals only: arithmetic / concatenation / comparison of constants, tuples, frozenset / tuple of a
    comprehension over constants (a value that cannot be mutated through the name)."""
    local = set()
    for n in ast.walk(e):
        if isinstance(n, ast.comprehension):
            local.update(x.id for x in ast.walk(n.target) if isinstance(x, ast.Name))
    for n in ast.walk(e):
        if isinstance(n, (ast.Constant, ast.BinOp, ast.UnaryOp, ast.Tuple, ast.operator, ast.unaryop, ast.expr_context, ast.GeneratorExp,
                          ast.comprehension, ast.Compare, ast.cmpop, ast.BoolOp, ast.boolop, ast.IfExp)):
            continue
        if isinstance(n, ast.List):
            # a list literal is acceptable only as the iterable of a comprehension clause (never reachable through the name)
            continue
        if isinstance(n, ast.Name):
            if n.id in local or n.id in CONST_CALLS:
                continue
            return False
        if isinstance(n, ast.Call):
            if isinstance(n.func, ast.Name) and n.func.id in CONST_CALLS and not n.keywords:
                continue
            return False
        return False
    # the value itself must be immutable
    if isinstance(e, (ast.List, ast.ListComp, ast.Set, ast.SetComp, ast.Dict, ast.DictComp)):
        return False
    if isinstance(e, ast.Call) and isinstance(e.func, ast.Name) and e.func.id in ('set', 'sorted'):
        return False
    for n in ast.walk(e):
        if isinstance(n, ast.List):
            ok = False
            for p in ast.walk(e):
                if isinstance(p, ast.comprehension) and p.iter is n:
                    ok = True
            if not ok:
                return False
    return True


def fold_module_constants(tree, known):
    """N21: module-level `NAME = <constant expression>` (bound once in the module, never declared global, not in `known`: the
    names the rules were written against) is substituted wherever a function reads the name without binding it."""
    stores = {}
    for n in ast.walk(tree):
        if isinstance(n, ast.Name) and isinstance(n.ctx, (ast.Store, ast.Del)):
            stores[n.id] = stores.get(n.id, 0) + 1
        elif isinstance(n, (ast.Global, ast.Nonlocal)):
            for x in n.names:
                stores[x] = stores.get(x, 0) + 2
        elif isinstance(n, (ast.FunctionDef, ast.ClassDef)):
            stores[n.name] = stores.get(n.name, 0) + 1
        elif isinstance(n, ast.arg):
            pass
    consts = {}
    for s in tree.body:
        if isinstance(s, ast.Assign) and len(s.targets) == 1 and isinstance(s.targets[0], ast.Name):
            x = s.targets[0].id
            if stores.get(x) == 1 and x not in known and _constant_expr(s.value):
                consts[x] = s.value
    if not consts:
        return []

    class Sub(ast.NodeTransformer):
        def __init__(self, shadow):
            self.shadow = shadow

        def scope(self, node):
            a = node.args
            params = set(x.arg for x in a.posonlyargs + a.args + a.kwonlyargs)
            if a.vararg:
                params.add(a.vararg.arg)
            if a.kwarg:
                params.add(a.kwarg.arg)
            return params

        def visit_FunctionDef(self, node):
            inner = Sub(self.shadow | self.scope(node) | set(n.id for n in canon._own_nodes(node)
                                                               if isinstance(n, ast.Name) and isinstance(n.ctx, (ast.Store, ast.Del))))
            node.body = [inner.visit(s) for s in node.body]
            node.decorator_list = [self.visit(d) for d in node.decorator_list]
            return node

        def visit_Lambda(self, node):
            inner = Sub(self.shadow | self.scope(node))
            node.body = inner.visit(node.body)
            return node

        def visit_Name(self, n):
            if isinstance(n.ctx, ast.Load) and n.id in consts and n.id not in self.shadow:
                return loc(copy.deepcopy(consts[n.id]), n)
            return n
    sub = Sub(set())
    for idx, s in enumerate(tree.body):
        if isinstance(s, ast.Assign) and len(s.targets) == 1 and isinstance(s.targets[0], ast.Name) and s.targets[0].id in consts:
            continue
        tree.body[idx] = sub.visit(s)
    ast.fix_missing_locations(tree)
    return sorted(consts)


# ------------------------------------------------------------------------------------------------ driver
def pre(tree):
    """Expression rewrites and the statement rewrites of every function; run before each pass of canon.Normaliser."""
    tree = Expr().visit(tree)
    ast.fix_missing_locations(tree)
    for fn in [n for n in ast.walk(tree) if isinstance(n, (ast.FunctionDef, ast.AsyncFunctionDef))]:
        for _ in range(20):
            if not rewrite_blocks(fn):
                break
        duplicate_tails(fn)
    return tree
