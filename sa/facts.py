"""Trusted facts about the language/runtime (DESIGN 1.4), not about the repository."""

# struct module: code -> width, and the value domain struct.pack accepts (docs.python.org/3/library/struct.html)
SCALARS = {
    'i8': {'size': 1, 'code': 'b', 'min': -(1 << 7), 'max': (1 << 7) - 1, 'c': 'int8_t'},
    'i16': {'size': 2, 'code': 'h', 'min': -(1 << 15), 'max': (1 << 15) - 1, 'c': 'int16_t'},
    'i32': {'size': 4, 'code': 'i', 'min': -(1 << 31), 'max': (1 << 31) - 1, 'c': 'int32_t'},
    'i64': {'size': 8, 'code': 'q', 'min': -(1 << 63), 'max': (1 << 63) - 1, 'c': 'int64_t'},
    'u8': {'size': 1, 'code': 'B', 'min': 0, 'max': (1 << 8) - 1, 'c': 'uint8_t'},
    'u16': {'size': 2, 'code': 'H', 'min': 0, 'max': (1 << 16) - 1, 'c': 'uint16_t'},
    'u32': {'size': 4, 'code': 'I', 'min': 0, 'max': (1 << 32) - 1, 'c': 'uint32_t'},
    'u64': {'size': 8, 'code': 'Q', 'min': 0, 'max': (1 << 64) - 1, 'c': 'uint64_t'},
    'r32': {'size': 4, 'code': 'f', 'c': 'float'},
    'r64': {'size': 8, 'code': 'd', 'c': 'double'},
}
BUILTIN_NAMES = sorted(SCALARS) + ['byte']
BYTE = {'size': 1, 'c': 'uint8_t'}
