"""Tiny evaluator of *pure guard expressions* over a finite environment of concrete values (E6).

Only conditions are folded (names/attributes looked up by source text, len(), slicing of lists, + - * comparisons,
boolean operators); nothing of the repository is executed and no statement is interpreted."""
import ast

from .pyfront import unparse


class Unknown(Exception):
    pass


class Crash(Unknown):
    """The expression raises (TypeError ...) for this valuation: a fact about the guard, not an unrecognised term."""


def ev(e, env):
    src = unparse(e)
    if src in env:
        return env[src]
    if isinstance(e, ast.Name) and e.id in env.get('__defs__', {}):
        # a local with a single reaching definition: substitute its defining (pure) expression
        return ev(env['__defs__'][e.id], env)
    if isinstance(e, ast.Call) and unparse(e.func) in ('max', 'min', 'abs', 'bool', 'int') and not e.keywords:
        args = [ev(a, env) for a in e.args]
        try:
            return {'max': max, 'min': min, 'abs': abs, 'bool': bool, 'int': int}[unparse(e.func)](*args)
        except (TypeError, ValueError) as ex:
            raise Crash('%s fails at run time: %s' % (src, ex))
    if isinstance(e, ast.Constant):
        return e.value
    if isinstance(e, ast.BoolOp):
        if isinstance(e.op, ast.And):
            v = True
            for x in e.values:
                v = ev(x, env)
                if not v:
                    return v
            return v
        v = False
        for x in e.values:
            v = ev(x, env)
            if v:
                return v
        return v
    if isinstance(e, ast.UnaryOp):
        v = ev(e.operand, env)
        if isinstance(e.op, ast.Not):
            return not v
        if isinstance(e.op, ast.USub):
            return -v
    if isinstance(e, ast.BinOp):
        a, b = ev(e.left, env), ev(e.right, env)
        try:
            if isinstance(e.op, ast.Add):
                return a + b
            if isinstance(e.op, ast.Sub):
                return a - b
            if isinstance(e.op, ast.Mult):
                return a * b
        except TypeError as ex:
            raise Crash('%s fails at run time: %s' % (src, ex))
    if isinstance(e, ast.Compare) and len(e.ops) == 1:
        a, b, op = ev(e.left, env), ev(e.comparators[0], env), e.ops[0]
        table = {ast.Eq: lambda: a == b, ast.NotEq: lambda: a != b, ast.Lt: lambda: a < b, ast.LtE: lambda: a <= b,
                 ast.Gt: lambda: a > b, ast.GtE: lambda: a >= b, ast.Is: lambda: a is b, ast.IsNot: lambda: a is not b,
                 ast.In: lambda: a in b, ast.NotIn: lambda: a not in b}
        for k, fn in table.items():
            if isinstance(op, k):
                try:
                    return fn()
                except TypeError as ex:
                    raise Crash('comparison fails at run time: %s (%s)' % (src, ex))
    if isinstance(e, ast.Call) and unparse(e.func) == 'len' and len(e.args) == 1:
        v = ev(e.args[0], env)
        try:
            return len(v)
        except TypeError:
            raise Unknown('len() of %r' % (v,))
    if isinstance(e, ast.Subscript):
        base = ev(e.value, env)
        if isinstance(e.slice, ast.Slice):
            lo = ev(e.slice.lower, env) if e.slice.lower is not None else None
            hi = ev(e.slice.upper, env) if e.slice.upper is not None else None
            st = ev(e.slice.step, env) if e.slice.step is not None else None
            return base[lo:hi:st]
        return base[ev(e.slice, env)]
    if isinstance(e, (ast.ListComp, ast.GeneratorExp)) and len(e.generators) == 1 and not e.generators[0].ifs:
        # one element per element of the iterated sequence (the elements themselves are opaque)
        it = ev(e.generators[0].iter, env)
        try:
            return [object()] * len(it)
        except TypeError:
            raise Unknown(src)
    if isinstance(e, ast.IfExp):
        return ev(e.body, env) if ev(e.test, env) else ev(e.orelse, env)
    raise Unknown(src)
