"""E9 CxxFront: clang++ -fsyntax-only -ast-dump=json over a TU that includes every public header.

clang is used as a parser/type resolver only; nothing is compiled to code or run. Gives wrapped
statement/expression trees with source text (ranges resolved against the elided file/line scheme of
clang's JSON dumper), function bodies incl. template members and explicit specialisations.
"""
import json
import os
import subprocess
import tempfile

from .core import AnalysisError, ToolError

HEADERS = [
    'prophy/prophy.hpp', 'prophy/array.hpp', 'prophy/endianness.hpp', 'prophy/optional.hpp',
    'prophy/detail/byte_size.hpp', 'prophy/detail/message.hpp', 'prophy/detail/mpl.hpp',
    'prophy/detail/encoder.hpp', 'prophy/detail/decoder.hpp', 'prophy/detail/printer.hpp',
    'prophy/detail/align.hpp', 'prophy/detail/codec_traits.hpp', 'prophy/detail/message_impl.hpp',
    'prophy/detail/prophy.hpp', 'prophy/detail/struct.hpp',
]
PRELUDE = '#include <vector>\n#include <string>\n#include <ostream>\n#include <sstream>\n#include <utility>\n' \
          '#include <numeric>\n#include <algorithm>\n#include <stdint.h>\n#include <stddef.h>\n'


def clang_run(args, src, inc):
    d = tempfile.mkdtemp(prefix='sa_cxx_')
    try:
        tu = os.path.join(d, 'tu.cpp')
        with open(tu, 'w') as f:
            f.write(src)
        p = subprocess.run(['clang++', '-std=c++11', '-fsyntax-only', '-I' + inc] + args + [tu],
                           capture_output=True, text=True)
        return p.returncode, p.stdout, p.stderr
    finally:
        for fn in os.listdir(d):
            os.unlink(os.path.join(d, fn))
        os.rmdir(d)


class N(object):
    """Wrapped clang JSON node."""
    __slots__ = ('j', 'kind', 'kids', 'parent', 'front')

    def __init__(self, j, parent, front):
        self.j = j
        self.kind = j.get('kind')
        self.parent = parent
        self.front = front
        inner = j.get('inner', [])
        if self.kind == 'ForStmt' and len(inner) == 5 and not inner[0].get('kind') and not inner[1].get('kind') and inner[2].get('kind') \
                and inner[4].get('kind'):
            # `for (; cond; inc) body` is `while (cond) { body; inc; }` (the rules know counted loops in the while form)
            incs = []

            def split(e):
                if e.get('kind') == 'BinaryOperator' and e.get('opcode') == ',':
                    for x in e.get('inner', []):
                        split(x)
                elif e.get('kind'):
                    incs.append(e)
            split(inner[3])
            body = inner[4]
            stmts = list(body.get('inner', [])) if body.get('kind') == 'CompoundStmt' else [body]
            comp = {'kind': 'CompoundStmt', 'range': body.get('range', j.get('range')), 'inner': stmts + incs, 'id': 'synthetic'}
            self.kind = 'WhileStmt'
            inner = [inner[2], comp]
        self.kids = [N(c, self, front) for c in inner if c.get('kind')]

    @property
    def name(self):
        return self.j.get('name')

    @property
    def type(self):
        t = self.j.get('type')
        return t.get('qualType') if t else None

    @property
    def opcode(self):
        return self.j.get('opcode')

    @property
    def value(self):
        return self.j.get('value')

    @property
    def ref(self):
        r = self.j.get('referencedDecl')
        return r.get('name') if r else None

    @property
    def file(self):
        r = self.j.get('range', {}).get('begin', {})
        r = r.get('expansionLoc', r)
        return r.get('file')

    @property
    def line(self):
        r = self.j.get('range', {}).get('begin', {})
        r = r.get('expansionLoc', r)
        return r.get('line')

    @property
    def text(self):
        return self.front.text_of(self.j)

    @property
    def ntext(self):
        return self.front.ntext(self)

    @property
    def bin(self):
        """(opcode, lhs, rhs) of a binary operator, also when clang kept it as a dependent
        CXXOperatorCallExpr (operands of template-dependent type)."""
        n = self.strip()
        if n.kind in ('BinaryOperator', 'CompoundAssignOperator') and len(n.kids) == 2:
            return n.opcode, n.kids[0], n.kids[1]
        if n.kind == 'CXXOperatorCallExpr' and len(n.kids) == 3:
            op = (n.kids[0].text or n.kids[0].name or '').replace('operator', '').strip()
            return op, n.kids[1], n.kids[2]
        return None

    def walk(self):
        yield self
        for k in self.kids:
            for x in k.walk():
                yield x

    def find(self, kind=None, pred=None):
        for n in self.walk():
            if (kind is None or n.kind == kind or (isinstance(kind, tuple) and n.kind in kind)) \
                    and (pred is None or pred(n)):
                yield n

    def strip(self):
        """Skip wrappers that carry no meaning for the rules."""
        n = self
        for _ in range(12):
            while n.kind in ('ImplicitCastExpr', 'ParenExpr', 'ExprWithCleanups', 'MaterializeTemporaryExpr',
                             'ConstantExpr', 'CXXBindTemporaryExpr') and len(n.kids) >= 1:
                n = n.kids[-1] if n.kind == 'ConstantExpr' else n.kids[0]
            # a `const` local with an initialiser stands for that initialiser (hoisting a sub-expression into a named
            # constant does not change what the rules see)
            d = n.const_local_init() if n.kind == 'DeclRefExpr' else None
            if d is None:
                break
            n = d
        return n

    def const_local_init(self, refs=False):
        r = self.j.get('referencedDecl')
        if not r or r.get('kind') != 'VarDecl':
            return None
        t = (r.get('type') or {}).get('qualType') or ''
        is_const_ref = refs and t.startswith('const ') and t.rstrip().endswith('&') and not t.rstrip().endswith('&&')
        if not (t.startswith('const ') and not t.rstrip().endswith(('*', '&'))) and not t.rstrip().endswith('*const') \
                and not t.rstrip().endswith('* const') and not is_const_ref:
            return None
        decl = self.front.var_decl(r.get('id'))
        if decl is None or not decl.kids or decl.j.get('init') is None:
            return None
        if decl.parent is None or decl.parent.kind != 'DeclStmt':
            return None          # parameters, globals, loop variables
        return decl.kids[-1]

    def site(self):
        f = self.file or '?'
        if '/prophy_cpp/' in f:
            f = 'prophy_cpp/' + f.split('/prophy_cpp/', 1)[1]
        return '%s:%s' % (f, self.line)

    def __repr__(self):
        return '<%s %s>' % (self.kind, (self.text or '')[:60])


class CxxFunc(object):
    def __init__(self, node, owner, front):
        self.node = node
        self.owner = owner              # e.g. 'decoder<E, T, false, false, false>' or None
        self.name = node.name
        self.front = front
        self.params = [(k.name, k.type) for k in node.kids if k.kind == 'ParmVarDecl']
        self.targs = [front.targ_text(k) for k in node.kids if k.kind == 'TemplateArgument']
        bodies = [k for k in node.kids if k.kind == 'CompoundStmt']
        self.body = bodies[0] if bodies else None
        self.sig = node.type
        self.template_params = []       # filled for function templates

    @property
    def qual(self):
        q = (self.owner + '::' if self.owner else '') + self.name
        if self.targs:
            q += '<' + ', '.join(self.targs) + '>'
        return q

    def key(self):
        return '%s(%s)' % (self.qual, ', '.join(t for _, t in self.params))

    def site(self, node=None):
        n = node or self.node
        return '%s (%s)' % (n.site(), self.qual)

    def __repr__(self):
        return '<CxxFunc %s>' % self.key()


class CxxFront(object):
    def __init__(self, repo):
        self.inc = os.path.join(repo, 'prophy_cpp', 'include')
        for h in HEADERS:
            if not os.path.exists(os.path.join(self.inc, h)):
                raise AnalysisError('anchor vanished: header %s' % h)
        src = PRELUDE + ''.join('#include <%s>\n' % h for h in HEADERS)
        rc, out, err = clang_run(['-Xclang', '-ast-dump=json', '-Xclang', '-ast-dump-filter=prophy'], src, self.inc)
        if rc != 0:
            raise ToolError('clang++ -fsyntax-only failed on the headers (the headers do not compile):\n' + err[:2000])
        self.sources = {}
        self.roots = []
        dec = json.JSONDecoder()
        i, n = 0, len(out)
        while i < n:
            while i < n and out[i].isspace():
                i += 1
            if i >= n:
                break
            try:
                o, i = dec.raw_decode(out, i)
            except ValueError:
                # clang prints "Dumping prophy:" banners between objects
                j = out.find('\n', i)
                if j < 0:
                    break
                i = j + 1
                continue
            self._resolve_locs(o)
            self.roots.append(N(o, None, self))
        if not self.roots:
            raise ToolError('clang JSON dump is empty')
        self.funcs = []
        self.records = []   # (name, spec-args text list, node)
        for r in self.roots:
            self._collect(r, [])
        if len(self.funcs) < 100:
            raise AnalysisError('clang front-end found only %d function bodies (expected > 100)' % len(self.funcs))

    # -- locations -----------------------------------------------------------------------------
    def var_decl(self, did):
        if not hasattr(self, '_var_decls'):
            self._var_decls = {}
            for f in self.funcs:
                for d in f.node.find('VarDecl'):
                    self._var_decls[d.j.get('id')] = d
        return self._var_decls.get(did)

    def _resolve_locs(self, root):
        cur = [None, None]

        def fix(loc):
            if 'file' in loc:
                cur[0] = loc['file']
            else:
                loc['file'] = cur[0]
            if 'line' in loc:
                cur[1] = loc['line']
            else:
                loc['line'] = cur[1]

        def rec(o):
            if isinstance(o, dict):
                if 'offset' in o and 'tokLen' in o:
                    fix(o)
                    for k in ('includedFrom',):
                        pass
                    return
                for k, v in o.items():
                    if k == 'includedFrom':
                        continue
                    rec(v)
            elif isinstance(o, list):
                for v in o:
                    rec(v)
        rec(root)

    def source(self, path):
        if path not in self.sources:
            with open(path, encoding='utf-8', errors='replace') as f:
                self.sources[path] = f.read()
        return self.sources[path]

    def text_of(self, j):
        r = j.get('range')
        if not r:
            return ''
        b, e = r.get('begin', {}), r.get('end', {})
        b = b.get('expansionLoc', b)
        e = e.get('expansionLoc', e)
        if not b.get('file') or b.get('file') != e.get('file') or 'offset' not in b or 'offset' not in e:
            return ''
        try:
            s = self.source(b['file'])
        except OSError:
            return ''
        return ' '.join(s[b['offset']: e['offset'] + e.get('tokLen', 0)].split())

    def _span(self, j):
        r = j.get('range')
        if not r:
            return None
        b, e = r.get('begin', {}), r.get('end', {})
        b = b.get('expansionLoc', b)
        e = e.get('expansionLoc', e)
        if not b.get('file') or b.get('file') != e.get('file') or 'offset' not in b or 'offset' not in e:
            return None
        return b['file'], b['offset'], e['offset'] + e.get('tokLen', 0)

    def ntext(self, n, depth=0, loose=None):
        """Source text of the node with every reference to a const local (value, const pointer or reference to const, bound once
        where it is declared) replaced by its initialiser, `(*p).m` written `p->m`, white space removed: hoisting a
        sub-expression into a named constant and inlining one give the same text."""
        import re
        sp = self._span(n.j)
        if sp is None:
            return ''
        f, b, e = sp
        src = self.source(f)
        subs = []

        def rec(x):
            if x.kind == 'DeclRefExpr' and depth < 8:
                init = x.const_local_init(refs=True)
                if init is None and loose is not None and x.ref in loose:
                    init = loose[x.ref]
                xs = self._span(x.j)
                if init is not None and xs is not None and xs[0] == f and b <= xs[1] and xs[2] <= e:
                    subs.append((xs[1], xs[2], '(' + self.ntext(init, depth + 1, loose) + ')'))
                    return
            for k in x.kids:
                rec(k)
        rec(n)
        out, pos = [], b
        for sb, se, rep in sorted(subs):
            if sb < pos:
                continue
            out.append(src[pos:sb])
            out.append(rep)
            pos = se
        out.append(src[pos:e])
        t = ''.join(out)
        t = re.sub(r'/\*.*?\*/', ' ', t, flags=re.S)
        t = re.sub(r'//[^\n]*', ' ', t)
        t = re.sub(r'\s+', '', t)
        t = re.sub(r'\(\*((?:[^()]|\((?:[^()]|\([^()]*\))*\))+)\)\.', r'\1->', t)
        # redundant parentheses around a substituted primary expression: `f((x))`, `((x)).m`
        prev = None
        while prev != t:
            prev = t
            t = re.sub(r'\(\((\w+(?:<[^()]*>)?\((?:[^()]|\([^()]*\))*\))\)\)', r'(\1)', t)
            t = re.sub(r'([(,=])\((\*?\w+(?:<[^()<>]*>)?\((?:[^()]|\([^()]*\))*\)(?:->\w+\(\))?)\)([,);])', r'\1\2\3', t)
            t = re.sub(r'\((\w+(?:<[^()<>]*>)?\((?:[^()]|\([^()]*\))*\))\)->', r'\1->', t)
        return t

    def targ_text(self, n):
        if n.j.get('value') is not None:
            return str(n.j['value'])
        if n.type and not n.kids:
            return n.type
        for k in n.kids:
            if k.ref:
                return k.ref
            if k.type:
                return k.type
        return n.type or '?'

    # -- collection ----------------------------------------------------------------------------
    def _collect(self, n, owner_stack):
        if n.kind in ('FunctionDecl', 'CXXMethodDecl', 'CXXConstructorDecl'):
            if any(k.kind == 'CompoundStmt' for k in n.kids):
                f = CxxFunc(n, owner_stack[-1] if owner_stack else None, self)
                if n.parent is not None and n.parent.kind == 'FunctionTemplateDecl':
                    f.template_params = [(k.name, k.type or k.j.get('tagUsed')) for k in n.parent.kids
                                         if k.kind in ('NonTypeTemplateParmDecl', 'TemplateTypeParmDecl')]
                # implicit instantiations repeat template bodies: keep only written code
                if not n.j.get('isImplicit') and not self._is_instantiation(n):
                    self.funcs.append(f)
            return
        if n.kind in ('CXXRecordDecl', 'ClassTemplateSpecializationDecl', 'ClassTemplatePartialSpecializationDecl'):
            if n.kind == 'ClassTemplateSpecializationDecl' and not self._written_spec(n):
                return
            args = [self.targ_text(k) for k in n.kids if k.kind == 'TemplateArgument']
            label = n.name or '?'
            if args:
                label += '<' + ', '.join(args) + '>'
            self.records.append((n.name, args, n))
            for k in n.kids:
                self._collect(k, owner_stack + [label])
            return
        for k in n.kids:
            self._collect(k, owner_stack)

    def _is_instantiation(self, n):
        # functions listed under FunctionTemplateDecl after the templated decl are instantiations /
        # references to specialisations; the written explicit specialisation appears at namespace level
        p = n.parent
        if p is not None and p.kind == 'FunctionTemplateDecl':
            first = [k for k in p.kids if k.kind in ('FunctionDecl', 'CXXMethodDecl')]
            return bool(first) and first[0] is not n
        return False

    def _written_spec(self, n):
        p = n.parent
        return not (p is not None and p.kind == 'ClassTemplateDecl')

    # -- queries -------------------------------------------------------------------------------
    def functions(self, name=None, owner_prefix=None, file_suffix=None):
        out = []
        for f in self.funcs:
            if name is not None and f.name != name:
                continue
            if owner_prefix is not None and not (f.owner or '').startswith(owner_prefix):
                continue
            if file_suffix is not None and not (f.node.file or '').endswith(file_suffix):
                continue
            out.append(f)
        return out

    def inventory(self):
        return {'cxx_function_bodies': len(self.funcs), 'cxx_records': len(self.records),
                'cxx_headers': HEADERS}


def static_assert_witness(repo, asserts_src):
    """E10: compile-fail witness. Returns list of (ok, message) per failed static_assert."""
    inc = os.path.join(repo, 'prophy_cpp', 'include')
    src = PRELUDE + ''.join('#include <%s>\n' % h for h in HEADERS) + asserts_src
    rc, out, err = clang_run([], src, inc)
    return rc, err
