"""C08 - raw C++ struct layout coincides with the wire layout (structural clauses)."""
from . import shared_raw as R
from . import shared_model as M
from . import shared_gen as G


def run(ctx, L, tier):
    R.packed_macro(ctx, L)
    R.padder(ctx, L)
    R.hpp_struct(ctx, L)
    R.f17_raw(ctx, L)
    G.f9_arithmetic(ctx, L, 'prophyc.generators.cpp', ['_HppDefinitionsTranslator.translate_struct.gen_member'])
    G.f4_tables(ctx, L)
    M.dynamic_predicates(ctx, L)
    M.size_formulas(ctx, L)
    from . import c20
    c20.shared_state(ctx, L)        # no state that survives from one compiled file / call to the next (module, class, closure, default argument)
    from . import shared_gen as _G
    _G.generators_read_only(ctx, L)
    from . import c14 as _c14
    _c14.precedence(ctx, L)            # array sizes printed as expressions are evaluated by the C++ compiler with *its* precedence
    _c14.ladders(ctx, L)
    return sorted(set(o.rule for o in L.obligations))
