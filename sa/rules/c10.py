"""C10 - the Python message API keeps every reachable message state valid (structural clauses)."""
import ast
import re

from ..core import AnalysisError
from .shared_py import inn
from ..pyfront import unparse, path_conditions, norm_key, terminates
from .. import miniev, excflow
from . import shared_py as P
from . import c06


from ..pyfront import ws  # noqa: E402,F401  (whitespace-collapsed, rename/normal-form tolerant `in`)


def run(ctx, L, tier):
    checked_stores(ctx, L)
    limit_guards(ctx, L)
    fixed_length(ctx, L)
    atomicity(ctx, L)
    P.counter_clause(ctx, L)
    union_gating(ctx, L)
    pack_domain(ctx, L)
    slice_components(ctx, L)
    P.bytes_default(ctx, L)
    mutator_escapes(ctx, L)
    check_returns(ctx, L)
    P.presence_by_identity(ctx, L)
    from . import c11
    c11.ownership(ctx, L)       # extend()/copy_from must not alias: a later mutation of one message would show in the other
    c11.ladder(ctx, L)
    c11.extend_copies(ctx, L)
    return sorted(set(o.rule for o in L.obligations))


# ------------------------------------------------------------------------------------------------ (a)
def checked_stores(ctx, L):
    gen = ctx.py.mod('prophy.generators')
    n = 0
    for f in gen.all_funcs():
        for node in f.walk():
            tgt = val = None
            if isinstance(node, ast.Assign) and isinstance(node.targets[0], ast.Subscript) and \
                    unparse(node.targets[0].value) == 'self._fields':
                tgt, val = node.targets[0], node.value
            elif isinstance(node, ast.Call) and unparse(node.func) == 'self._fields.setdefault' and len(node.args) == 2:
                tgt, val = node, node.args[1]
            elif isinstance(node, ast.Assign) and unparse(node.targets[0]) == 'self._fields':
                n += 1
                L.check(unparse(node.value) == '{}', 'C10a.checked-store', '%s|%s' % (f.fq, norm_key(f, node)), f.site(node),
                        '_fields may only be replaced by an empty dict', unparse(node))
                continue
            if tgt is None:
                continue
            n += 1
            key = '%s|%s' % (f.fq, norm_key(f, node))
            vs = ws(unparse(val))
            ok = False
            why = ''
            if re.match(r'^(descriptor_field|field)\.type\._check\(new_value\)$', vs):
                ok = True
            elif re.match(r'^(descriptor_field|field)\.type\(\)$', vs):
                ok = True       # fresh default instance
            elif vs == 'None':
                ok = any(unparse(t) == 'new_value is None' and p for t, p, h in path_conditions(f.module, f, node))
                why = 'None stored without the `new_value is None` guard'
            elif vs in ('value', 'new_value'):
                # must have been rebound to a checked/fresh value before
                prior = [s for s in f.walk() if isinstance(s, ast.Assign) and unparse(s.targets[0]) == vs
                         and re.match(r'^(descriptor_field|field)\.type(\._check\(new_value\)|\(\))$', ws(unparse(s.value)))]
                ok = bool(prior)
                why = '`%s` is stored without having passed _check or being a fresh instance' % vs
            L.check(ok, 'C10a.checked-store', key, f.site(node),
                    'a value is stored into the message\'s _fields that is neither T._check(v), a fresh T() nor None under the '
                    'optional setter: %s %s' % (vs, why), unparse(node))
    L.floor('C10a.checked-store', n, 8)
    # property closures: composite / array setters always refuse
    for q, idx in (('struct_generator.add_repeated_property.setter', None), ('struct_generator.add_composite_property.setter', 1),
                   ('union_generator.add_union_composite_property.setter', None)):
        f = gen.func(q, idx)
        L.check(len(f.node.body) == 1 and isinstance(f.node.body[0], ast.Raise) and 'ProphyError' in unparse(f.node.body[0]),
                'C10a.checked-store', q, f.site(), 'assignment to an array / composite field must be refused', unparse(f.node))
    oc = gen.func('struct_generator.add_composite_property.setter', 0)
    SP = ['self', 'new_value']
    muts = [x for x in oc.walk() if (isinstance(x, ast.Assign) and '_fields' in unparse(x.targets[0]))
            or (isinstance(x, ast.Call) and isinstance(x.func, ast.Attribute) and '_fields' in unparse(x.func.value)
                and x.func.attr in ('pop', 'clear', 'update', 'setdefault', '__setitem__', '__delitem__'))
            or (isinstance(x, ast.Delete) and '_fields' in unparse(x))]
    ok = len(muts) == 2
    for x in muts:
        if isinstance(x, ast.Assign):
            ok = ok and P.knows(oc, x, 'new_value is True', True, SP) and re.match(r'^\w+\.type\(\)$', ws(unparse(x.value))) is not None
        elif isinstance(x, ast.Call) and x.func.attr == 'pop':
            ok = ok and P.knows(oc, x, 'new_value is None', True, SP)
        else:
            ok = False
    refuses = [r for r in oc.walk() if isinstance(r, ast.Raise) and r.exc is not None and 'ProphyError' in unparse(r.exc)
               and P.knows(oc, r, 'new_value is True', False, SP) and P.knows(oc, r, 'new_value is None', False, SP)]
    s = ws(unparse(oc.node))
    L.check(ok and len(refuses) >= 1, 'C10a.checked-store',
            'add_composite_property.setter#optional', oc.site(), 'an optional composite accepts only True (stores a fresh instance) / None '
            '(removes the field) and refuses everything else with ProphyError', s)
    # array mutators
    cont = ctx.py.mod('prophy.container')
    base = ctx.py.mod('prophy.base_array')
    m = 0
    for mod in (cont, base):
        for f in mod.all_funcs():
            if f.cls is None or f.qualname.endswith(('__init__', '__eq__', '__ne__')):
                continue
            for node in f.walk():
                mut = None
                if isinstance(node, ast.Call) and isinstance(node.func, ast.Attribute) and unparse(node.func.value) == 'self._values' \
                        and node.func.attr in ('append', 'insert', 'extend', 'remove', 'sort', 'pop', 'reverse', 'clear'):
                    mut = (node.func.attr, node.args)
                elif isinstance(node, ast.Assign) and isinstance(node.targets[0], ast.Subscript) and \
                        unparse(node.targets[0].value) == 'self._values':
                    mut = ('setitem', [node.value])
                elif isinstance(node, ast.Delete) and any(unparse(getattr(t, 'value', t)) == 'self._values' for t in node.targets):
                    mut = ('del', [])
                if mut is None:
                    continue
                m += 1
                kind, args = mut
                key = '%s|%s' % (f.fq, norm_key(f, node))
                if kind in ('remove', 'sort', 'del', 'pop', 'reverse', 'clear'):
                    L.ok('C10a.checked-store', key, f.site(node), 'removes / permutes already checked values')
                    continue
                v = ws(unparse(args[-1]))
                ok = sanitised(f, args[-1], 0)
                L.check(ok, 'C10a.checked-store', key, f.site(node),
                        'an element enters the array\'s _values that is neither self._TYPE._check(v) nor a fresh self._TYPE(): %s' % v,
                        unparse(node))
    L.floor('C10a.array-mutators', m, 12)
    init = cont.func('fixed_scalar_array.__init__')
    L.check('self._values = [self._TYPE._DEFAULT] * self._max_len' in ws(unparse(init.node)), 'C10a.checked-store',
            'fixed_scalar_array.__init__', init.site(), 'a fixed array starts with max_len defaults', '')
    init = cont.func('fixed_composite_array.__init__')
    L.check('self._values = [self._TYPE() for _ in xrange(self._max_len)]' in ws(unparse(init.node)), 'C10a.checked-store',
            'fixed_composite_array.__init__', init.site(), 'a fixed composite array starts with max_len fresh elements', '')


# ------------------------------------------------------------------------------------------------ (b)
def _rebound_before(f, use):
    """A parameter is used after an assignment to it that dominates the use (same or enclosing block, earlier statement)."""
    m = f.module
    node = use
    while node is not None and node is not f.node:
        par = m.parent(node)
        for field in ('body', 'orelse', 'finalbody'):
            blk = getattr(par, field, None)
            if isinstance(blk, list) and any(x is node for x in blk):
                for st in blk[:[i for i, x in enumerate(blk) if x is node][0]]:
                    if isinstance(st, ast.Assign) and any(isinstance(t, ast.Name) and t.id == use.id for t in st.targets):
                        return True
        node = par
    return False


def sanitised(f, e, depth):
    """Is every value this expression can stand for either the result of self._TYPE._check(...) or a fresh self._TYPE() instance?
    Names are followed through all their bindings in the function (any spelling of the local)."""
    if depth > 5:
        return False
    t = ws(unparse(e))
    if isinstance(e, ast.Call):
        fn = ws(unparse(e.func))
        if fn == 'self._TYPE._check' and len(e.args) == 1:
            return True
        if fn == 'self._TYPE' and not e.args:
            return True
        if fn == 'map' and len(e.args) == 2 and ws(unparse(e.args[0])) == 'self._TYPE._check':
            return True
        if fn in ('list', 'tuple') and len(e.args) == 1:
            return sanitised(f, e.args[0], depth + 1)
        if isinstance(e.func, ast.Name) and not e.args:
            # composite_cls() with composite_cls = self._TYPE
            defs = [a.value for a in f.walk() if isinstance(a, ast.Assign) and len(a.targets) == 1 and isinstance(a.targets[0], ast.Name)
                    and a.targets[0].id == e.func.id]
            return bool(defs) and all(ws(unparse(d)) == 'self._TYPE' for d in defs)
        return False
    if isinstance(e, (ast.ListComp, ast.GeneratorExp)):
        return sanitised(f, e.elt, depth + 1)
    if isinstance(e, ast.Name):
        if e.id in f.params and not _rebound_before(f, e):
            return False        # the caller's value as passed in
        defs = []
        for a in f.walk():
            if isinstance(a, ast.Assign):
                for tg in a.targets:
                    if isinstance(tg, ast.Name) and tg.id == e.id:
                        defs.append(a.value)
                    elif isinstance(tg, ast.Tuple) and any(isinstance(x, ast.Name) and x.id == e.id for x in tg.elts):
                        return False
            elif isinstance(a, (ast.For, ast.comprehension)) and any(isinstance(x, ast.Name) and x.id == e.id for x in ast.walk(a.target)):
                return False
            elif isinstance(a, ast.AugAssign) and isinstance(a.target, ast.Name) and a.target.id == e.id:
                return False
        if not defs:
            return False
        for d in defs:
            if isinstance(d, ast.List) and not d.elts:
                # an accumulator list: every element appended / extended must be sanitised itself
                for c in f.walk():
                    if isinstance(c, ast.Call) and isinstance(c.func, ast.Attribute) and ws(unparse(c.func.value)) == e.id:
                        if c.func.attr in ('append', 'extend', 'insert'):
                            if not sanitised(f, c.args[-1], depth + 1):
                                return False
                        elif c.func.attr not in ('pop', 'remove', 'clear', 'sort', 'reverse', 'index', 'count'):
                            return False
            elif not sanitised(f, d, depth + 1):
                return False
        return True
    return False


def limit_guards(ctx, L):
    """Every growing mutator has a limit guard that is true exactly when max_len > 0 and the new length > max_len."""
    cont = ctx.py.mod('prophy.container')
    cases = [('bound_scalar_array.append', 'one'), ('bound_scalar_array.insert', 'one'), ('bound_scalar_array.extend', 'many'),
             ('bound_scalar_array.__setslice__', 'slice'), ('bound_composite_array.add', 'one'), ('bound_composite_array.extend', 'seq')]
    n = 0
    for q, kind in cases:
        f = cont.func(q)
        # the rejection predicate: OR over the ProphyError raises whose path condition mentions the limit of the
        # conjunction of their branch conditions, locals substituted by their single reaching definition
        raises = []
        for r in f.walk():
            if isinstance(r, ast.Raise) and r.exc is not None and 'ProphyError' in unparse(r.exc):
                conds = [(t, pol) for t, pol, how in path_conditions(f.module, f, r) if how in ('branch', 'short-circuit')]
                if any('_max_len' in unparse(t) for t, _ in conds):
                    raises.append((r, conds))
        if not raises:
            L.bad('C10b.limit-guard', q + '|present', f.site(), 'the mutator has no limit guard raising ProphyError', ws(unparse(f.node))[:200])
            continue
        defs = {}
        multi = set()
        for a_ in f.walk():
            if isinstance(a_, ast.Assign) and len(a_.targets) == 1 and isinstance(a_.targets[0], ast.Name):
                nm = a_.targets[0].id
                if nm in defs:
                    multi.add(nm)
                defs[nm] = a_.value
        for nm in multi:
            defs.pop(nm, None)
        g = raises[0][0]

        class _G(object):
            test = None
        gsrc = ' OR '.join(' and '.join(('' if pol else 'not ') + '(' + ws(unparse(t)) + ')' for t, pol in conds) for _, conds in raises)
        bad = []
        for max_len in (0, 3):
            for cur in range(0, 4):
                if max_len and cur > max_len:
                    continue
                vals = list(range(cur))
                for added in ((1,) if kind == 'one' else (0, 1, 2, 3, 4, 5)):
                    for start, stop in ([(None, None)] if kind != 'slice' else
                                        [(None, None), (0, 1), (1, 2), (0, 10), (2, 10), (5, 9), (1, None), (None, 2), (-1, None), (-2, -1)]):
                      for idx in ((0, cur, -1, 7) if q.endswith('.insert') else (None,)):
                        env = {'self._max_len': max_len, 'len(self)': cur, 'self._values': vals, 'self': vals,
                               'values': list(range(added)), 'elem_seq': list(range(added)), 'value': 0,
                               'start': start, 'stop': stop, '__defs__': defs}
                        if idx is not None:
                            env[f.params[1]] = idx
                        try:
                            got = any(all(bool(miniev.ev(t, env)) == pol for t, pol in conds) for _, conds in raises)
                        except miniev.Crash as e:
                            bad.append('max_len=%d len=%d added=%d%s: the guard itself fails (%s) - not a ProphyError' % (
                                max_len, cur, added, (' slice[%s:%s]' % (start, stop)) if kind == 'slice' else '', e))
                            n += 1
                            continue
                        except miniev.Unknown as e:
                            raise AnalysisError('%s: limit guard term not recognised: %s' % (q, e))
                        removed = len(vals[start:stop]) if kind == 'slice' else 0
                        new_len = cur + added - removed
                        want = bool(max_len) and new_len > max_len
                        n += 1
                        if got != want:
                            bad.append('max_len=%d len=%d added=%d%s: guard %s, limit %s' % (
                                max_len, cur, added, (' slice[%s:%s]' % (start, stop)) if kind == 'slice' else '', got,
                                'exceeded' if want else 'respected'))
        L.check(not bad, 'C10b.limit-guard', q + '|truth-set', f.site(g),
                'the limit guard `%s` does not reject exactly the operations that would exceed the limit: %s'
                % (gsrc, '; '.join(bad[:4])), gsrc)
    L.floor('C10b.limit-guard-evaluations', n, 100)


# ------------------------------------------------------------------------------------------------ (c)
def atomicity(ctx, L):
    """No mutation of _values precedes (or is interleaved with) an operation that can still reject."""
    cont = ctx.py.mod('prophy.container')
    for q in ('bound_scalar_array.append', 'bound_scalar_array.insert', 'bound_scalar_array.extend', 'bound_scalar_array.__setslice__',
              'fixed_scalar_array.__setslice__', 'fixed_scalar_array.__setitem__', 'bound_scalar_array.__setitem__',
              'bound_composite_array.add', 'bound_composite_array.extend'):
        f = cont.func(q)
        stmts = flatten(f.node.body)
        first_mut = None
        for i, s in enumerate(stmts):
            if mutates(s):
                first_mut = i
                break
        if first_mut is None:
            L.ok('C10c.check-then-act', q, f.site(), 'no direct mutation')
            continue
        mut = stmts[first_mut]
        msrc = ws(unparse(mut))
        # rejecting operations after the first mutation
        later = [s for s in stmts[first_mut + 1:] if can_reject(s)]
        L.check(not later, 'C10c.check-then-act', q + '|reject-after-mutation', f.site(mut),
                'the array is mutated (`%s`) before operations that can still reject the call (%s): a rejected operation leaves '
                'partial state behind' % (msrc, '; '.join(ws(unparse(s))[:60] for s in later[:3])), msrc)
        # lazy map consumed by extend: elements are appended while later ones may still be rejected
        lazy = re.search(r'self\._values\.extend\(map\(', msrc) is not None
        L.check(not lazy, 'C10c.check-then-act', q + '|lazy-map-extend', f.site(mut),
                'list.extend(map(check, values)) appends element by element while checking: when a later element is rejected the '
                'earlier ones stay appended (slice assignment would materialise first)', msrc)
        # mutation inside a loop whose body can reject
        loops = [l for l in f.walk() if isinstance(l, (ast.For, ast.While))]
        for l in loops:
            body = flatten(l.body)
            if any(mutates(s) for s in body) and any(can_reject(s) for s in body):
                L.bad('C10c.check-then-act', q + '|loop-interleaves', f.site(l),
                      'elements are validated/copied and appended one by one: a rejected element leaves the earlier ones in the array',
                      ws(unparse(l))[:160])


def flatten(body):
    out = []
    for s in body:
        if isinstance(s, (ast.If, ast.For, ast.While, ast.With, ast.Try)):
            out.append(s) if isinstance(s, ast.If) and terminates(s.body) else None
            for field in ('body', 'orelse', 'finalbody'):
                out.extend(flatten(getattr(s, field, []) or []))
        else:
            out.append(s)
    return out


def mutates(s):
    src = ws(unparse(s))
    return bool(re.search(r'self\._values\.(append|insert|extend)\(', src) or re.match(r'^self\._values\[.*\] = ', src))


def can_reject(s):
    src = ws(unparse(s))
    if isinstance(s, ast.If) and terminates(s.body):
        return True
    return bool(re.search(r'\braise\b|_check\(|copy_from\(|setattr\(|\[:\] = ', src)) and not mutates(s)


# ------------------------------------------------------------------------------------------------ (e)
def union_gating(ctx, L):
    gen = ctx.py.mod('prophy.generators')
    for q in ('union_generator.add_union_composite_property.getter', 'union_generator.add_union_scalar_property.getter',
              'union_generator.add_union_scalar_property.setter'):
        f = gen.func(q)
        first = f.node.body[0]
        ok = isinstance(first, ast.If) and ws(unparse(first.test)) == 'self._discriminated is not field' and \
            isinstance(first.body[-1], ast.Raise) and 'ProphyError' in unparse(first.body[-1])
        L.check(ok, 'C10e.union-gating', q, f.site(), 'an arm accessor must first refuse when another arm is discriminated', ws(unparse(first)))
    s = gen.func('union_generator.add_union_discriminator_property.setter')
    src = ws(unparse(s.node))
    L.check(inn('if discriminator_name_or_value in (field.name, field.discriminator): if field != self._discriminated: '
            'self._discriminated = field self._fields = {} return', src), 'C10e.union-gating', 'discriminator.setter|reset', s.site(),
            'switching the arm must reset _fields completely (a stale arm value - scalar or composite - must not survive a switch '
            'back and forth)', src)
    L.check(inn("raise ProphyError('unknown discriminator: {!r}'.format(discriminator_name_or_value))", src), 'C10e.union-gating',
            'discriminator.setter|unknown', s.site(), 'unknown discriminators are refused', src)
    comp = ctx.py.mod('prophy.composite')
    i = comp.func('union.__init__')
    L.check('self._fields = {}' in ws(unparse(i.node)) and 'self._discriminated = self._descriptor[0]' in ws(unparse(i.node)),
            'C10e.union-gating', 'union.__init__', i.site(), 'a fresh union discriminates its first arm with no values', '')


# ------------------------------------------------------------------------------------------------ (f)
def pack_domain(ctx, L):
    from . import c01
    c01.scalar_pack(ctx, L)
    sc = ctx.py.mod('prophy.scalar')
    ic = sc.func('int_decorator.decorator.check')
    s = ws(unparse(ic.node))
    L.check(inn('if not isinstance(value, (int, long)): raise ProphyError', s) and inn('if not min_ <= value <= max_: raise ProphyError', s)
            and s.rstrip().endswith('return value'), 'C10f.pack-domain', 'int_decorator.check', ic.site(),
            'integers are accepted exactly within [min_, max_] (the struct code\'s domain, F4)', s)
    fc = sc.func('float_decorator.decorator.check')
    s = ws(unparse(fc.node))
    ranged = re.search(r'isinf|isfinite|OverflowError|struct\.pack|3\.4028\d*e\+?38|FLT_MAX|max_', s) is not None
    L.check(ranged, 'C10f.pack-domain', 'float_decorator.check|r32-range', fc.site(),
            'float_decorator.check accepts every float for r32 although struct.pack(\'f\') rejects finite values above ~3.4e38 with '
            'OverflowError: r32 = 1e39 is accepted by the setter and encode() then fails with a non-ProphyError', s)
    # the count a sizer encodes must be range-checked against the sizer type
    gen = ctx.py.mod('prophy.generators')
    e = gen.func('build_container_length_field.container_len._encode')
    s = ws(unparse(e.node))
    L.check('_check(' in s, 'C10f.pack-domain', 'container_len._encode|sizer-range', e.site(),
            'the element count (+ shift) is packed in the sizer type without a range check: a u8 sizer with 300 elements makes '
            'encode() fail with struct.error instead of ProphyError', s)
    en = gen.func('enum_generator.add_attributes.check')
    s = ws(unparse(en.node))
    L.check(inn('value = name_to_int.get(value) if value is None: raise ProphyError', s) and inn('if value not in int_to_name: raise ProphyError', s)
            and inn("raise ProphyError('neither string nor int')", s), 'C10f.pack-domain', 'enum check', en.site(),
            'enums accept exactly their enumerator names and values', s)
    b = ctx.py.mod('prophy.composite').func('bytes_._bytes._check')
    s = ws(unparse(b.node))
    raises = [r for r in b.walk() if isinstance(r, ast.Raise) and ws(unparse(r.exc)).startswith('ProphyError(')]
    L.check(any(P.knows(b, r, 'isinstance(value, bytes)', False, ['value']) for r in raises) and
            any(P.knows(b, r, 'size and len(value) > size', True, ['value']) for r in raises),
            'C10f.pack-domain', '_bytes._check', b.site(), 'bytes fields accept only bytes no longer than their size', s)


# ------------------------------------------------------------------------------------------------ (h)
def slice_components(ctx, L):
    cont = ctx.py.mod('prophy.container')
    for q in ('fixed_scalar_array.__setitem__', 'bound_scalar_array.__setitem__'):
        f = cont.func(q)
        s = ws(unparse(f.node))
        uses_step = re.search(r'idx\.step|self\._values\[idx\] = .*map|indices\(', s) is not None and inn('isinstance(idx, slice)', s)
        L.check(uses_step, 'C10h.slice-components', q, f.site(),
                'a slice index is forwarded as (idx.start, idx.stop) only: the step is dropped, so `a[::2] = [..]` replaces the '
                'whole range instead of every second element (or being refused)', s)


# ------------------------------------------------------------------------------------------------ (g)
def mutator_escapes(ctx, L):
    """F7 for the public mutators: ProphyError, or the list-style IndexError / ValueError of the underlying list."""
    cg = excflow.CallGraph(ctx.py, P.RUNTIME, dispatch=c06.runtime_dispatch(ctx),
                           families={'_decode_impl', '_encode_impl', 'copy_from', 'validate_copy_from', '_copy_implementation',
                                     'set_field', 'add', 'extend', '_get_discriminated_field', '__setslice__', '__setitem__'})
    ef = excflow.ExcFlow(cg, {'ProphyError': 'Exception'}, safe=c06.SAFE)
    cont = ctx.py.mod('prophy.container')
    gen = ctx.py.mod('prophy.generators')
    roots = [f for f in cont.all_funcs() if f.cls and f.qualname.split('.')[-1] in
             ('append', 'insert', 'extend', 'remove', '__setitem__', '__setslice__', '__delitem__', '__delslice__', 'add')]
    roots += [f for f in gen.all_funcs() if f.qualname.endswith(('.setter', '.getter'))]
    res = ef.analyse(roots)
    allowed = ('ProphyError', 'IndexError', 'ValueError')
    seen = set()
    for root, esc in res.items():
        for (cls, key), e in sorted(esc.items()):
            if (cls, key) in seen:
                continue
            seen.add((cls, key))
            L.check(cls in allowed, 'F7.mutator-escape', '%s|%s' % (cls, key), e.origin,
                    '%s can escape a public mutator (%s); rejected operations must raise ProphyError (or list-style IndexError / '
                    'ValueError); path: %s' % (cls, e.text, ' -> '.join(e.via[:4])), e.text)
    L.floor('F7.mutator-escape', len(seen), 10)


def check_returns(ctx, L):
    """Every value a `_check` function returns has passed the test that defines the field's domain: each `return` is
    reached only with the rejecting guards known to have failed (no shortcut path that accepts a value unexamined). Guards are
    compared by meaning (normal form, parameters by position, locals by definition), not by spelling."""
    sc = ctx.py.mod('prophy.scalar')
    gen = ctx.py.mod('prophy.generators')
    comp = ctx.py.mod('prophy.composite')
    specs = [
        (sc.func('int_decorator.decorator.check'), ['value'], [('not isinstance(value, (int, long))', False), ('not min_ <= value <= max_', False)]),
        (sc.func('float_decorator.decorator.check'), ['value'], [('not isinstance(value, (float, int, long))', False)]),
        (comp.func('bytes_._bytes._check'), ['value'], [('not isinstance(value, bytes)', False), ('size and len(value) > size', False)]),
    ]
    n = 0
    for f, params, guards in specs:
        for r in [x for x in f.walk() if isinstance(x, ast.Return)]:
            for g, holds in guards:
                n += 1
                L.check(P.knows(f, r, g, holds, params) or (not holds and (P.knows_fails(f, r, g, params) or P.fails_on_every_path(f, r, g, params))),
                        'C10f.check-dominates-return', '%s|%s|%s' % (f.fq, norm_key(f, r), g), f.site(r),
                        'a value is returned (accepted) by %s on a path that has not passed the rejecting test `%s` (known there: %s)'
                        % (f.qualname, g, sorted(P.facts(f, r))), ws(unparse(r)))
    e = gen.func('enum_generator.add_attributes.check')
    for r in [x for x in e.walk() if isinstance(x, ast.Return)]:
        n += 1
        # by value: membership in the value table; by name: the looked-up value is not None
        member = P.knows(e, r, 'value in int_to_name', True, ['cls', 'value']) or P.knows(e, r, 'name_to_int.get(value) is None', False, ['cls', 'value']) \
            or P.knows(e, r, 'value is None', False, ['cls', 'value'])
        L.check(member, 'C10f.check-dominates-return', '%s|%s' % (e.fq, norm_key(e, r)), e.site(r),
                'the enum check accepts a value on a path that has not tested it against the enumerator tables (an enumerator of '
                'another enum type, or any int subclass instance, would be stored although this enum has no such member)',
                '%s under %s' % (ws(unparse(r)), sorted(P.facts(e, r))))
    L.floor('C10f.check-dominates-return', n, 6)


def fixed_length(ctx, L):
    """A fixed array has exactly its declared number of elements in every reachable state: no method a fixed array class has -
    its own or inherited from any base in the runtime - may change the length of `_values` (append / insert / extend / remove /
    pop / clear / delete / slice assignment of another length), unless it is overridden to refuse."""
    cont = ctx.py.mod('prophy.container')
    base = ctx.py.mod('prophy.base_array')
    classes = {}
    for m in (cont, base):
        for q, c in m.classes.items():
            classes[q] = (m, c)

    def mro(q):
        out = [q]
        m, c = classes[q]
        for b in c.bases:
            bn = unparse(b).split('.')[-1]
            if bn in classes:
                out += mro(bn)
        return out
    n = 0
    for q in ('fixed_scalar_array', 'fixed_composite_array'):
        if q not in classes:
            raise AnalysisError('anchor vanished: class %s' % q)
        seen = set()
        for cq in mro(q):
            m, c = classes[cq]
            for st in c.body:
                if not isinstance(st, ast.FunctionDef) or st.name in seen or st.name == '__init__':
                    continue
                seen.add(st.name)              # the first definition along the MRO is the one a fixed array has
                f = m.func(cq + '.' + st.name)
                changes = []
                for x in f.walk():
                    if isinstance(x, ast.Call) and isinstance(x.func, ast.Attribute) and ws(unparse(x.func.value)) == 'self._values' \
                            and x.func.attr in ('append', 'insert', 'extend', 'remove', 'pop', 'clear'):
                        changes.append(x)
                    elif isinstance(x, ast.Delete) and any('self._values' in unparse(t) for t in x.targets):
                        changes.append(x)
                    elif isinstance(x, (ast.AugAssign,)) and ws(unparse(x.target)) == 'self._values':
                        changes.append(x)
                n += 1
                L.check(not changes, 'C10b.fixed-length', '%s.%s' % (q, st.name), f.site(changes[0] if changes else None),
                        'a %s has the method %s() (defined in %s), which changes the number of elements (`%s`): a fixed array must keep '
                        'exactly its declared size - afterwards the message encodes to fewer bytes than its static size'
                        % (q, st.name, cq, ws(unparse(changes[0])) if changes else ''), ws(unparse(changes[0])) if changes else '')
    L.floor('C10b.fixed-length', n, 10)
