"""C11 - copy_from yields an equal, fully independent message (structural clauses)."""
import ast
import re

from ..core import AnalysisError
from .shared_py import inn
from ..pyfront import unparse, path_conditions, norm_key
from .. import templ
from . import shared_py as P


from ..pyfront import ws  # noqa: E402,F401  (whitespace-collapsed, rename/normal-form tolerant `in`)


def run(ctx, L, tier):
    protocol(ctx, L)
    ownership(ctx, L)
    ladder(ctx, L)
    extend_copies(ctx, L)
    return sorted(set(o.rule for o in L.obligations))


def protocol(ctx, L):
    """(c) validate, self-copy shortcut, clear, delegate; the union copies its discriminated arm."""
    f = ctx.py.mod('prophy.composite_base').func('_composite_base.copy_from')
    L.check(P.body_is(f, """
        self.validate_copy_from(other)
        if other is self:
            return
        self._fields.clear()
        self._copy_implementation(other)
    """, params=['self', 'other']), 'C11c.copy-protocol', 'copy_from', f.site(),
            'copy_from must: validate the source type, return early for self-copy (before clearing!), clear the destination\'s '
            'fields, then copy every field; got: %s' % P.sem_body(f), ws(unparse(f.node)))
    v = ctx.py.mod('prophy.composite_base').func('_composite_base.validate_copy_from')
    vr = [r for r in v.walk() if isinstance(r, ast.Raise)]
    L.check(len(vr) == 1 and P.knows(v, vr[0], 'isinstance(rhs, cls)', False, ['cls', 'rhs']), 'C11c.copy-protocol', 'validate_copy_from', v.site(),
            'only instances of the same class can be copied', '')
    comp = ctx.py.mod('prophy.composite')
    s = comp.func('struct._copy_implementation')
    L.check(P.body_is(s, """
        for name, rhs in other._fields.items():
            self.set_field(name, rhs)
    """, """
        for name in other._fields:
            self.set_field(name, other._fields[name])
    """, params=['self', 'other']), 'C11c.copy-protocol',
            'struct._copy_implementation', s.site(),
            'every field the source holds must be copied unconditionally (a filter on the value would drop explicitly stored '
            'zero / empty values: present optional 0, zero-valued enumerators)', P.sem_body(s))
    u = comp.func('union._copy_implementation')
    us = ws(unparse(u.node))
    ua = _union_copy_authored(u)
    ub = [ws(unparse(x)) for x in ua.node.body]
    reads = [ws(unparse(n)) for n in ast.walk(ua.node) if isinstance(n, ast.Call) and ws(unparse(n.func)) == 'getattr' and n.args
             and ws(unparse(n.args[0])) == 'other']
    L.check(ub[:1] == ['self._discriminated = other._discriminated'] and bool(reads) and
            set(reads) == {'getattr(other, self._discriminated.name)'},
            'C11c.copy-protocol', 'union._copy_implementation|arm', u.site(), 'the union takes over the discriminated arm and reads '
            'that arm\'s value from the source', us)


def _union_copy_authored(f):
    """After `self._discriminated = other._discriminated` (the first thing the function does, and the only store to that
    attribute) both spellings name the same descriptor: the clone the rules read uses `self._discriminated` throughout."""
    ua = P.authored(f, ['self', 'other'], [('getattr(other, self._discriminated.name)', 'rhs'), ('getattr(other, other._discriminated.name)', 'rhs'),
                                           ('getattr(self, self._discriminated.name)', 'lhs'), ('getattr(self, other._discriminated.name)', 'lhs')])
    _alias_norm(ua.node)
    return ua


def _alias_norm(fnode, dst='self', src='other'):
    body = [b for b in fnode.body if not (isinstance(b, ast.Expr) and isinstance(b.value, ast.Constant))]
    stores_ = [n for n in ast.walk(fnode) if isinstance(n, ast.Attribute) and n.attr == '_discriminated' and isinstance(n.ctx, ast.Store)]
    if body and ws(unparse(body[0])) == '%s._discriminated = %s._discriminated' % (dst, src) and len(stores_) == 1:
        for st in body[1:]:
            for n in ast.walk(st):
                if isinstance(n, ast.Attribute) and n.attr == '_discriminated' and isinstance(n.value, ast.Name) and n.value.id == src \
                        and isinstance(n.ctx, ast.Load):
                    n.value.id = dst


def authored_copy_func(comp, q):
    """The copy functions with the names the rules below are written in (parameters by position, lhs/rhs by what they are
    bound to): a renaming of parameters or locals does not change what is checked."""
    f = comp.func(q)
    if q == 'struct.set_field':
        return P.authored(f, ['self', 'name', 'rhs'], [('getattr(self, name)', 'lhs')], [('zip(lhs, rhs)', ['lhs_elem', 'rhs_elem'])])
    if q == 'union._copy_implementation':
        return _union_copy_authored(f)
    return P.authored(f, ['self', 'other'], [], [('other._fields.items()', ['name', 'rhs'])])


def stores(f):
    """(node, value expr, how) for every store into self's state in a copy function."""
    out = []
    for n in f.walk():
        if isinstance(n, ast.Assign):
            t = n.targets[0]
            ts = unparse(t)
            if ts.startswith('self._fields[') or ts in ('self._fields', 'self._values') or ts.startswith('self._values['):
                out.append((n, n.value, 'direct'))
            elif ts.startswith(('other.', 'rhs.', 'other[', 'rhs[')):
                out.append((n, n.value, 'through-source'))
            elif isinstance(t, ast.Subscript) and unparse(t.value) in ('lhs',):
                out.append((n, n.value, 'lhs-slice'))
        elif isinstance(n, ast.Call):
            fn = unparse(n.func)
            if fn == 'setattr' and len(n.args) == 3 and unparse(n.args[0]) == 'self':
                out.append((n, n.args[2], 'setattr'))
            elif fn in ('self._values.append', 'self._values.extend', 'self._values.insert'):
                out.append((n, n.args[-1], 'values'))
            elif fn.startswith(('other.', 'rhs.')) and fn.split('.')[-1] in ('append', 'extend', 'clear', 'pop', 'update', 'insert',
                                                                                'remove', 'sort', '__setitem__', 'copy_from', 'set_field'):
                out.append((n, None, 'through-source'))
        elif isinstance(n, ast.Delete):
            for t in n.targets:
                if unparse(t).startswith(('other', 'rhs')):
                    out.append((n, None, 'through-source'))
    return out


def ownership(ctx, L):
    """(a)(d) F14: a value reachable from the source is stored only if immutable on that path, or a fresh object."""
    comp = ctx.py.mod('prophy.composite')
    n = 0
    for q in ('struct.set_field', 'union._copy_implementation', 'struct._copy_implementation'):
        f = authored_copy_func(comp, q)
        for node, val, how in stores(f):
            n += 1
            key = '%s|%s' % (f.fq, norm_key(f, node))
            if how == 'through-source':
                L.bad('C11d.no-write-through-source', key, f.site(node), 'the copy writes through the source object (the source must '
                      'stay unchanged)', unparse(node))
                continue
            vs = ws(unparse(val))
            conds = [(ws(unparse(t)), p) for t, p, h in path_conditions(f.module, f, node)]
            if vs in ('rhs',) or (q.startswith('union.') and vs == 'getattr(other, self._discriminated.name)'):
                not_array = ('isinstance(rhs, base_array)', False) in conds or q.startswith('union.')
                not_composite = ('codec_kind.is_composite(type(rhs))', False) in conds or \
                    ('codec_kind.is_composite(self._discriminated.type)', False) in conds
                L.check(not_array and not_composite, 'C11a.ownership', key, f.site(node),
                        'the source\'s value object is stored by reference on a path that does not exclude %s: mutating one message '
                        'afterwards changes the other' % ('arrays' if not not_array else 'struct AND union values (codec_kind.is_composite)'),
                        '%s under %s' % (unparse(node), conds))
            elif vs == 'rhs[:]' and how == 'lhs-slice':
                scalar = ('codec_kind.is_composite(rhs._TYPE)', False) in conds
                L.check(scalar, 'C11a.ownership', key, f.site(node), 'a slice copy shares its elements: allowed only for scalar arrays',
                        '%s under %s' % (unparse(node), conds))
            elif vs == 'True':
                L.ok('C11a.ownership', key, f.site(node), 'enables a fresh optional composite')
            else:
                L.bad('C11a.ownership', key, f.site(node), 'unrecognised store of a source-derived value `%s`' % vs, unparse(node))
    L.floor('C11a.ownership', n, 3)
    # copying composites: always copy_from into the destination's own object
    sf = authored_copy_func(comp, 'struct.set_field')
    src = ws(unparse(sf.node))
    for piece, why in (('lhs = getattr(self, name)', 'the destination object comes from the destination\'s own getter'),
                       ('lhs.copy_from(rhs)', 'composites are copied recursively'),
                       ('lhs_elem.copy_from(rhs_elem)', 'fixed composite array elements are copied recursively'),
                       ('del lhs[:] lhs.extend(rhs[:])', 'variable-length composite arrays are rebuilt by extend (which copies each element)')):
        L.check(piece in src, 'C11a.ownership', 'set_field|' + piece, sf.site(), why + ' (expected `%s`)' % piece, '')
    u = authored_copy_func(comp, 'union._copy_implementation')
    us = ws(unparse(u.node))
    want = P._FakeFunc("""
        self._discriminated = other._discriminated
        rhs = getattr(other, self._discriminated.name)
        if codec_kind.is_composite(self._discriminated.type):
            lhs = getattr(self, self._discriminated.name)
            lhs.copy_from(rhs)
        else:
            setattr(self, self._discriminated.name, rhs)
        """, ['self', 'other'], comp)
    _alias_norm(want.node)
    L.check(P.sem_body(u) == P.sem_body(want), 'C11a.ownership', 'union._copy_implementation|ladder', u.site(),
            'a composite arm is copied recursively, a scalar arm is assigned through the checked setter', us)
    ck = comp.func('codec_kind.is_composite')
    L.check(P.has(ck, 'return issubclass(type_, (struct, union))'), 'C11a.ownership', 'codec_kind.is_composite', ck.site(),
            'is_composite must cover structs AND unions', unparse(ck.node.body[-1]))


def ladder(ctx, L):
    """(b) every field class reaches a branch of set_field whose assumptions hold for it."""
    comp = ctx.py.mod('prophy.composite')
    f = authored_copy_func(comp, 'struct.set_field')
    top = [s for s in f.node.body if isinstance(s, ast.If)]
    if len(top) != 1:
        raise AnalysisError('set_field: ladder not found')
    rows = []

    def expand(stmt, inherited):
        for b in templ.if_chain(stmt):
            inner = [s for s in b.body if isinstance(s, ast.If) and not (ws(unparse(s.test)) == 'lhs is None')]
            if inner and len(b.body) == 1:
                expand(inner[0], inherited + [g for g in b.guards if g not in inherited])
            else:
                rows.append((inherited + [g for g in b.guards if g not in inherited], b.body, b.node))
    expand(top[0], [])
    classes = {
        'scalar / enum / bytes / optional scalar': dict(array=False, comp_elem=False, composite=False, dynamic=False, bound=False, none_dst=False),
        'struct-typed field': dict(array=False, comp_elem=False, composite=True, dynamic=False, bound=False, none_dst=False, kind='struct'),
        'union-typed field': dict(array=False, comp_elem=False, composite=True, dynamic=False, bound=False, none_dst=False, kind='union'),
        'optional composite (present in source)': dict(array=False, comp_elem=False, composite=True, dynamic=False, bound=False, none_dst=True),
        'fixed scalar array': dict(array=True, comp_elem=False, composite=False, dynamic=False, bound=False, none_dst=False),
        'limited scalar array': dict(array=True, comp_elem=False, composite=False, dynamic=False, bound=True, none_dst=False),
        'dynamic scalar array': dict(array=True, comp_elem=False, composite=False, dynamic=True, bound=True, none_dst=False),
        'greedy scalar array': dict(array=True, comp_elem=False, composite=False, dynamic=True, bound=False, none_dst=False),
        'fixed composite array': dict(array=True, comp_elem=True, composite=False, dynamic=False, bound=False, none_dst=False),
        'limited composite array': dict(array=True, comp_elem=True, composite=False, dynamic=False, bound=True, none_dst=False),
        'dynamic composite array': dict(array=True, comp_elem=True, composite=False, dynamic=True, bound=True, none_dst=False),
        'greedy composite array': dict(array=True, comp_elem=True, composite=False, dynamic=True, bound=False, none_dst=False),
    }

    def val(t, c):
        s = ws(unparse(t))
        if s == 'isinstance(rhs, base_array)':
            return c['array']
        if s == 'codec_kind.is_composite(rhs._TYPE)':
            return c['comp_elem']
        if s == 'rhs._DYNAMIC':
            return c['dynamic']
        if s == 'rhs._BOUND':
            return c['bound']
        if s == 'codec_kind.is_composite(type(rhs))':
            return c['composite']
        if s == 'codec_kind.is_struct(type(rhs))':
            return c['composite'] and c.get('kind', 'struct') == 'struct'
        if s == 'codec_kind.is_union(type(rhs))':
            return c['composite'] and c.get('kind', 'struct') == 'union'
        if s in ('lhs is None', 'getattr(self, name) is None'):
            return c['none_dst']        # the destination's getter returns None for an optional composite after clear()
        if s in ('lhs is not None', 'getattr(self, name) is not None'):
            return not c['none_dst']
        if s in ('lhs', 'getattr(self, name)'):
            return not c['none_dst']
        if isinstance(t, ast.Constant):
            return bool(t.value)
        if isinstance(t, ast.BoolOp):
            vs = [val(v, c) for v in t.values]
            return all(vs) if isinstance(t.op, ast.And) else any(vs)
        if isinstance(t, ast.UnaryOp) and isinstance(t.op, ast.Not):
            return not val(t.operand, c)
        raise AnalysisError('set_field: unrecognised guard term `%s`' % s)
    for name, c in sorted(classes.items()):
        hit = [(g, body, node) for g, body, node in rows if all(bool(val(t, c)) == pol for t, pol in g)]
        if len(hit) != 1:
            L.bad('C11b.branch-assumptions', 'set_field|' + name, f.site(), 'field class reaches %d branches' % len(hit), '')
            continue
        body = ' '.join(ws(unparse(x)) for x in hit[0][1])
        if c['array'] and c['comp_elem']:
            variable = c['dynamic'] or c['bound']
            if variable:
                ok = body == 'del lhs[:] lhs.extend(rhs[:])'
                why = 'a variable-length composite array must be rebuilt (del + extend): the zip branch assumes equal lengths and ' \
                      'silently drops every element against the freshly cleared destination'
            else:
                ok = body == 'for lhs_elem, rhs_elem in zip(lhs, rhs): lhs_elem.copy_from(rhs_elem)'
                why = 'a fixed composite array is copied element-wise (lengths are equal by construction)'
        elif c['array']:
            ok = body == 'lhs[:] = rhs[:]'
            why = 'scalar arrays are copied by slice assignment (checked, length rules of the destination apply)'
        elif c['composite']:
            ok = body.endswith('lhs.copy_from(rhs)') and (not c['none_dst'] or 'if lhs is None: setattr(self, name, True) lhs = getattr(self, name)' in body)
            why = 'a composite is copied recursively; for an optional composite the destination getter returns None after clear(), so ' \
                  'it must be enabled first (otherwise AttributeError on NoneType)'
        else:
            ok = body == 'self._fields[name] = rhs'
            why = 'immutable values are stored directly'
        L.check(ok, 'C11b.branch-assumptions', 'set_field|' + name, f.site(hit[0][2]),
                'a `%s` field reaches the branch `%s`: %s' % (name, body, why), body)
    L.floor('C11b.branch-assumptions', L.rule_count('C11b.branch-assumptions'), 12)


def extend_copies(ctx, L):
    f = ctx.py.mod('prophy.container').func('bound_composite_array.extend')
    src = ws(unparse(f.node))
    L.check(inn('new_element = composite_cls() new_element.copy_from(message)', src) and inn('composite_cls = self._TYPE', src),
            'C11a.ownership', 'bound_composite_array.extend|fresh-copy', f.site(),
            'extend() must copy every given element into a fresh instance (never store the caller\'s object)', src)
    L.check(re.search(r'self\._values\.(append|extend)\((message|elem_seq)\)', src) is None, 'C11a.ownership',
            'bound_composite_array.extend|no-alias', f.site(), 'the caller\'s elements must not be stored themselves', src)
