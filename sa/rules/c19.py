"""C19 - byte order changes only the bytes inside scalars; padding is always zero (structural clauses).

Non-interference of the byte order (F3) + zero filler (F2) + mirrored byte-lane tables (F5) + value-initialised
result vector and skip-only padding in C++."""
from . import shared_py as P
from . import shared_cxx as X


def run(ctx, L, tier):
    P.f2_zero_fill(ctx, L)
    P.slot_sizes(ctx, L)         # the unused tail of a limited array / bytes slot is the zero filler of ljust, nothing else
    P.f3_endianness(ctx, L)
    X.f5_lane_tables(ctx, L)
    X.f3_cxx(ctx, L)
    X.f2_cxx_zero_vector(ctx, L)
    X.f2_cxx_skip_only(ctx, L)
    X.f5b_encoder(ctx, L)
    X.optional_codec_cxx(ctx, L)
    generated_padding_skip_only(ctx, L)
    return sorted(set(o.rule for o in L.obligations))


def generated_padding_skip_only(ctx, L):
    """The generated C++ encode never writes padding: its padding templates only move the cursor."""
    import re
    from .. import templ
    m = ctx.py.mod('prophyc.generators.cpp_full')
    n = 0
    for q in ('generate_struct_encode', 'generate_union_encode'):
        f = m.func(q)
        for e in templ.string_templates(f.node):
            t = e.text.strip()
            if not t.startswith('pos = ') and 'pos' not in t:
                continue
            if re.match(r'^pos = (pos \+ \{\d\}|align<\{\d\}>\(pos\));$', t):
                n += 1
                L.ok('F2cxx.generated-skip-only', q + '|' + t, f.site(e.node), 'padding only moves the cursor')
            elif 'memset' in t or 'fill' in t:
                L.bad('F2cxx.generated-skip-only', q + '|' + t, f.site(e.node), 'generated encode writes filler bytes itself', t)
        # byte order threaded through every emitted codec call
        for e in templ.string_templates(f.node):
            for name, targs, _ in templ.cxx_calls(e.text):
                if name.startswith(('do_encode', 'do_decode')) and name not in ('do_decode_advance', 'do_decode_align'):
                    L.check(targs.startswith('<E'), 'F3cxx.generated-E-threaded', q + '|' + e.text.strip(), f.site(e.node),
                            'generated codec call does not pass the byte order E', e.text.strip())
    L.floor('F2cxx.generated-skip-only', n, 4)
    for q in ('generate_struct_decode', 'generate_union_decode'):
        f = m.func(q)
        for e in templ.string_templates(f.node):
            for name, targs, _ in templ.cxx_calls(e.text):
                if name.startswith('do_decode') and name not in ('do_decode_advance', 'do_decode_align'):
                    L.check(targs.startswith('<E'), 'F3cxx.generated-E-threaded', q + '|' + e.text.strip(), f.site(e.node),
                            'generated codec call does not pass the byte order E', e.text.strip())
    # explicit instantiation lists name the three byte orders
    t = ctx.py.mod('prophyc.generators.cpp_full')
    import ast
    lists = [n_ for n_ in ast.walk(t.tree) if isinstance(n_, ast.Tuple) and
             [getattr(x, 'value', None) for x in n_.elts] == ['native', 'little', 'big']]
    L.check(len(lists) == 4, 'F3cxx.instantiation-lists', 'cpp_full|(native, little, big)', t.rel,
            'encode and decode of structs and unions must each be instantiated for native, little and big (found %d lists)'
            % len(lists), '')
