"""Rule families over the C++ headers shared by several properties (C03, C05, C09, C18, C19)."""
import re

from ..core import AnalysisError
from ..cxxlib import (nstmts, single_assignment_locals, guards_at, failure_returns_false, LaneEval, expect_lanes, lanes_src, type_width, nows, is_ref, stmts_of, counted_loop,
                      lane_resize, int_value, if_parts, T as TOP)

UNSIGNED_OF = {'short': 'unsigned short', 'int': 'unsigned int', 'long': 'unsigned long', 'float': 'unsigned int',
               'double': 'unsigned long'}
MULTIBYTE = ['unsigned short', 'short', 'unsigned int', 'int', 'unsigned long', 'long', 'float', 'double']
CNAME = {'unsigned short': 'uint16_t', 'short': 'int16_t', 'unsigned int': 'uint32_t', 'int': 'int32_t',
         'unsigned long': 'uint64_t', 'long': 'int64_t', 'float': 'float', 'double': 'double'}


def endianness_enum(cx):
    """{value: name} of prophy::endianness, read from the header."""
    for r in cx.roots:
        for n in r.find('EnumDecl'):
            if n.name == 'endianness':
                names = [k.name for k in n.kids if k.kind == 'EnumConstantDecl']
                if sorted(names) != ['big', 'little', 'native'] or len(set(names)) != 3:
                    raise AnalysisError('prophy::endianness no longer has exactly native/little/big: %s' % names)
                return {str(i): nm for i, nm in enumerate(names)}
    raise AnalysisError('anchor vanished: enum prophy::endianness')


def f5_lane_tables(ctx, L, directions=('encode_int', 'decode_int')):
    """F5: every explicit specialisation of encode_int/decode_int is the right byte-lane permutation, the
    signed/float ones delegate to the unsigned type of the same width with the same E, none is missing."""
    cx = ctx.cxx
    en = endianness_enum(cx)
    n = 0
    for name in directions:
        specs = {}
        generic = None
        for f in cx.functions(name):
            if not f.targs:
                generic = f
                continue
            order, ty = en.get(f.targs[0], f.targs[0]), f.targs[1]
            specs[(order, ty)] = f
        if generic is None:
            raise AnalysisError('anchor vanished: generic %s template' % name)
        # generic fallback = native copy of sizeof(T)
        gt = nows(generic.body.text)
        ok = ('reinterpret_cast<T*>(out)=in' in gt) if name == 'encode_int' else ('x=*reinterpret_cast<constT*>(pos)' in gt)
        L.check(ok, 'F5.generic-native-copy', name, generic.site(),
                'the generic %s must be a plain native copy of a T' % name, generic.body.text)
        for order in ('little', 'big'):
            for ty in MULTIBYTE:
                key = '%s<%s, %s>' % (name, order, CNAME[ty])
                f = specs.get((order, ty))
                if f is None:
                    L.bad('F5.specialisation-complete', key, generic.site(),
                          'no explicit specialisation: %s silently falls back to the native copy, so %s-endian '
                          'encoding of %s depends on the host' % (key, order, CNAME[ty]), key)
                    continue
                L.ok('F5.specialisation-complete', key, f.site())
                n += 1
                w = type_width(ty)
                if ty in UNSIGNED_OF:
                    check_delegation(L, f, name, order, ty, key, en)
                elif name == 'decode_int':
                    check_decode_lanes(L, f, order, w, key)
                else:
                    check_encode_lanes(L, f, order, w, key)
        extra = [k for k in specs if k[0] not in ('little', 'big') or k[1] not in MULTIBYTE]
        for k in extra:
            L.bad('F5.specialisation-complete', '%s<%s, %s>' % (name, k[0], k[1]), specs[k].site(),
                  'unexpected specialisation (native must use the generic copy; 1-byte types need none)', str(k))
    L.floor('F5.specialisation-complete', n, 16 * len(directions))


def check_delegation(L, f, name, order, ty, key, en):
    stmts = stmts_of(f.body)
    ok, why = False, 'body is not a single delegating call'
    if len(stmts) == 1:
        call = stmts[0].strip()
        if call.kind == 'CallExpr':
            callee = nows(call.kids[0].text)
            m = re.match(r'^%s<(\w+)>$' % name, callee)
            target = CNAME[UNSIGNED_OF[ty]]
            cast = [c for c in call.find(('CXXReinterpretCastExpr', 'CXXStaticCastExpr', 'CStyleCastExpr'))]
            cast_t = nows(cast[0].type or '').replace('const', '').replace('&', '') if cast else ''
            if not m:
                why = 'callee is not %s<E>' % name
            elif m.group(1) != order:
                why = 'delegates with byte order %s instead of %s' % (m.group(1), order)
            elif cast_t != target:
                why = 'reinterprets as %s, expected the unsigned type of the same width %s' % (cast_t or '?', target)
            elif ty in ('float', 'double') and cast and cast[0].kind != 'CXXReinterpretCastExpr':
                # for a floating-point source a static / C-style cast to an integer reference is a *value conversion*
                # (the number truncated to an integer), not the bit pattern
                why = 'a %s is converted with %s: that is a value conversion (1.5f -> 1), the bit pattern needs reinterpret_cast' % (
                    ty, {'CXXStaticCastExpr': 'static_cast', 'CStyleCastExpr': 'a C-style cast'}.get(cast[0].kind, cast[0].kind))
            else:
                ok = True
    L.check(ok, 'F5.delegation', key, f.site(), '%s must delegate to the unsigned type of the same width with the '
            'same byte order (%s)' % (key, why), f.body.text)


def check_decode_lanes(L, f, order, w, key):
    """x = T(pos[i]) << s; x |= ... : result lane k must be source byte k (little) / w-1-k (big)."""
    xname, pname = f.params[0][0], f.params[1][0]
    ev = LaneEval({}, subscript_base=pname)
    state = None
    ok, why = True, ''
    for s in stmts_of(f.body):
        b = s.bin
        if not b or not is_ref(b[1], xname):
            ok, why = False, 'statement is not an assignment to the output: ' + s.text
            break
        val = lane_resize(ev.ev(b[2]), w)
        if b[0] == '=':
            state = val
        elif b[0] == '|=' and state is not None:
            from ..cxxlib import lane_or
            state = lane_resize(lane_or(state, val), w)
        else:
            ok, why = False, 'unsupported update ' + s.text
            break
    if ok:
        want = expect_lanes(w, order)
        if state != want:
            ok, why = False, 'byte lanes %s, expected %s' % (fmt(state), fmt(want))
    L.check(ok, 'F5.byte-lanes', key, f.site(), '%s does not assemble the value from the %s-endian byte order: %s'
            % (key, order, why), f.body.text[:200])


def check_encode_lanes(L, f, order, w, key):
    """out[i] = (in & mask) >> s : out byte i must be source lane i (little) / w-1-i (big)."""
    oname, iname = f.params[0][0], f.params[1][0]
    ev = LaneEval({iname: lanes_src(w)})
    got = {}
    ok, why = True, ''
    for s in stmts_of(f.body):
        b = s.bin
        tgt = b[1].strip() if b else None
        if not b or b[0] != '=' or tgt.kind != 'ArraySubscriptExpr' or not is_ref(tgt.kids[0], oname) \
                or int_value(tgt.kids[1]) is None:
            ok, why = False, 'statement is not `out[i] = ...`: ' + s.text
            break
        i = int_value(tgt.kids[1])
        if i in got:
            ok, why = False, 'out[%d] written twice' % i
            break
        got[i] = ev.ev(b[2])[0]     # the store truncates to the least significant byte
    if ok:
        want = expect_lanes(w, order)
        have = [got.get(i) for i in range(w)]
        if sorted(got) != list(range(w)):
            ok, why = False, 'bytes written %s, expected exactly out[0..%d]' % (sorted(got), w - 1)
        elif have != want:
            ok, why = False, 'out bytes take lanes %s, expected %s' % (fmt(have), fmt(want))
    L.check(ok, 'F5.byte-lanes', key, f.site(), '%s does not lay the value out in %s-endian byte order: %s'
            % (key, order, why), f.body.text[:200])


def fmt(lanes):
    return '[' + ' '.join('?' if x in (None, TOP) else ('0' if x == 'Z' else str(x[1])) for x in lanes) + ']'


def f5_swap(ctx, L):
    """prophy::swap(uintN_t*) reverse all byte lanes; signed/float overloads delegate to the same width;
    1-byte overloads are empty; swap_n_fixed / swap_n_dynamic loop shapes."""
    cx = ctx.cxx
    swaps = {}
    for f in cx.functions('swap', file_suffix='prophy/prophy.hpp'):
        if len(f.params) == 1:
            swaps[f.params[0][1]] = f
    want = {'uint8_t *': 1, 'int8_t *': 1, 'uint16_t *': 2, 'uint32_t *': 4, 'uint64_t *': 8, 'int16_t *': 2,
            'int32_t *': 4, 'int64_t *': 8, 'float *': 4, 'double *': 8}
    n = 0
    for pt, w in sorted(want.items()):
        f = swaps.get(pt)
        key = 'swap(%s)' % pt
        if f is None:
            L.bad('F5.swap-overloads', key, 'prophy_cpp/include/prophy/prophy.hpp', 'overload missing: generated swap code '
                  'for this builtin would not compile or would pick the template', key)
            continue
        n += 1
        stmts = stmts_of(f.body)
        if w == 1:
            L.check(not stmts, 'F5.swap-lanes', key, f.site(), 'a one-byte swap must do nothing', f.body.text)
        elif pt.startswith('uint'):
            pname = f.params[0][0]
            state = lanes_src(w)
            ok, why = True, ''
            locals_ = {}
            for s in stmts:
                if s.kind == 'DeclStmt' and len(s.kids) == 1 and s.kids[0].kind == 'VarDecl' and s.kids[0].kids \
                        and (s.kids[0].type or '').startswith('const '):
                    # an intermediate value named by a const local: evaluated here, with the lanes `*in` has at this point
                    env = dict(locals_)
                    env['*' + pname] = state
                    locals_[s.kids[0].name] = lane_resize(LaneEval(env).ev(s.kids[0].kids[-1]), type_width(s.kids[0].type) or w)
                    continue
                b = s.bin
                tgt = b[1].strip() if b else None
                if not b or b[0] != '=' or tgt.kind != 'UnaryOperator' or tgt.opcode != '*' or not is_ref(tgt.kids[0], pname):
                    ok, why = False, 'statement is not `*in = ...`: ' + s.text
                    break
                env = dict(locals_)
                env['*' + pname] = state
                ev = LaneEval(env)
                state = lane_resize(ev.ev(b[2]), w)
            wantl = expect_lanes(w, 'big')
            if ok and state != wantl:
                ok, why = False, 'resulting lanes %s, expected the full reversal %s' % (fmt(state), fmt(wantl))
            L.check(ok, 'F5.swap-lanes', key, f.site(), 'swap does not reverse the %d bytes: %s' % (w, why), f.body.text)
        else:
            target = 'uint%d_t*' % (8 * w)
            ok = len(stmts) == 1 and nows(stmts[0].text) == 'swap(reinterpret_cast<%s>(%s))' % (target, f.params[0][0])
            L.check(ok, 'F5.swap-lanes', key, f.site(), 'signed/float swap must delegate to swap(%s)' % target, f.body.text)
    L.floor('F5.swap-overloads', n, 10)
    # swap_n_fixed: element + 1 per iteration; swap_n_dynamic: first = swap(first)
    for name in ('swap_n_fixed', 'swap_n_dynamic'):
        fs = cx.functions(name)
        if len(fs) != 1:
            raise AnalysisError('anchor vanished: %s' % name)
        f = fs[0]
        first, cnt = f.params[0][0], f.params[1][0]
        loops = list(f.body.find('WhileStmt'))
        cl = counted_loop(loops[0]) if len(loops) == 1 else None
        ok = cl is not None and cl[0] == cnt and cl[1] == 1
        body = [nows(s.text) for s in cl[2]] if cl else []
        if name == 'swap_n_fixed':
            ok = ok and body == ['swap(%s)' % first, '++%s' % first]
        else:
            ok = ok and body == ['%s=swap(%s)' % (first, first)]
        rets = [nows(r.text) for r in f.body.find('ReturnStmt')]
        ok = ok and rets == ['return%s' % first]
        L.check(ok, 'F5b.swap-loop', name, f.site(), '%s must swap exactly n elements stepping by %s and return the '
                'pointer past the last' % (name, 'one element' if name == 'swap_n_fixed' else 'the pointer each swap returns'),
                f.body.text)


def f5b_encoder(ctx, L):
    """encoder<> specialisations: width written == width advanced; counted loops; E threaded."""
    cx = ctx.cxx
    n = 0
    table = {'0, 0, 0': ('sizeof(T)', 'encode_int<E>(data,x)', 'encode_int<E>(data,*x)'),
             '0, 1, 0': ('sizeof(uint32_t)', 'encode_int<E>(data,uint32_t(x))', 'encode_int<E>(data,uint32_t(*x))'),
             '1, 0, 0': ('T::encoded_byte_size', 'x.templateencode<E>(data)', 'x->templateencode<E>(data)'),
             '1, 0, 1': (None, None, None)}
    for f in cx.functions('encode', file_suffix='detail/encoder.hpp'):
        if not (f.owner or '').startswith('encoder<'):
            continue
        flags = ', '.join(f.owner[:-1].split(', ')[2:])
        if flags not in table:
            L.bad('F5b.encoder-advance', f.key(), f.site(), 'unknown encoder specialisation flags', f.owner)
            continue
        n += 1
        width, one, many = table[flags]
        data = f.params[0][0]
        text = nows(f.body.text)
        single = len(f.params) == 2
        if width is None:
            want = '{returndata+x.templateencode<E>(data);}' if single else None
            if single:
                ok = text == want
            else:
                ok = 'data+=x->templateencode<E>(data);' in text
            L.check(ok, 'F5b.encoder-advance', f.key(), f.site(),
                    'dynamic composite: the cursor must advance by exactly what the element encode returned', f.body.text)
        elif single:
            ok = text == '{%s;returndata+%s;}' % (one, width)
            L.check(ok, 'F5b.encoder-advance', f.key(), f.site(),
                    'must write one value with %s and return data + %s' % (one, width), f.body.text)
        else:
            ok = ('%s;data+=%s;' % (many, width)) in text
            L.check(ok, 'F5b.encoder-advance', f.key(), f.site(),
                    'per element: %s then data += %s' % (many, width), f.body.text)
        for w in f.body.find('WhileStmt'):
            cl = counted_loop(w)
            incs = sum(1 for s in (cl[2] if cl else []) if nows(s.text) == '++x')
            L.check(cl is not None and cl[1] == 1 and incs == 1, 'F5b.counted-loop', f.key(), f.site(w),
                    'element loop must decrement the counter once and step the element pointer once', w.text[:120])
    L.floor('F5b.encoder-advance', n, 8)


def optional_codec_cxx(ctx, L):
    """F1 over E9: do_encode(optional<T>) / do_decode(optional<T>): flag as uint32_t, gap iff alignment > 4,
    value or skip of the static size. Reports use of ABI alignment for the wire gap (C03-g)."""
    cx = ctx.cxx
    enc = [f for f in cx.functions('do_encode') if any('optional<T>' in t for _, t in f.params)]
    dec = [f for f in cx.functions('do_decode') if any('optional<T>' in t for _, t in f.params)]
    if len(enc) != 1 or len(dec) != 1:
        raise AnalysisError('anchor vanished: do_encode/do_decode(optional<T>)')
    e, d = enc[0], dec[0]
    et, dt = nows(e.body.text), nows(d.body.text)
    data = e.params[0][0]
    L.check(et.startswith('{%s=do_encode<E>(%s,uint32_t(bool(x)));' % (data, data)), 'F1cxx.optional-steps',
            'do_encode(optional)|flag', e.site(), 'the presence flag must be encoded first, as a uint32_t of bool(x), in '
            'byte order E', e.body.text[:120])
    L.check('uint32_tdisc;if(!do_decode<E>(disc,pos,end)){returnfalse;}' in dt, 'F1cxx.optional-steps',
            'do_decode(optional)|flag', d.site(), 'the presence flag must be decoded first as a checked uint32_t in byte '
            'order E', d.body.text[:160])
    # gap: both sides skip `A - sizeof(uint32_t)` exactly when `A > sizeof(uint32_t)` (guards are read in atomic form, so a
    # nested `if` and an `&&` in one condition are the same thing)
    def gap_guard(node, f):
        for c, pol, kind in guards_at(node, f.body):
            t = nows(c.strip().text)
            if pol is True and t.endswith('>sizeof(uint32_t)'):
                return t[:-len('>sizeof(uint32_t)')]
            if pol is True and t.startswith('sizeof(uint32_t)<'):
                return t[len('sizeof(uint32_t)<'):]
        return None
    # encode: data = data + A - sizeof(uint32_t)
    skips = [a for a in e.body.find(('BinaryOperator', 'CompoundAssignOperator')) if a.opcode in ('=', '+=') and is_ref(a.kids[0], data)
             and 'sizeof(uint32_t)' in nows(a.kids[1].text) and 'do_encode' not in nows(a.kids[1].text)]
    a_enc = gap_guard(skips[0], e) if len(skips) == 1 else None
    if a_enc is None:
        L.bad('F1cxx.optional-steps', 'do_encode(optional)|gap', e.site(), 'no `if (alignment > sizeof(uint32_t))` gap step between '
              'flag and value', e.body.text[:200])
    else:
        rhs = nows(skips[0].kids[1].text)
        L.check(rhs in ('%s+%s-sizeof(uint32_t)' % (data, a_enc), '%s-sizeof(uint32_t)' % a_enc) and
                (skips[0].opcode == '+=') == (not rhs.startswith(data + '+')), 'F1cxx.optional-steps', 'do_encode(optional)|gap', e.site(skips[0]),
                'the gap must skip exactly alignment - sizeof(uint32_t) bytes', skips[0].text)
        L.check(a_enc != 'alignment<T>::value', 'C03g.wire-alignment-source', 'do_encode(optional)|' + a_enc, e.site(skips[0]),
                'the flag-to-value gap is derived from alignment<T>::value, the ABI alignment of the C++ object: for a '
                'generated composite T holding a std::vector (alignment 8) whose wire alignment is 4 a 4-byte gap is '
                'inserted that the format does not have', skips[0].text)
    # decode: do_decode_advance(A - sizeof(uint32_t), pos, end), a failure returns false
    advs = [c for c in d.body.find('CallExpr') if c.kids and nows(c.kids[0].text) == 'do_decode_advance' and len(c.kids) == 4
            and 'sizeof(uint32_t)' in nows(c.kids[1].text)]
    a_dec = gap_guard(advs[0], d) if len(advs) == 1 else None
    if a_dec is None:
        L.bad('F1cxx.optional-steps', 'do_decode(optional)|gap', d.site(), 'no `if (alignment > sizeof(uint32_t))` gap step between '
              'flag and value', d.body.text[:200])
    else:
        L.check(nows(advs[0].kids[1].text) == '%s-sizeof(uint32_t)' % a_dec and nows(advs[0].kids[2].text) == 'pos' and nows(advs[0].kids[3].text) == 'end'
                and failure_returns_false(advs[0], d.body), 'F1cxx.optional-steps', 'do_decode(optional)|gap', d.site(advs[0]),
                'the gap must skip exactly alignment - sizeof(uint32_t) bytes (checked on decode)', advs[0].text)
        L.check(a_dec != 'alignment<T>::value', 'C03g.wire-alignment-source', 'do_decode(optional)|' + a_dec, d.site(advs[0]),
                'the flag-to-value gap is derived from alignment<T>::value, the ABI alignment of the C++ object: for a '
                'generated composite T holding a std::vector (alignment 8) whose wire alignment is 4 a 4-byte gap is '
                'inserted that the format does not have', advs[0].text)

    # order and completeness: the gap step runs for present and absent values alike (before either value return, not under a
    # test of the flag), and the functions call nothing but the codec steps named above
    def top_index(f, node):
        for i, st in enumerate(stmts_of(f.body)):
            if any(x is node for x in st.walk()):
                return i
        return -1
    for f, label, step, flag, allowed in (
            (e, 'do_encode(optional)', skips[0] if len(skips) == 1 else None, 'x', ('do_encode<E>',)),
            (d, 'do_decode(optional)', advs[0] if len(advs) == 1 else None, 'disc',
             ('do_decode<E>', 'do_decode_advance', 'decoder<E,T>::decode'))):
        if step is None:
            continue
        vrets = [r for r in f.body.find('ReturnStmt') if r.kids and nows(r.kids[0].text) != 'false']
        L.check(all(top_index(f, step) < top_index(f, r) for r in vrets) and
                not any(nows(c.strip().text) == flag for c, pol, kind in guards_at(step, f.body)),
                'F1cxx.optional-steps', label + '|gap-first', f.site(step),
                'the flag-to-value gap is part of the slot whether or not a value is present: it must be skipped before the value is '
                'encoded / decoded *and* before an absent value\'s static size is skipped', f.body.text[:300])
        others = [nows(c.kids[0].text) for c in f.body.find('CallExpr') if c.kids and nows(c.kids[0].text) not in allowed]
        L.check(not others, 'F1cxx.optional-steps', label + '|only-codec-steps', f.site(),
                'the optional codec performs only the flag / gap / value steps (anything else reads or writes bytes the format does not '
                'define): %s' % ', '.join(others), ', '.join(others))
    # value / skip: what each `return` yields under what is known about the flag there
    def returns_under(f, flag):
        out = {}
        for r in f.body.find('ReturnStmt'):
            if not r.kids:
                continue
            pols = [pol for c, pol, kind in guards_at(r, f.body) if nows(c.strip().text) == flag]
            v = nows(r.kids[0].text)
            if v == 'false':
                continue
            out.setdefault(tuple(sorted(set(pols))), []).append(v)
        return out
    ru = returns_under(e, 'x')
    L.check(ru == {(True,): ['do_encode<E>(%s,*x)' % data], (False,): ['%s+codec_traits<T>::size' % data]},
            'F1cxx.optional-steps', 'do_encode(optional)|value', e.site(),
            'present: encode the value; absent: skip the static size of T', str(ru))
    ru = returns_under(d, 'disc')
    L.check('x=disc?optional<T>(T()):optional<T>();' in dt and
            ru == {(True,): ['decoder<E,T>::decode(*x,pos,end)'], (False,): ['do_decode_advance(codec_traits<T>::size,pos,end)']},
            'F1cxx.optional-steps', 'do_decode(optional)|value', d.site(),
            'present: decode the value in place; absent: checked skip of the static size of T', str(ru))


def f3_cxx(ctx, L):
    """F3: inside every template with an `endianness E` parameter each call of the codec family carries <E>;
    native/little/big literals appear only in the non-template convenience overloads, which must say native."""
    cx = ctx.cxx
    family = ('do_encode', 'do_decode', 'do_decode_in_place', 'do_decode_greedy', 'do_decode_resize', 'encode_int',
              'decode_int', 'encoder', 'decoder', 'decoder_greedy', 'encode', 'decode')
    n = 0
    for f in cx.funcs:
        fn = f.node.file or ''
        if not fn.endswith(('detail/encoder.hpp', 'detail/decoder.hpp', 'detail/message.hpp')):
            continue
        has_e = any(p == 'E' for p, _ in f.template_params) or (f.owner or '').startswith(('encoder<E', 'decoder<E',
                                                                                            'decoder_greedy<E'))
        text = nows(f.body.text)
        if has_e:
            n += 1
            for c in f.body.find(('CallExpr', 'CXXMemberCallExpr')):
                callee = nows(c.kids[0].text) if c.kids else ''
                base = re.sub(r'<.*', '', callee.split('::')[-1].replace('template', '').split('.')[-1].split('->')[-1])
                if not (re.search(r'\b(%s)\b' % '|'.join(family[:-2]), callee) or base in ('encode', 'decode')):
                    continue
                ok = re.search(r'<E[,>]', callee) is not None
                L.check(ok, 'F3cxx.E-threaded', '%s|%s' % (f.key(), callee), f.site(c),
                        'call inside a template parameterised by the byte order E does not pass E on', c.text[:120])
            for lit in ('native', 'little', 'big'):
                L.check(not re.search(r'<%s[,>]' % lit, text), 'F3cxx.no-literal-order', '%s|%s' % (f.key(), lit), f.site(),
                        'byte-order literal `%s` inside a template that is parameterised by E' % lit, f.body.text[:160])
        elif fn.endswith('detail/message.hpp') and f.name in ('encode', 'decode'):
            n += 1
            m = re.search(r'(encode|decode)<(\w+)>\(', text)
            L.check(bool(m) and m.group(2) == 'native', 'F3cxx.native-overload', f.key(), f.site(),
                    'the convenience overload without a byte-order argument must use native', f.body.text)
    L.floor('F3cxx.E-threaded', n, 30)


def f2_cxx_zero_vector(ctx, L):
    """message::encode<E>(): the vector is sized by get_byte_size() with the size-only (value-initialising)
    constructor, encoded into, and returned: padding bytes are the vector's zeros. Who-allocates (C05-d)."""
    cx = ctx.cxx
    fs = [f for f in cx.functions('encode', file_suffix='detail/message.hpp') if not f.params and f.template_params]
    if len(fs) != 1:
        raise AnalysisError('anchor vanished: message::encode<E>()')
    f = fs[0]
    decls = [d for d in f.body.find('VarDecl') if 'vector<uint8_t>' in nows(d.type or '')]
    ok = len(decls) == 1 and decls[0].kids and \
        decls[0].ntext.endswith('(static_cast<constT*>(this)->get_byte_size())')
    L.check(ok, 'F2cxx.vector-sized-by-get_byte_size', f.key(), f.site(),
            'the result vector must be constructed with exactly get_byte_size() value-initialised (zero) bytes',
            decls[0].text if decls else f.body.text)
    name = decls[0].name if decls else 'data'
    t = nows(f.body.text)
    L.check(nstmts(f.body)[-2:] == ['message_impl<T>::templateencode<E>(*static_cast<constT*>(this),%s.data())' % name, 'return%s' % name],
            'F2cxx.vector-sized-by-get_byte_size', f.key() + '|encode-into', f.site(),
            'the message must be encoded into that vector, which is then returned unchanged', f.body.text)
    mem = [x for x in ('resize', 'push_back', 'insert', 'assign', 'reserve', 'new', 'malloc', 'memset') if x + '(' in t]
    L.check(not mem, 'C05d.who-allocates', f.key(), f.site(), 'no other allocation/fill on the vector encode path', str(mem))
    # pointer API returns end - pos
    ps = [g for g in cx.functions('encode', file_suffix='detail/message.hpp') if len(g.params) == 1 and g.template_params]
    if len(ps) != 1:
        raise AnalysisError('anchor vanished: message::encode<E>(void*)')
    g = ps[0]
    # (locals bound once and handed over by value stand for their initialisers)
    gt = nstmts(g.body, single_assignment_locals(g.body))
    arg = 'static_cast<uint8_t*>(%s)' % g.params[0][0]
    L.check(gt == ['return(message_impl<T>::templateencode<E>(*static_cast<constT*>(this),%s))-(%s)' % (arg, arg)],
            'C05d.pointer-api-returns-written', g.key(), g.site(),
            'encode<E>(void*) must return the distance between the returned end pointer and the start', g.body.text)


def f2_cxx_skip_only(ctx, L):
    """The encoder headers never write padding: no memset/fill, and the generator's padding templates only
    move the cursor (`pos = pos + N`, `pos = align<N>(pos)`)."""
    cx = ctx.cxx
    n = 0
    for f in cx.funcs:
        if not (f.node.file or '').endswith('detail/encoder.hpp'):
            continue
        n += 1
        t = nows(f.body.text)
        bad = [x for x in ('memset(', 'std::fill(', 'fill_n(') if x in t]
        L.check(not bad, 'F2cxx.skip-only-padding', f.key(), f.site(), 'encoder must not write filler bytes itself', str(bad))
    L.floor('F2cxx.skip-only-padding', n, 25)


def f13_stream_state(ctx, L):
    """printer.hpp: every sticky manipulator (std::hex/oct, fill, setf/flags, precision) inserted into the
    stream is restored before the function returns, on every path."""
    cx = ctx.cxx
    n = 0
    for f in cx.funcs:
        if not (f.node.file or '').endswith('detail/printer.hpp'):
            continue
        n += 1
        t = nows(f.body.text)
        sticky = []
        if re.search(r'std::hex|std::oct|\bhex\b', t):
            sticky.append(('std::hex', r'std::dec|\.flags\((?!\))|\.setf\(|\.copyfmt\('))
        if re.search(r'\.fill\(', t):
            sticky.append(('fill()', r'\.fill\((?!\'0\'\))[^)]+\)|\.copyfmt\('))
        if re.search(r'std::setfill', t):
            sticky.append(('std::setfill', r'std::setfill\(\' \'\)|\.fill\(|\.copyfmt\('))
        if re.search(r'\.precision\(|std::setprecision|std::showbase|std::uppercase|std::boolalpha', t):
            sticky.append(('format flag', r'\.flags\((?!\))|\.copyfmt\('))
        for what, restore in sticky:
            first = re.search(re.escape(what).replace('fill\\(\\)', r'\.fill\(') if what != 'fill()' else r'\.fill\(', t)
            pos = first.start() if first else 0
            tail = t[pos + 1:]
            restored = re.search(restore, tail) is not None
            # a restore must be reached on every exit: no `return` between the manipulator and the restore
            why = ''
            if restored:
                r = re.search(restore, tail)
                restored = 'return' not in tail[:r.start()]
                # a restore from a snapshot only restores what the snapshot held: `NAME = out.flags()` / `NAME = out.fill(..)` /
                # `NAME.copyfmt(out)` has to be taken before the first sticky manipulator, or the "restore" re-installs it
                m = re.match(r'\.(flags|fill)\((\w+)\)', tail[r.start():])
                if restored and m and not re.fullmatch(r'\d+', m.group(2)):
                    snap = re.search(r'%s=\w+\.%s\(' % (re.escape(m.group(2)), m.group(1)), t)
                    if snap is not None and snap.start() > pos:
                        restored = False
                        why = ' (the snapshot `%s` restored from is taken after %s was applied, so it re-installs it)' % (m.group(2), what)
                m = re.match(r'\.copyfmt\((\w+)\)', tail[r.start():])
                if restored and m:
                    snap = re.search(r'%s\.copyfmt\(' % re.escape(m.group(1)), t)
                    if snap is not None and snap.start() > pos:
                        restored = False
                        why = ' (the saved format `%s` is copied after %s was applied)' % (m.group(1), what)
            L.check(restored, 'F13.stream-state-restored', '%s|%s' % (f.key(), what), f.site(),
                    'sticky stream state %s is set and never restored: every later integer printed to the same stream is '
                    'affected (e.g. prints in hexadecimal)%s' % (what, why), f.body.text[-160:])
        if not sticky:
            L.ok('F13.stream-state-restored', f.key(), f.site(), 'no sticky manipulator')
    L.floor('F13.stream-state-restored', n, 12)


def no_virtual_in_message(ctx, L):
    """The generated classes derive from prophy::detail::message<T>; the optional codec takes the flag-to-value gap from the C++
    alignment of T (known finding C03g), get_byte_size from the wire layout. A virtual member in the base adds a vptr and raises
    the alignment of every generated class to 8: optionals of 4-aligned composites decode 4 bytes more than get_byte_size() and
    message::encode writes past its vector."""
    cx = ctx.cxx
    bad = []
    seen = 0
    recs = [n for name, args, n in cx.records if name == 'message' and (n.file or '').endswith('detail/message.hpp')]
    for r in recs:
        for k in r.walk():
            if k.kind in ('CXXMethodDecl', 'CXXDestructorDecl', 'CXXConstructorDecl', 'FunctionTemplateDecl'):
                seen += 1
                if k.j.get('virtual') or k.j.get('pure'):
                    bad.append(k)
        for b in r.j.get('bases', []) or []:
            if b.get('isVirtual'):
                bad.append(r)
    L.check(bool(recs) and not bad, 'C07.no-vptr', 'message<T>', recs[0].site() if recs else 'prophy_cpp/include/prophy/detail/message.hpp',
            'prophy::detail::message<T> (the base of every generated class) must not have virtual members or bases: a vptr changes the '
            'alignment of the generated classes that the optional codec derives the flag-to-value gap from (found %d member functions, '
            'virtual: %s)' % (seen, [getattr(b, 'name', '?') for b in bad]), '')
