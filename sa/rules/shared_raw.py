"""Rule families over the raw C++ generator (prophyc/generators/cpp.py) and its headers: C08, C09 (and F17 of C12)."""
import ast
import re

from ..core import AnalysisError
from .shared_py import inn
from . import shared_py as P
from ..pyfront import unparse, try_const, path_conditions, norm_key
from ..cxxlib import nows
from .. import templ, predabs, cxxfront

MOD = 'prophyc.generators.cpp'


from ..pyfront import ws  # noqa: E402,F401  (whitespace-collapsed, rename/normal-form tolerant `in`)


# ------------------------------------------------------------------------------------------------ C08
def packed_macro(ctx, L):
    path = ctx.repo + '/prophy_cpp/include/prophy/detail/struct.hpp'
    try:
        src = open(path).read()
    except OSError:
        raise AnalysisError('anchor vanished: detail/struct.hpp')
    m = re.search(r'#define\s+PROPHY_STRUCT\((\w+)\)\s+struct\s+__attribute__\(\((.*)\)\)\s*$', src, re.M)
    ok = bool(m) and set(x.strip() for x in re.split(r',(?![^()]*\))', m.group(2))) == {'aligned(%s)' % m.group(1), 'packed'}
    L.check(ok, 'C08.packed-aligned-macro', 'PROPHY_STRUCT', 'prophy_cpp/include/prophy/detail/struct.hpp',
            'PROPHY_STRUCT(n) must be `struct __attribute__((aligned(n), packed))`: packed so that only the emitted members '
            'and manual paddings determine offsets, aligned so that sizeof is rounded to n', m.group(0) if m else '')
    # E10 compile-fail witness on a probe struct
    rc, err = cxxfront.static_assert_witness(ctx.repo, '''
#include <cstddef>
PROPHY_STRUCT(8) sa_probe { uint8_t a; uint32_t b; uint16_t c; };
static_assert(offsetof(sa_probe, b) == 1, "PROPHY_STRUCT is not packed");
static_assert(offsetof(sa_probe, c) == 5, "PROPHY_STRUCT is not packed");
static_assert(sizeof(sa_probe) == 8, "PROPHY_STRUCT(8) does not round sizeof to 8");
static_assert(alignof(sa_probe) == 8, "PROPHY_STRUCT(8) is not 8-aligned");
static_assert(sizeof(prophy::bool_t) == 4, "prophy::bool_t is not 4 bytes");
''')
    L.check(rc == 0, 'C08.packed-aligned-macro', 'PROPHY_STRUCT|static_assert witness', 'prophy_cpp/include/prophy/detail/struct.hpp',
            'compile-fail witness: ' + ' | '.join(l for l in err.splitlines() if 'error' in l)[:400], '')


def padder(ctx, L):
    m = ctx.py.mod(MOD)
    ok, table = try_const(m.assign_value('PADDINGS', '_Padder'))
    L.check(ok and tuple(table) == ((1, 'uint8_t'), (2, 'uint16_t'), (4, 'uint32_t')), 'C08.padder', '_Padder.PADDINGS', m.rel,
            'manual paddings decompose 1..7 into 1 + 2 + 4 bytes with types of exactly those widths, smallest first (so that '
            'each piece is naturally aligned after an odd end)', str(table))
    f = m.func('_Padder.generate_padding')
    src = ws(unparse(f.node))
    L.check(inn('assert 0 < padding < 8', src), 'C08.padder', '_Padder.generate_padding|range', f.site(),
            'the padder handles exactly 1..7 bytes (maximum alignment 8)', src)
    L.check(inn("return ''.join((self._gen_padding_var(type_) for val, type_ in self.PADDINGS if padding & val))", src), 'C08.padder',
            '_Padder.generate_padding|decompose', f.site(), 'one padding member per set bit of the padding size', src)
    g = m.func('_Padder._gen_padding_var')
    L.check('self.index += 1' in ws(unparse(g.node)), 'C08.padder', '_Padder._gen_padding_var', g.site(),
            'padding members get distinct names', '')


def hpp_struct(ctx, L):
    """Gap obligations + member ladder of _HppDefinitionsTranslator.translate_struct."""
    m = ctx.py.mod(MOD)
    f = m.func('_HppDefinitionsTranslator.translate_struct.gen_member')
    src = ws(unparse(f.node))
    # every path ends in the one `return field` after the padding step (no early return that skips a gap)
    rets = [r for r in f.walk() if isinstance(r, ast.Return)]
    L.check(len(rets) == 1 and f.node.body[-1] is rets[0] and unparse(rets[0].value) == 'field', 'C08.gap-obligation',
            'gen_member|single-exit', f.site(), 'every member kind must fall through to the padding step: an early return skips '
            'the manual padding that the packed struct needs after that member', src[-200:])
    # gap 1: member.padding > 0 -> manual padding, guarded against None and the negative marker
    GM = ['member', 'padder']
    pads = [c for c in f.walk() if isinstance(c, ast.Call) and isinstance(c.func, ast.Attribute) and c.func.attr == 'generate_padding'
            and len(c.args) == 1 and ws(unparse(c.args[0])) == '%s.padding' % f.params[0]]
    ok = len(pads) == 1
    if ok:
        stmt = m.parent(pads[0])
        ok = isinstance(stmt, ast.AugAssign) and isinstance(stmt.op, ast.Add) and stmt.value is pads[0] \
            and stmt in f.node.body[-1:] + [x for n in f.node.body for x in ast.walk(n)] \
            and P.facts(f, stmt) == P.expected_facts('member.padding is not None and member.padding > 0', True, GM, m) \
            and any(isinstance(r, ast.Return) and unparse(r.value) == unparse(stmt.target) for r in f.node.body[-1:])
    L.check(ok, 'C08.gap-obligation', 'gen_member|padding-after-member', f.site(pads[0] if pads else None),
            'after each member the model\'s positive member.padding must be emitted as manual padding (exactly when it is positive: '
            'None = unknown, negative = alignment marker handled by the part structs) and appended to the returned text',
            ws(unparse(m.parent(pads[0]))) if pads else '')
    # gap 2: optional flag -> value
    opt = [n for n in f.node.body if isinstance(n, ast.If) and unparse(n.test) == 'member.optional']
    if len(opt) != 1:
        raise AnalysisError('gen_member: optional branch not found')
    osrc = ws(unparse(opt[0]))
    L.check(inn("'prophy::bool_t has_{0};\\n'.format(member.name)", osrc), 'C08.optional-flag', 'gen_member|flag', f.site(opt[0]),
            'an optional is a 4-byte prophy::bool_t has_<name> flag before the value', osrc)
    gap = [n for n in ast.walk(opt[0]) if isinstance(n, ast.If) and n is not opt[0]]
    gok, bumped = False, False
    helper_ok = False
    if m.has_func('_get_value_alignment'):
        h = ws(unparse(m.func('_get_value_alignment').node))
        helper_ok = (inn("while getattr(node, 'definition', None): node = node.definition", h) and
                     inn('if isinstance(node, (model.Struct, model.Union)): return node.alignment', h) and
                     inn('if isinstance(node, model.Enum): return model.ENUM_SIZE', h) and
                     inn('return model.BUILTIN_SIZES.get(node.type_name)', h))
    for g in gap:
        t = nows(unparse(g.test))
        b = nows(unparse(g.body))
        if 'member.alignment' in t or 'member.alignment' in b:
            bumped = True
        calls = [c for c in ast.walk(g) if isinstance(c, ast.Call) and isinstance(c.func, ast.Attribute) and c.func.attr == 'generate_padding']
        srcs = [a for a in f.walk() if isinstance(a, ast.Assign) and ws(unparse(a.value)) == '_get_value_alignment(%s)' % f.params[0]
                and isinstance(a.targets[0], ast.Name)]
        if len(calls) == 1 and len(srcs) == 1 and helper_ok:
            va = srcs[0].targets[0].id
            arg = ws(unparse(calls[0].args[0])).replace('model.DISC_SIZE', 'DISC_SIZE')
            need = P.expected_facts('member.optional and %s > model.DISC_SIZE' % va, True, GM, m)
            may = need | P.expected_facts('%s is not None' % va, True, GM, m)
            got = P.facts(f, calls[0])
            if arg == '%s - DISC_SIZE' % va and need <= got <= may:
                gok = True
    L.check(not bumped, 'C08.gap-obligation', 'gen_member|optional-gap-source', f.site(opt[0]),
            'the flag-to-value gap is derived from member.alignment, which the model bumps to the block alignment for the first member '
            'of a block after a dynamic field: {u32 n; u8 x<@n>; u8* o; u64 b} would get a gap the wire format does not have; the gap '
            'must come from the alignment of the member\'s own type', osrc)
    helper_dep = [m.func('_get_value_alignment')] if m.has_func('_get_value_alignment') else [None]
    L.check(gok, 'C08.gap-obligation', 'gen_member|optional-flag-to-value', f.site(opt[0]),
            'the struct is packed, so the wire gap between the 4-byte optional flag and a value of alignment 8 must be emitted '
            'as manual padding (value alignment - DISC_SIZE bytes when the value\'s own alignment exceeds DISC_SIZE): O{u8 a; u64* b} '
            'puts b 4 bytes after has_b instead of 8', osrc, deps=helper_dep)
    order_ok = osrc.rstrip().endswith('field = flag + field') or re.search(r"field = .*has_\{0\}.*\+ field$", osrc) is not None
    L.check(order_ok, 'C08.optional-flag', 'gen_member|flag-before-value', f.site(opt[0]), 'flag (and gap) precede the value', osrc)
    # member ladder: arrays `T name[size or 1]`, plain `T name`
    for piece, why in (("typename = primitive_types.get(member.type_name, member.type_name)", 'builtins map through primitive_types'),
                       ('size = member.size or 1', 'dynamic/greedy arrays are declared with one element (flexible tail), sized arrays with their size'),
                       ("field = '{0} {1}[{2}];\\n'.format(typename, member.name, size)", 'array member'),
                       ("field = '{0} {1};\\n'.format(typename, member.name)", 'plain member'),
                       ('if member.is_array:', 'array branch is taken exactly for arrays')):
        L.check(piece in src, 'C08.member-ladder', 'gen_member|' + piece[:30], f.site(), why + ' (expected `%s`)' % piece, '')
    # parts
    g = m.func('_HppDefinitionsTranslator.translate_struct')
    gs = ws(unparse(g.node))
    # one padder per struct: `_paddingN` members are numbered struct-wide, so every manual padding of the struct (member gaps,
    # optional flag-to-value gaps, in the main block and in every part) must come from the one instance created here
    made = [c for c in g.walk(into_nested=True) if isinstance(c, ast.Call) and ws(unparse(c.func)) == '_Padder']
    pads_all = [c for c in g.walk(into_nested=True) if isinstance(c, ast.Call) and isinstance(c.func, ast.Attribute) and c.func.attr == 'generate_padding']
    one = len(made) == 1 and isinstance(m.parent(made[0]), ast.Assign) and m.parent(made[0]) in g.node.body \
        and isinstance(m.parent(made[0]).targets[0], ast.Name)
    L.check(one and bool(pads_all) and all(isinstance(c.func.value, ast.Name) and c.func.value.id == f.params[1] for c in pads_all), 'C08.padder',
            'translate_struct|one-padder', g.site(made[0] if made else None),
            'every manual padding of a struct is generated by the struct\'s single _Padder (created once in translate_struct and handed to '
            'gen_member): a second instance restarts the numbering at _padding0 and the header declares the same member twice',
            ' ; '.join(ws(unparse(c)) for c in made + pads_all))
    if one:
        pname = m.parent(made[0]).targets[0].id
        gm_calls = [c for c in g.walk(into_nested=True) if isinstance(c, ast.Call) and isinstance(c.func, ast.Name) and c.func.id == 'gen_member']
        L.check(bool(gm_calls) and all(len(c.args) == 2 and isinstance(c.args[1], ast.Name) for c in gm_calls) and
                all(isinstance(a, ast.Name) and a.id == pname for c in g.walk(into_nested=True) if isinstance(c, ast.Call) and isinstance(c.func, ast.Name)
                    and c.func.id in ('gen_block', 'gen_part') and m.func_of.get(id(c)) is g for a in c.args[-1:]),
                'C08.padder', 'translate_struct|padder-threaded', g.site(), 'the one padder is handed to the main block and to every part', '')
    L.check(inn('main, parts = model.partition(struct.members)', gs), 'C08.parts', 'translate_struct|partition', g.site(),
            'the struct is split by model.partition (after each dynamic field)', '')
    TS = ['self', 'struct']

    def fmt_calls(tmpl):
        return [c for c in g.walk(into_nested=True) if isinstance(c, ast.Call) and ws(unparse(c.func)) == tmpl + '.format']
    sd = fmt_calls('STRUCT_DEF_TEMPLATE')
    kw = dict((k.arg, k.value) for k in sd[0].keywords) if len(sd) == 1 else {}
    L.check(len(sd) == 1 and 'align' in kw and P.sem_is(g, kw['align'], 'struct.alignment', TS) and P.sem_is(g, kw['name'], 'struct.name', TS)
            and isinstance(m.parent(sd[0]), ast.Return), 'C08.parts',
            'translate_struct|struct-align', g.site(), 'the struct is declared with its wire alignment (and the text is what the translator returns)', '')
    # parts: one STRUCT_DEF_PART_TEMPLATE per element of `parts`, numbered from 2 in order, aligned like its first member
    pd = fmt_calls('STRUCT_DEF_PART_TEMPLATE')
    ok_align = ok_num = False
    psrc = ''
    if len(pd) == 1:
        psrc = ws(unparse(pd[0]))
        kw = dict((k.arg, k.value) for k in pd[0].keywords)
        # the comprehension / loop that enumerates the parts
        node = pd[0]
        gen = None
        while node is not None and node is not g.node:
            node = m.parent(node)
            if isinstance(node, (ast.ListComp, ast.GeneratorExp)) and len(node.generators) == 1:
                gen = node.generators[0]
                break
            if isinstance(node, ast.For):
                gen = node
                break
        if gen is not None and isinstance(gen.target, ast.Tuple) and len(gen.target.elts) == 2 and all(isinstance(e, ast.Name) for e in gen.target.elts):
            idx, part = gen.target.elts[0].id, gen.target.elts[1].id
            it = ws(unparse(gen.iter))
            start = 0 if it == 'enumerate(parts)' else 2 if it in ('enumerate(parts, 2)', 'enumerate(parts, start=2)') else None
            if start is not None and 'index' in kw and 'align' in kw:
                ok_num = ws(unparse(kw['index'])) == ('%s + 2' % idx if start == 0 else idx)
                ok_align = ws(unparse(kw['align'])) == '%s[0].alignment' % part
    L.check(ok_align, 'C08.parts', 'gen_part|align', g.site(pd[0] if pd else None),
            'a part is aligned like its first member (whose alignment the model bumps to the block maximum)', psrc)
    L.check(ok_num, 'C08.part-numbering', 'hpp|gen_part', g.site(pd[0] if pd else None),
            'parts are numbered from 2 in declaration order (position in `parts` + 2)', psrc)
    for name, tmpl, pieces in (
            ('STRUCT_DEF_TEMPLATE', None, ['PROPHY_STRUCT({align}) {name}', '{blocks}}};']),
            ('STRUCT_DEF_PART_TEMPLATE', None, ['PROPHY_STRUCT({align}) part{index}', '{block}}} _{index};']),
            ('UNION_DEF_TEMPLATE', None, ['PROPHY_STRUCT({align}) {name}']),
            ('UNION_DEF_PART_TEMPLATE', None, ['enum _discriminator', '}} discriminator;', '{padding}union', '{union_fields}}};'])):
        ok, text = try_const(m.assign_value(name))
        L.check(ok and all(p in text for p in pieces), 'C08.templates', name, m.rel,
                '%s must contain %s' % (name, pieces), text if ok else '')
    u = m.func('_HppDefinitionsTranslator.translate_union')
    us = ws(unparse(u.node))
    gp = [c for c in u.walk() if isinstance(c, ast.Call) and isinstance(c.func, ast.Attribute) and c.func.attr == 'generate_padding' and len(c.args) == 1]
    gap_ok = False
    if len(gp) == 1:
        arg = nows(unparse(gp[0].args[0]))
        # 4 bytes exactly when the union is 8-aligned, or the difference itself (emitted when non-zero)
        gap_ok = (arg == '4' and P.knows(u, gp[0], 'union.alignment == 8', True, ['self', 'union'])) or \
            re.fullmatch(r'union\.alignment-(model\.)?DISC_SIZE', arg) is not None
        # ... and it is what the part template receives as `padding`
        fmts = [c for c in u.walk() if isinstance(c, ast.Call) and ws(unparse(c.func)) == 'UNION_DEF_PART_TEMPLATE.format']
        feeds = [k.value for c in fmts for k in c.keywords if k.arg == 'padding']
        direct = any(any(x is gp[0] for x in ast.walk(v)) for v in feeds)
        via = [a.targets[0].id for a in u.walk() if isinstance(a, ast.Assign) and isinstance(a.targets[0], ast.Name) and any(x is gp[0] for x in ast.walk(a.value))]
        gap_ok = gap_ok and (direct or any(isinstance(v, ast.Name) and v.id in via for v in feeds))
    L.check(gap_ok, 'C08.gap-obligation',
            'translate_union|discriminator-gap', u.site(),
            'between the 4-byte discriminator and the arms of an 8-aligned union a 4-byte manual padding must be emitted', us)
    L.check(inn('return UNION_DEF_TEMPLATE.format(align=union.alignment, name=union.name, parts=_indent(parts, 4))', us) and
            inn("'discriminator_{0} = {1}'.format(member.name, member.discriminator)", us), 'C08.templates', 'translate_union',
            u.site(), 'union: aligned struct, discriminator enum with every arm, anonymous union of the arms', '')


def f17_raw(ctx, L):
    """Names the raw generator emits exist in the shipped headers."""
    cx = ctx.cxx
    names = set(f.name for f in cx.funcs)
    for n in ('swap_n_fixed', 'swap_n_dynamic', 'cast', 'swap', 'align_ptr'):
        L.check(n in names, 'F17.raw-names', n, 'prophy_cpp/include/prophy', 'generated raw code calls %s which the headers do not define' % n, '')
    tds = [t for r in cx.roots for t in r.find('TypedefDecl') if t.name == 'bool_t']
    L.check(len(tds) >= 1 and 'uint32_t' in (tds[0].type or ''), 'F17.raw-names', 'prophy::bool_t', tds[0].site() if tds else 'prophy.hpp',
            'prophy::bool_t must be a 32-bit unsigned typedef (optional flag = DISC_SIZE bytes)', tds[0].type if tds else '')
    c = cx.functions('cast')
    if len(c) != 1:
        raise AnalysisError('anchor vanished: prophy::cast')
    L.check(nows(c[0].body.text) == '{returndetail::align_ptr(static_cast<To>(static_cast<void*>(from)));}', 'C09.cast-aligns',
            'cast', c[0].site(), 'cast<To>(p) must align p to the alignment of *To (align_ptr of the converted pointer)', c[0].body.text)
    a = [g for g in cx.functions('align_ptr') if len(g.params) == 1]
    if len(a) != 1:
        raise AnalysisError('anchor vanished: align_ptr(Tp*)')
    L.check(nows(a[0].body.text) == '{enum{mask=alignment<Tp>::value-1};returnreinterpret_cast<Tp*>((reinterpret_cast<uintptr_t>(ptr)+mask)&~uintptr_t(mask));}',
            'F16.align-idiom', 'align_ptr', a[0].site(), 'align_ptr must round the address up to alignof(Tp) (mask = A - 1; (p + mask) & ~mask)', a[0].body.text)


# ------------------------------------------------------------------------------------------------ C09
def swap_templates(ctx, L):
    """(b) convert-before-use ordering inside the emitted swap code."""
    m = ctx.py.mod(MOD)
    ok, u = try_const(m.assign_value('UNION_SWAP_TEMPLATE'))
    if not ok:
        raise AnalysisError('UNION_SWAP_TEMPLATE is not a literal')
    i1 = u.find('swap(reinterpret_cast<uint32_t*>(&payload->discriminator));')
    i2 = u.find('switch (payload->discriminator)')
    L.check(0 <= i1 < i2, 'C09.convert-before-use', 'UNION_SWAP_TEMPLATE|discriminator', m.rel,
            'the discriminator must be swapped (as a 32-bit value) before it selects the arm', u)
    L.check('return payload + 1;' in u and 'default: break;' in u, 'C09.convert-before-use', 'UNION_SWAP_TEMPLATE|return', m.rel,
            'a union is fixed size: returns payload + 1; unknown discriminators swap nothing', u)
    ok, c = try_const(m.assign_value('UNION_SWAP_CASE_TEMPLATE'))
    L.check(ok and c.strip() == 'case {name}::discriminator_{member}: swap({access}); break;', 'C09.convert-before-use',
            'UNION_SWAP_CASE_TEMPLATE', m.rel, 'exactly the selected arm is swapped', c if ok else '')
    ok, e = try_const(m.assign_value('ENUM_SWAP_TEMPLATE'))
    L.check(ok and inn('swap(reinterpret_cast<uint32_t*>(in)); return in + 1;', e), 'C09.enum-swap-32bit', 'ENUM_SWAP_TEMPLATE', m.rel,
            'an enum is swapped as a 32-bit value', e if ok else '')
    f = m.func('_CppSwapTranslator.translate_struct.gen_member')
    src = ws(unparse(f.node))
    L.check(inn("preamble = 'swap(&payload->has_{0});\\nif (payload->has_{0}) '.format(member.name)", src), 'C09.convert-before-use',
            'gen_member|optional-flag', f.site(), 'an optional\'s has_ flag is swapped before it is tested', src)
    L.check(inn("return preamble + 'swap({0})'.format(_member_access_statement(member))", src), 'C09.member-ladder',
            'gen_member|plain', f.site(), 'a plain/optional member is swapped through its address', src)
    acc = m.func('_member_access_statement')
    a = ws(unparse(acc.node))
    L.check(inn("out = '&payload->%s' % member.name", a) and inn('if isinstance(member, model.StructMember) and member.is_array: out = out[1:]', a),
            'C09.member-ladder', '_member_access_statement', acc.site(), 'scalars by address, arrays by name (pointer to first element)', a)


SWAP_GEN_MEMBER = """
    if member.is_array:
        is_dynamic = member.kind == model.Kind.DYNAMIC
        swap_mode = 'dynamic' if is_dynamic else 'fixed'
        if member.bound:
            bound = member.bound
            if member.bound not in delimiters:
                bound = 'payload->' + bound
            return 'swap_n_{0}({1}, {2})'.format(swap_mode, _member_access_statement(member), bound)
        elif not member.bound and member.size:
            return 'swap_n_{0}({1}, {2})'.format(swap_mode, _member_access_statement(member), member.size)
    else:
        if member.optional:
            preamble = 'swap(&payload->has_{0});\\nif (payload->has_{0}) '.format(member.name)
        else:
            preamble = ''
        return preamble + 'swap({0})'.format(_member_access_statement(member))
"""

SWAP_GEN_LAST_MEMBER = """
    if last_mem.kind == model.Kind.UNLIMITED or last_mem.greedy:
        return 'return cast<{0}*>({1});\\n'.format(name, _member_access_statement(last_mem))
    elif last_mem.kind == model.Kind.DYNAMIC or last_mem.is_dynamic:
        return 'return cast<{0}*>({1});\\n'.format(name, gen_member(last_mem, delimiters))
    else:
        return gen_member(last_mem) + ';\\n' + 'return payload + 1;\\n'
"""


def swap_ladder(ctx, L):
    """(c) what the swap generator emits for every abstract member class - the statements on the member's own path, compared at
    meaning level with the reference ladder above: one swap statement per member; swap_n_dynamic exactly for arrays whose
    element kind is DYNAMIC; counters read from payload-> unless passed in as delimiters; the has_ flag swapped before it is
    tested."""
    m = ctx.py.mod(MOD)
    f = m.func('_CppSwapTranslator.translate_struct.gen_member')
    props = predabs.model_props(ctx.py)
    dom = [a for a in predabs.domain() if a.padding == 0 and not (a.last and (a.form == 'greedy' or a.kind == predabs.UNLIMITED))]
    diffs = P.differs_from_reference(f, SWAP_GEN_MEMBER, ['member', 'delimiters'], 'member', props, dom)
    bad = dict((am.label() if am is not None else 'signature', (got, want)) for am, got, want in diffs)
    n = 0
    for a in dom:
        n += 1
        got, want = bad.get(a.label(), (None, None))
        L.check(a.label() not in bad and 'signature' not in bad, 'C09.member-ladder', 'gen_member|%s' % a.label(), f.site(),
                'for a `%s` member the swap generator must do %s; it does %s (a member falling through every branch emits `None;`)'
                % (a.label(), want, got), str(got)[:300])
    L.floor('C09.member-ladder', n, 10)
    acc = m.func('_member_access_statement')
    a = ws(unparse(acc.node))


def last_member_and_casts(ctx, L):
    """(d) cast-target rule + (e) part numbering agreement in the swap translator."""
    m = ctx.py.mod(MOD)
    g = m.func('_CppSwapTranslator.translate_struct.gen_last_member')
    props = predabs.model_props(ctx.py)
    dom = [a for a in predabs.domain() if a.padding == 0 and a.last]
    diffs = P.differs_from_reference(g, SWAP_GEN_LAST_MEMBER, ['name', 'last_mem', 'delimiters'], 'last_mem', props, dom)
    bad = dict((am.label() if am is not None else 'signature', (got, want)) for am, got, want in diffs)
    for a in dom:
        got, want = bad.get(a.label(), (None, None))
        L.check(a.label() not in bad and 'signature' not in bad, 'C09.last-member', 'gen_last_member|%s' % a.label(), g.site(),
                'last member `%s`: unlimited/greedy -> return its (aligned) address unwalked; dynamic -> swap it and return the end pointer; '
                'fixed -> swap, return payload + 1; expected %s, the generator does %s' % (a.label(), want, got), str(got)[:300])
    # (d) what is the end of a part's dynamic data aligned to?
    gp = m.func('_CppSwapTranslator.translate_struct.gen_part')
    ps = ws(unparse(gp.node))
    calls = [c for c in gp.walk() if isinstance(c, ast.Call) and unparse(c.func) == 'gen_last_member']
    if not calls:
        # normal form: the (nested, single-expression) helper is folded into gen_part - its `return cast<{0}*>(...)` templates
        # carry the cast target as their first format argument
        calls = [c for c in gp.walk() if isinstance(c, ast.Call) and isinstance(c.func, ast.Attribute) and c.func.attr == 'format'
                 and isinstance(c.func.value, ast.Constant) and str(c.func.value.value).startswith('return cast<{0}*>(') and c.args]
        targets = set(ws(unparse(c.args[0])) for c in calls)
        if len(targets) != 1:
            raise AnalysisError('gen_part: the cast target of the part end was not found')
    elif len(calls) != 1:
        raise AnalysisError('gen_part: call of gen_last_member not found')
    target = ws(unparse(calls[0].args[0]))
    L.check(target != "'{0}::part{1}'.format(struct.name, part_number)", 'C09.cast-target', 'gen_part|cast<current part>', gp.site(calls[0]),
            'the pointer to the end of a part\'s dynamic data is cast (= aligned) to the *current* part type `%s`; only what follows '
            'in the wire layout (the next part, or the struct at the very end) may determine that alignment: when part k is more '
            'strictly aligned than part k+1 and the data ends unaligned, the next part is located too far '
            '(X{u8 a<>; u64 b; u8 c<>; u16 d}: part3 found at 24 instead of 22)' % target, ps[:300])
    # (e) part numbering: part number - 2 == index into parts, at every site
    gm = m.func('_CppSwapTranslator.translate_struct.gen_main')
    ms = ws(unparse(gm.node))
    sites = {
        'all_names': "all_names.update({mem.name: 'part{0}'.format(i + 2) for mem in part})",
        'declare': "members += '{0}::part{1}* part{1} = cast<{0}::part{1}*>({2});\\n'.format(struct.name, i + 2, "
                   "'swap(part{0}{1})'.format(i + 1, gen_missing(i - 1)) if i else gen_member(main[-1]))",
        'return': "members += 'return cast<{0}*>(swap(part{1}{2}));\\n'.format(struct.name, i + 2, gen_missing(i))",
        'enumerate': 'for i, part in enumerate(parts):',
    }
    for k, piece in sites.items():
        L.check(piece in ms, 'C09.part-numbering', 'gen_main|' + k, gm.site(),
                'part numbering must satisfy number - 2 == index into `parts` at every site: partN is declared from the swap of '
                'part N-1 (given the delimiters missing in parts[N-3]), the result is swap(part last) with its own missing '
                'delimiters; expected `%s`' % piece, '')
    L.check(ms.count('enumerate(parts)') == 2 and 'enumerate(parts,' not in nows(ms), 'C09.part-numbering', 'gen_main|enumerate-start',
            gm.site(), 'indices into `parts` start at 0', '')
    ts = m.func('_CppSwapTranslator.translate_struct')
    tss = ws(unparse(ts.node.body[-1]))
    L.check("return '\\n'.join([gen_part(i + 2, part) for i, part in enumerate(parts)] + [gen_main(main, parts)])" == tss,
            'C09.part-numbering', 'translate_struct|gen_part', ts.site(),
            'part functions are generated for number index + 2, before the main function that calls them', tss)
    gmiss = m.func('_CppSwapTranslator.translate_struct.gen_main.get_missing')
    gs = ws(unparse(gmiss.node))
    L.check(inn('part = parts[part_number]', gs) and inn('return [(all_names[mem.bound], mem.bound) for mem in part if mem.bound and mem.bound not in names]', gs),
            'C09.part-numbering', 'get_missing', gmiss.site(),
            'the delimiters passed to a part are the sizers of its arrays that live outside it, each read from the part that holds it', gs)
    L.check(inn("names = [mem.name for mem in part] delimiters = [mem.bound for mem in part if mem.bound and mem.bound not in names]", ps)
            and inn("delimiters_list = ''.join((', size_t {0}'.format(x) for x in delimiters))", ps), 'C09.part-numbering',
            'gen_part|delimiters', gp.site(), 'a part function takes the same outside sizers, in the same order, as parameters', ps[:300])
    L.check(inn("all_names = {mem.name: 'payload' for mem in main}", ms), 'C09.part-numbering', 'gen_main|main-names', gm.site(),
            'members of the main block are read through payload', '')
    L.check(inn("members = ''.join((gen_member(mem) + ';\\n' for mem in main[:-1]))", ms), 'C09.convert-before-use', 'gen_main|order',
            gm.site(), 'members are swapped in declaration order (a counter precedes the array it sizes)', '')
    for k, tmplname, pieces in (('part', 'STRUCT_SWAP_PART_TEMPLATE', ['inline {name}::part{number}* swap({name}::part{number}* payload{delimiters})']),
                                ('main', 'STRUCT_SWAP_MAIN_TEMPLATE', ['template <>', '{name}* swap<{name}>({name}* payload)'])):
        ok, t = try_const(m.assign_value(tmplname))
        L.check(ok and all(p in t for p in pieces), 'C09.part-numbering', tmplname, m.rel, 'template shape', t if ok else '')
