"""C16 - multi-file schemas equal their single-file concatenation (structural clauses)."""
import ast
import re

from ..core import AnalysisError
from .shared_py import inn
from ..pyfront import unparse, try_const, path_conditions, norm_key


from ..pyfront import ws  # noqa: E402,F401  (whitespace-collapsed, rename/normal-form tolerant `in`)


def run(ctx, L, tier):
    cache_and_cycle(ctx, L)
    dir_stack(ctx, L)
    include_errors(ctx, L)
    symbol_propagation(ctx, L)
    generators(ctx, L)
    one_processor(ctx, L)
    reevaluation(ctx, L)
    from . import c20
    c20.shared_state(ctx, L)        # no state that survives from one compiled file / call to the next (module, class, closure, default argument)
    from . import c20 as _c20
    _c20.output_names(ctx, L)         # generated files are named after the input's base name; includes refer to them by the same stem
    from . import c17 as _c17
    _c17.ordering(ctx, L)
    _c17.patch_actions(ctx, L)          # a file is patched once, when it is first processed: included nodes are shared with every includer
    return sorted(set(o.rule for o in L.obligations))


def cache_and_cycle(ctx, L):
    fp = ctx.py.mod('prophyc.file_processor')
    f = fp.func('FileProcessor._process_file')
    from . import shared_py as P
    ok = P.body_is(f, """
        abspath = os.path.abspath(path)
        if abspath in self.files:
            if self.files[abspath] is None:
                raise CyclicIncludeError(path)
            return self.files[abspath]
        self.files[abspath] = None
        with codecs.open(path, 'r', encoding='utf-8') as f:
            content = f.read()
        result = self.process_content(content, path, lambda leaf: self.process_leaf(leaf))
        self.files[abspath] = result
        return result
    """, """
        abspath = os.path.abspath(path)
        if abspath in self.files:
            if self.files[abspath] is None:
                raise CyclicIncludeError(path)
            return self.files[abspath]
        self.files[abspath] = None
        with codecs.open(path, 'r', encoding='utf-8') as f:
            content = f.read()
        result = self.process_content(content, path, self.process_leaf)
        self.files[abspath] = result
        return result
    """, params=['self', 'path'])
    L.check(ok, 'C16a.cache-protocol', '_process_file|protocol', f.site(),
            'the file cache protocol must be (in meaning; locals may be named freely): key = absolute path; a finished file is returned '
            'from the cache whatever its result is - also an empty node list; `is None` marks a file in progress = cyclic include; the '
            'marker is stored before and replaced by the result after processing; the content is read as UTF-8 and processed with the '
            'processor\'s own process_leaf for nested includes; got: %s' % P.sem_body(f), ws(unparse(f.node))[:300])
    init = fp.func('FileProcessor.__init__')
    s = ws(unparse(init.node))
    L.check(inn('self.files = {}', s) and inn('self.include_dirs = [d for d in include_dirs]', s), 'C16a.cache-protocol', 'FileProcessor.__init__', init.site(),
            'one cache and a private copy of the include path per processor', s)
    # the only per-run state of the processor is the abspath-keyed cache and the search path
    attrs = set()
    for g in fp.all_funcs():
        if g.cls == 'FileProcessor':
            for n in g.walk():
                if isinstance(n, ast.Attribute) and unparse(n.value) == 'self' and isinstance(n.ctx, ast.Store):
                    attrs.add(n.attr)
                if isinstance(n, ast.Subscript) and isinstance(n.ctx, ast.Store) and unparse(n.value).startswith('self.'):
                    attrs.add(unparse(n.value)[5:] + '[]')
    L.check(attrs == {'process_content', 'include_dirs', 'files', 'files[]'}, 'C16a.cache-protocol', 'FileProcessor state', fp.rel,
            'the processor may keep only the abspath-keyed result cache and the search path (a cache keyed by include name would hand '
            'one directory\'s file to an includer in another directory): %s' % sorted(attrs), str(sorted(attrs)))


def dir_stack(ctx, L):
    fp = ctx.py.mod('prophyc.file_processor')
    from . import shared_py as P
    p = fp.func('push_dir')
    L.check(P.body_is(p, """
        try:
            dirs.insert(0, directory)
            yield dirs
        finally:
            dirs.pop(0)
    """, params=['dirs', 'directory']), 'C16b.dir-stack', 'push_dir', p.site(),
            'the including file\'s directory is pushed at index 0 (searched first) and popped from the same index in finally', ws(unparse(p.node)))
    s = fp.func('swap_dir')
    L.check(P.body_is(s, """
        try:
            tmp = dirs[0]
            dirs[0] = directory
            yield dirs
        finally:
            dirs[0] = tmp
    """, """
        tmp = dirs[0]
        try:
            dirs[0] = directory
            yield dirs
        finally:
            dirs[0] = tmp
    """, params=['dirs', 'directory']), 'C16b.dir-stack', 'swap_dir', s.site(),
            'an included file\'s directory replaces index 0 for the duration of its processing and the previous one is restored in finally',
            ws(unparse(s.node)))
    pm = fp.func('FileProcessor.process_main')
    L.check(P.sem_is(pm, pm.node.body[-1], """
        with push_dir(self.include_dirs, os.path.dirname(path)):
            return self._process_file(path)
    """, ['self', 'path']), 'C16b.dir-stack',
            'process_main', pm.site(), 'a main file is processed with its own directory pushed in front', ws(unparse(pm.node)))
    pl = fp.func('FileProcessor.process_leaf')
    L.check(P.body_is(pl, """
        path = _get_first_existing_path(leaf, self.include_dirs)
        if not path:
            raise FileNotFoundError(leaf)
        with swap_dir(self.include_dirs, os.path.dirname(path)):
            return self._process_file(path)
    """, """
        path = _get_first_existing_path(leaf, self.include_dirs)
        if path is None:
            raise FileNotFoundError(leaf)
        with swap_dir(self.include_dirs, os.path.dirname(path)):
            return self._process_file(path)
    """, params=['self', 'leaf']), 'C16b.dir-stack', 'process_leaf',
            pl.site(), 'every include - whatever its spelling - is processed with the directory of the file that was found in front of the '
            'search path, so that its own includes resolve next to it first', P.sem_body(pl))
    g = fp.func('_get_first_existing_path')
    L.check('for directory in dirs: path = os.path.join(directory, leaf)' in ws(unparse(g.node)), 'C16b.dir-stack', '_get_first_existing_path', g.site(),
            'directories are searched in order', '')


def include_errors(ctx, L):
    pp = ctx.py.mod('prophyc.parsers.prophy').func('Parser.p_include_def')
    s = ws(unparse(pp.node))
    L.check(inn('except (file_processor.CyclicIncludeError, file_processor.FileNotFoundError) as e: self._parser_error(str(e), t.lineno(3), t.lexpos(3))', s),
            'C16c.include-errors', 'prophy.p_include_def', pp.site(), 'a missing or cyclic include is a parse error', s[:400])
    mi = ctx.py.mod('prophyc.parsers.isar').func('make_include')
    s = ws(unparse(mi.node))
    handlers = [h for h in ast.walk(mi.node) if isinstance(h, ast.ExceptHandler)]
    routed = any(re.search(r'\braise\b|error\(', ws(unparse(h))) for h in handlers)
    L.check(routed, 'C16c.include-errors', 'isar.make_include', mi.site(),
            'isar turns a missing or cyclic include into a warning and an empty include: compilation succeeds with the included '
            'definitions silently dropped', s)


include_scope_ok = {}


def symbol_propagation(ctx, L):
    pp = ctx.py.mod('prophyc.parsers.prophy').func('Parser.p_include_def')
    s = ws(unparse(pp.node))
    from . import shared_py as P
    loops = [n for n in pp.node.body if isinstance(n, ast.For) and ws(unparse(n.iter)) == 'nodes' and isinstance(n.target, ast.Name)]
    if len(loops) != 1:
        raise AnalysisError('p_include_def: loop over the included nodes not found')
    v = loops[0].target.id
    PRM = ['self', 't', v]

    NODE_CLASSES = ('Constant', 'Typedef', 'Enum', 'Struct', 'Union', 'Include')

    def classes_reaching(stmt):
        """The node classes for which the statement runs: read off the isinstance facts on the loop variable (the model's node
        classes are disjoint, so a negative fact only removes the classes it names); None when anything else guards it."""
        live = set(NODE_CLASSES)
        for t_, pol, how in path_conditions(pp.module, pp, stmt):
            if not (isinstance(t_, ast.Call) and isinstance(t_.func, ast.Name) and t_.func.id == 'isinstance' and len(t_.args) == 2
                    and ws(unparse(t_.args[0])) == v):
                return None
            named = t_.args[1].elts if isinstance(t_.args[1], ast.Tuple) else [t_.args[1]]
            names = set(ws(unparse(x)).replace('model.', '') for x in named)
            if not names <= set(NODE_CLASSES):
                return None
            live = live & names if pol else live - names
        return live

    def under(stmt, cls_guard):
        want = set(re.findall(r'model\.(\w+)', cls_guard))
        return classes_reaching(stmt) == want

    def stores(table, key, val):
        out = []
        for n in ast.walk(loops[0]):
            if isinstance(n, ast.Assign) and ws(unparse(n.targets[0])) == 'self.%s[%s]' % (table, key) and ws(unparse(n.value)) == val:
                out.append(n)
        return out
    ty = stores('typedecls', v + '.name', v)
    reach = [classes_reaching(x) for x in ty]
    # (one store for all four classes, or one per arm of a ladder: together exactly the type-defining classes, each once)
    L.check(bool(ty) and None not in reach and sorted(c for r in reach for c in r) == ['Enum', 'Struct', 'Typedef', 'Union'],
            'C16d.symbol-propagation', 'p_include_def|types', pp.site(), 'every type-defining node class of an included file enters the scope', '')
    cs = stores('constdecls', v + '.name', v)
    ok_c = len(cs) == 1 and under(cs[0], 'isinstance(node, model.Constant)')
    ok_e = False
    for n in ast.walk(loops[0]):
        if isinstance(n, ast.For) and n is not loops[0] and ws(unparse(n.iter)) == v + '.members' and isinstance(n.target, ast.Name) \
                and [ws(unparse(b)) for b in n.body] == ['self.constdecls[%s.name] = %s' % (n.target.id, n.target.id)] and under(n, 'isinstance(node, model.Enum)'):
            ok_e = True
        if isinstance(n, ast.Expr) and isinstance(n.value, ast.Call) and ws(unparse(n.value.func)) == 'self.constdecls.update' and len(n.value.args) == 1 \
                and isinstance(n.value.args[0], (ast.GeneratorExp, ast.ListComp)) and under(n, 'isinstance(node, model.Enum)'):
            g = n.value.args[0]
            if len(g.generators) == 1 and not g.generators[0].ifs and ws(unparse(g.generators[0].iter)) == v + '.members' \
                    and isinstance(g.generators[0].target, ast.Name) \
                    and ws(unparse(g.elt)) == '(%s.name, %s)' % (g.generators[0].target.id, g.generators[0].target.id):
                ok_e = True
    include_scope_ok['constants'] = ok_c and ok_e
    L.check(ok_c and ok_e, 'C16d.symbol-propagation', 'p_include_def|constants', pp.site(),
            'constants and enumerators of an included file enter the scope', '')
    L.check(inn('self.nodes.append(model.Include(os.path.splitext(os.path.basename(t[3][1:-1]))[0], nodes))', s) or
            (inn('node = model.Include(stem, nodes) self.nodes.append(node)', s) and inn("stem = os.path.splitext(os.path.basename(path))[0]", s)),
            'C16d.symbol-propagation', 'p_include_def|node', pp.site(), 'the include is recorded by its stem with the nodes of the included file', '')
    # name-defining node classes of model.py = what p_include_def registers
    model = ctx.py.mod('prophyc.model')
    tops = sorted(c for c, bases in model.class_bases.items() if c in ('Constant', 'Typedef', 'Enum', 'Struct', 'Union'))
    L.check(tops == ['Constant', 'Enum', 'Struct', 'Typedef', 'Union'], 'C16d.symbol-propagation', 'model node classes', model.rel, 'inventory', str(tops))
    mt = model.func('_make_types_index')
    L.check('if isinstance(node_, Include): if node_.name not in included: included.add(node_.name) for included_name, included_type in '
            '_make_types_index(node_.members): yield (included_name, included_type)' in ws(unparse(mt.node)), 'C16d.symbol-propagation',
            '_make_types_index', mt.site(), 'types of included files are visible to cross-referencing', '')
    py = ctx.py.mod('prophyc.generators.python').func('_PythonTranslator.translate_include')
    s = ws(unparse(py.node))
    L.check(inn('included = list(sorted((n.name for n in include.defined_symbols() if n.name not in self.included_symbols)))', s),
            'C16d.python-import', 'translate_include|names', py.site(), 'the Python module imports the (sorted) names of everything the include defines', s[:300])
    imports_enumerators = re.search(r'members|EnumMember|enumerat', s) is not None
    L.check(imports_enumerators, 'C16d.python-import', 'translate_include|enumerators', py.site(),
            'the Python import lists node names only: enumerators of an included enum (emitted as module-level constants, and usable as '
            'array sizes / discriminators by the including file) are not imported - `S{u8 x[E_MAX]}` with E from another file: '
            'NameError E_MAX at import', s[:300])
    ds = model.func('Include.defined_symbols')
    L.check('if isinstance(member, Include): for symbol in member.defined_symbols(): yield symbol else: yield member' in ws(unparse(ds.node)),
            'C16d.symbol-propagation', 'Include.defined_symbols', ds.site(), 'nested includes deliver their symbols transitively', '')


def generators(ctx, L):
    for modname, cls, piece in (('prophyc.generators.cpp', '_HppIncludesTranslator', "return '#include \"{}.pp.hpp\"'.format(include.name)"),
                                ('prophyc.generators.cpp_full', '_HppIncludesTranslator', "return '#include \"{}.ppf.hpp\"'.format(include.name)")):
        f = ctx.py.mod(modname).func(cls + '.translate_include')
        L.check(ws(unparse(f.node.body[-1])) == piece, 'C16e.generators', modname.split('.')[-1] + '.translate_include', f.site(),
                'each include becomes an #include of the corresponding generated header', ws(unparse(f.node)))
    b = ctx.py.mod('prophyc.generators.base').func('TranslatorBase._move_includes_to_front')
    L.check(ws(unparse(b.node)).endswith('includes = [] others = [] for node in nodes: if isinstance(node, model.Include): includes.append(node) '
                                          'else: others.append(node) return includes + others'), 'C16e.generators', '_move_includes_to_front', b.site(),
            'includes go first, relative order of includes and of definitions is kept', '')


def one_processor(ctx, L):
    m = ctx.py.func('prophyc:main')
    s = ws(unparse(m.node))
    L.check(s.count('FileProcessor(') == 1 and inn('file_processor_ = FileProcessor(model_parser, opts.include_dirs)', s) and
            inn('for input_file in opts.input_files: with error_on_exception(emit): nodes = file_processor_(input_file)', s), 'C16f.one-processor',
            'main', m.site(), 'one FileProcessor per run, created with exactly the -I directories (no implicit working-directory entry) and '
            'reused for every input file (each file is processed once)', '')


def reevaluation(ctx, L):
    from . import shared_model as M
    M.reevaluation(ctx, L)
