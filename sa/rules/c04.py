"""C04 - prophyc's computed layout equals the wire rules and both runtimes' statics (structural clauses)."""
from . import shared_py as P
from . import shared_gen as G
from . import shared_model as M
from . import c05


def run(ctx, L, tier):
    G.f4_tables(ctx, L)
    M.stiffness(ctx, L)
    M.dynamic_predicates(ctx, L)
    M.size_formulas(ctx, L)
    c05.union_size(ctx, L)
    P.f15_optional_aware(ctx, L)
    P.f16_runtime_layout(ctx, L)
    G.f9_arithmetic(ctx, L, 'prophyc.generators.cpp_full',
                    ['generate_struct_get_byte_size', 'generate_struct_encode', 'generate_struct_decode'])
    G.f9_arithmetic(ctx, L, 'prophyc.generators.cpp', ['_HppDefinitionsTranslator.translate_struct.gen_member'])
    G.padding_tail(ctx, L, 'generate_struct_encode', G.PAD_ENC)
    G.padding_tail(ctx, L, 'generate_struct_decode', G.PAD_DEC)
    from . import c20
    c20.shared_state(ctx, L)        # no state that survives from one compiled file / call to the next (module, class, closure, default argument)
    from . import c14
    c14.precedence(ctx, L)           # sizes written as expressions are evaluated by the model-time evaluator
    c14.ladders(ctx, L)
    c14.evaluator_state(ctx, L)
    from . import shared_gen as _G
    _G.generators_read_only(ctx, L)
    from . import shared_cxx as _X
    _X.optional_codec_cxx(ctx, L)      # an absent optional occupies its wire slot (codec_traits<T>::size), not sizeof(T)
    return sorted(set(o.rule for o in L.obligations))
