"""C09 - raw C++ swap converts a foreign-endian message in place (structural clauses)."""
from . import shared_raw as R
from . import shared_cxx as X
from . import shared_model as M


def run(ctx, L, tier):
    X.f5_swap(ctx, L)
    R.swap_templates(ctx, L)
    R.swap_ladder(ctx, L)
    R.last_member_and_casts(ctx, L)
    R.f17_raw(ctx, L)
    M.dynamic_predicates(ctx, L)
    M.size_formulas(ctx, L)      # the swap advances by the model's block alignments (PROPHY_STRUCT(N) partK, align<N>): they must be the documented ones
    from . import c20
    c20.shared_state(ctx, L)        # no state that survives from one compiled file / call to the next (module, class, closure, default argument)
    from . import shared_gen as _G
    _G.generators_read_only(ctx, L)
    R.hpp_struct(ctx, L)               # the swap walks the raw structs: their gaps must be the wire gaps
    return sorted(set(o.rule for o in L.obligations))
