"""C07 - C++ full decode is memory-safe and exact on arbitrary bytes (structural clauses).

F6-C++ guard dominance over decoder.hpp, resize bounds, error-path state, exactness conjunct in
message.hpp, generated decode code touches the cursor only through checked helpers."""
import ast
import re

from ..core import AnalysisError
from ..cxxlib import (dominating_guards, remaining_guard, is_ref, nows, enclosing, counted_loop, stmts_of,
                      mentions_remaining, is_remaining, returns_false, if_parts, always_returns)
from .. import templ
from ..pyfront import unparse

CURSOR_T = 'const uint8_t *&'
END_T = 'const uint8_t *'


def cursor_params(f):
    pos = [n for n, t in f.params if t == CURSOR_T]
    end = [n for n, t in f.params if t == END_T and n != (pos[0] if pos else None)]
    return (pos[0] if pos else None), (end[-1] if end else None)


def run(ctx, L, tier):
    rules = decoder_guards(ctx, L)
    cursor_passing(ctx.cxx, L)
    exactness(ctx.cxx, L)
    generated_decode(ctx, L)
    from . import shared_model as M
    from . import shared_cxx as X
    M.size_formulas(ctx, L)          # the generated decoders advance by the model's sizes and paddings
    M.dynamic_predicates(ctx, L)
    X.optional_codec_cxx(ctx, L)
    X.no_virtual_in_message(ctx, L)
    # the generated decoder re-aligns / skips exactly where the model (and the generated encoder) pads: a missing step makes the
    # decoder accept a truncated message and reject a well-formed one
    from . import shared_gen as G
    G.padding_tail(ctx, L, 'generate_struct_decode', G.PAD_DEC)
    return sorted(set(rules) | set(o.rule for o in L.obligations))


def decoder_guards(ctx, L):
    cx = ctx.cxx
    rules = ['F6cxx.cursor-write-guarded', 'F6cxx.read-guarded', 'F6cxx.resize-bounded', 'F6cxx.limit-before-resize',
             'F6cxx.no-true-after-failed-callee', 'F6cxx.counted-loop', 'C07.exactness', 'C07.decode-funnel',
             'E8.decode-checked-helpers', 'E8.union-decode-paths', 'C07.cursor-passing-mode']
    dec = [f for f in cx.funcs if (f.node.file or '').endswith('detail/decoder.hpp')]
    L.count('decoder.hpp function bodies', len(dec))
    n_writes = n_reads = n_resize = n_loops = 0
    for f in dec:
        pos, end = cursor_params(f)
        body = f.body
        # ---- counted loops (F5b): one element op, ++x, --n per iteration
        for w in body.find('WhileStmt'):
            cl = counted_loop(w)
            if cl is None:
                cond = w.kids[0].strip()
                if cond.kind == 'CXXBoolLiteralExpr':
                    continue   # `while(true)` of decoder_greedy: progress handled by no-true-after-failed-callee
                L.bad('F6cxx.counted-loop', f.key() + '|' + nows(w.kids[0].text), f.site(w),
                      'loop is not a counted `while (n)` loop', w.kids[0].text)
                continue
            name, decs, stmts = cl
            n_loops += 1
            incs = sum(1 for s in stmts for x in s.walk() if x.kind == 'UnaryOperator' and x.opcode == '++'
                       and x.kids[0].strip().kind == 'DeclRefExpr' and x.kids[0].strip().ref != name
                       and x.kids[0].strip().ref != pos)
            L.check(decs == 1 and incs == 1, 'F6cxx.counted-loop', f.key() + '|while(' + name + ')', f.site(w),
                    'element loop must decrement the counter once and step the element pointer once per iteration '
                    '(found %d decrement(s), %d element step(s))' % (decs, incs), w.kids[0].text)
        if pos is None:
            continue
        # ---- cursor writes
        for n in body.walk():
            adv = None
            if n.kind == 'CompoundAssignOperator' and is_ref(n.kids[0], pos):
                adv = ('+=', n.kids[1]) if n.opcode == '+=' else ('?', n.kids[1])
            elif n.kind == 'BinaryOperator' and n.opcode == '=' and is_ref(n.kids[0], pos):
                rhs = n.kids[1].strip()
                if rhs.kind == 'BinaryOperator' and rhs.opcode == '+' and is_ref(rhs.kids[0], pos):
                    adv = ('+=', rhs.kids[1])
                elif rhs.kind == 'BinaryOperator' and rhs.opcode == '+' and is_ref(rhs.kids[1], pos):
                    adv = ('+=', rhs.kids[0])
                else:
                    adv = ('=', rhs)
            elif n.kind == 'UnaryOperator' and n.opcode in ('++', '--') and is_ref(n.kids[0], pos):
                adv = ('?', n)
            if adv is None:
                continue
            n_writes += 1
            how, amount = adv
            key = '%s|%s' % (f.key(), nows(n.text))
            guards = dominating_guards(n, body)
            if how == '+=':
                ok, why = covered(amount, n, guards, pos, end, body)
                L.check(ok, 'F6cxx.cursor-write-guarded', key, f.site(n),
                        'cursor advance `%s` is not dominated by a remaining-length check '
                        '`size_t(%s - %s) < %s -> return false` (%s)' % (n.text, end, pos, amount.text, why), n.text)
            elif how == '=' and is_snapshot(amount, pos, body):
                L.ok('F6cxx.cursor-write-guarded', key, f.site(n), 'restores a cursor value saved earlier (in bounds)')
            elif how == '=':
                ok = aligned_guard(amount, guards, pos, end, body)
                L.check(ok, 'F6cxx.cursor-write-guarded', key, f.site(n),
                        'cursor assignment `%s` is not dominated by `%s > %s -> return false` with the assigned '
                        'value derived from align<A>(%s)' % (n.text, amount.text, end, pos), n.text)
            else:
                L.bad('F6cxx.cursor-write-guarded', key, f.site(n), 'unrecognised raw cursor arithmetic', n.text)
        # ---- reads through decode_int<E>(x, pos)
        for c in body.find('CallExpr'):
            callee = nows(c.kids[0].text) if c.kids else ''
            if not callee.startswith('decode_int'):
                continue
            args = c.kids[1:]
            if len(args) != 2 or not is_ref(args[1], pos):
                continue
            n_reads += 1
            width = read_width(args[0], f)
            guards = dominating_guards(c, body)
            ok = False
            for cond, pol, kind in guards:
                g = remaining_guard(cond, pol, pos, end)
                if g is None or kind != 'early-exit:false':
                    continue
                gt = nows(g.text)
                w_ = enclosing(c, 'WhileStmt')
                in_loop = False
                p_ = cond.parent
                while p_ is not None:
                    if p_ is w_:
                        in_loop = True
                    p_ = p_.parent
                if gt == 'sizeof(%s)' % width and (w_ is None or in_loop):
                    ok = True
                m = re.match(r'^(\w+)\*sizeof\((.+)\)$', gt) or re.match(r'^sizeof\((.+)\)\*(\w+)$', gt)
                if m and width in m.groups() and enclosing(c, 'WhileStmt') is not None:
                    cl = counted_loop(enclosing(c, 'WhileStmt'))
                    if cl and cl[0] in m.groups():
                        ok = True
            L.check(ok, 'F6cxx.read-guarded', '%s|%s' % (f.key(), nows(c.text)), f.site(c),
                    'read of sizeof(%s) bytes at the cursor is not dominated by `size_t(%s - %s) < [n *] sizeof(%s)`'
                    % (width, end, pos, width), c.text)
            # advance agreement: the advance that follows must be the width just read
            blk = c.parent
            while blk is not None and blk.kind != 'CompoundStmt':
                blk = blk.parent
            advs = [nows(x.kids[1].text) for x in (blk.walk() if blk else [])
                    if x.kind == 'CompoundAssignOperator' and x.opcode == '+=' and is_ref(x.kids[0], pos)]
            L.check(advs == ['sizeof(%s)' % width], 'F5b.advance-agreement', '%s|%s' % (f.key(), nows(c.text)),
                    f.site(c), 'after reading a %s the cursor must advance by sizeof(%s) exactly once; found %s'
                    % (width, width, advs), c.text)
        # ---- resize bounded by the input
        for c in body.walk():
            if c.kind not in ('CallExpr', 'CXXMemberCallExpr'):
                continue
            callee = c.kids[0].strip() if c.kids else None
            if callee is None or not nows(callee.text).endswith('.resize'):
                continue
            n_resize += 1
            arg = c.kids[1] if len(c.kids) > 1 else None
            key = '%s|%s' % (f.key(), nows(c.text))
            ok, why = resize_bounded(arg, c, body, pos, end)
            L.check(ok, 'F6cxx.resize-bounded', key, f.site(c),
                    'vector resize count `%s` is not bounded by an expression in `%s - %s` (%s): a few input bytes can '
                    'request an allocation out of proportion to the input' % (arg.text if arg else '', end, pos, why),
                    c.text)
            # the limit test, when the function has a `max` parameter
            if any(n_ == 'max' for n_, _ in f.params) and arg is not None:
                a = arg.strip()
                limited = any(kind.startswith('early-exit') and limit_guard(cond, pol, a.text) for cond, pol, kind in
                              dominating_guards(c, body))
                L.check(limited, 'F6cxx.limit-before-resize', key, f.site(c),
                        'resize is not dominated by `%s > max -> return false` (limited arrays must reject counts over '
                        'the limit)' % a.text, c.text)
        # ---- no `return true` after a failed callee that may have advanced the cursor
        for ifs in body.find('IfStmt'):
            cond, then, els = if_parts(ifs)
            c0 = cond.strip()
            if c0.kind == 'UnaryOperator' and c0.opcode == '!':
                call = c0.kids[0].strip()
                if call.kind in ('CallExpr', 'CXXMemberCallExpr') and any(is_ref(a, pos) for a in call.kids[1:]):
                    rets = [r for r in then.find('ReturnStmt')]
                    bad = [r for r in rets if r.kids and r.kids[0].strip().kind == 'CXXBoolLiteralExpr'
                           and r.kids[0].strip().value is True]
                    key = '%s|%s' % (f.key(), nows(cond.text))
                    if bad:
                        # accepted when the branch first restores the cursor to a snapshot taken before the call
                        restores = [x for x in then.walk() if x.bin and x.bin[0] == '=' and is_ref(x.bin[1], pos)
                                    and is_snapshot(x.bin[2], pos, body)]
                        if restores:
                            bad = []
                    L.check(not bad, 'F6cxx.no-true-after-failed-callee', key, f.site(ifs),
                            'returns true after `%s` failed although the callee takes the cursor by reference and may '
                            'have advanced it (a truncated trailing element is accepted)' % call.text, ifs.text[:160])
    L.floor('F6cxx.cursor-write-guarded', n_writes, 7)
    L.floor('F6cxx.read-guarded', n_reads, 4)
    L.floor('F6cxx.resize-bounded', n_resize, 3)
    L.floor('F6cxx.counted-loop', n_loops, 4)
    return rules


def covered(amount, stmt, guards, pos, end, body):
    at = nows(amount.text)
    for cond, pol, kind in guards:
        g = remaining_guard(cond, pol, pos, end)
        if g is None:
            continue
        if kind != 'early-exit:false':
            continue
        gt = nows(g.text)
        w = enclosing(stmt, 'WhileStmt')
        inside = False
        p_ = cond.parent
        while p_ is not None:
            if p_ is w:
                inside = True
            p_ = p_.parent
        if gt == at and (w is None or inside):
            return True, 'exact'            # a per-iteration guard, or no loop at all
        if w is not None:
            cl = counted_loop(w)
            if cl and gt in ('%s*%s' % (cl[0], at), '%s*%s' % (at, cl[0])):
                return True, 'n * width covers a counted loop'
    return False, 'no covering guard among %d dominating condition(s)' % len(guards)


def is_snapshot(value, pos, body):
    """`value` is a local `const uint8_t* s = pos;` never written afterwards: an earlier cursor position."""
    v = value.strip()
    if v.kind != 'DeclRefExpr':
        return False
    decls = [d for d in body.find('VarDecl') if d.name == v.ref]
    if len(decls) != 1 or not decls[0].kids or not is_ref(decls[0].kids[-1], pos):
        return False
    if (decls[0].type or '').rstrip().endswith('&'):
        return False        # a reference to the cursor is the cursor itself, not a saved position: restoring from it restores nothing
    for x in body.walk():
        b = x.bin
        if b and b[0] in ('=', '+=', '-=') and is_ref(b[1], v.ref):
            return False
        if x.kind == 'UnaryOperator' and x.opcode in ('++', '--') and is_ref(x.kids[0], v.ref):
            return False
    return True


def uncast(n):
    n = n.strip()
    while n.kind in ('CXXFunctionalCastExpr', 'CStyleCastExpr', 'CXXStaticCastExpr', 'CXXUnresolvedConstructExpr') and n.kids:
        n = n.kids[-1].strip()
    return n


def aligned_guard(value, guards, pos, end, body):
    v = value.strip()
    if v.kind != 'DeclRefExpr':
        return False
    name = v.ref
    # the variable must be initialised from align<A>(pos)
    init_ok = False
    for d in body.find('VarDecl'):
        if d.name == name and d.kids and nows(d.kids[-1].text).startswith('align<') and \
                nows(d.kids[-1].text).endswith('(%s)' % pos):
            init_ok = True
    if not init_ok:
        return False
    for cond, pol, kind in guards:
        c = cond.strip()
        if kind == 'early-exit:false' and pol is False and c.kind == 'BinaryOperator':
            if c.opcode == '>' and is_ref(c.kids[0], name) and is_ref(c.kids[1], end):
                return True
            if c.opcode == '<' and is_ref(c.kids[1], name) and is_ref(c.kids[0], end):
                return True
    return False


def read_width(arg, f):
    a = arg.strip()
    if a.kind == 'UnaryOperator' and a.opcode == '*':
        t = a.kids[0].strip().type or ''
        return t.replace('const ', '').replace('*', '').strip()
    t = (a.type or '').replace('const ', '').replace('&', '').strip()
    return t


def resize_bounded(arg, call, body, pos, end):
    if arg is None:
        return False, 'no argument'
    a = arg.strip()
    if a.kind == 'IntegerLiteral' and int(a.value) == 0:
        return True, 'constant 0'
    if pos is not None and mentions_remaining(a, pos, end):
        return True, 'expression in end - pos'
    if a.kind == 'DeclRefExpr':
        for d in body.find('VarDecl'):
            if d.name == a.ref and d.kids and mentions_remaining(d.kids[-1], pos, end):
                return True, 'initialised from end - pos'
        for cond, pol, kind in dominating_guards(call, body):
            b = cond.bin
            if kind.startswith('early-exit') and pol is False and b is not None and b[0] in ('<', '<=') \
                    and is_ref(uncast(b[2]), a.ref) and mentions_remaining(b[1], pos, end):
                b = ({'<': '>', '<=': '>='}[b[0]], b[2], b[1])          # remaining < n  ==  n > remaining
            if kind.startswith('early-exit') and pol is False and b is not None and b[0] in ('>', '>=') \
                    and is_ref(uncast(b[1]), a.ref) and mentions_remaining(b[2], pos, end):
                # the comparison must be unsigned at full width: a signed comparison lets a counter with the top bit set
                # (negative signed sizer, u64 >= 2^63) pass and reach resize() with a value near SIZE_MAX
                lhs = b[1].strip()
                lhs_ok = lhs.kind == 'DeclRefExpr' or any(t in (lhs.type or '') for t in ('size_t', 'unsigned long', 'uint64_t'))
                if is_remaining(b[2], pos, end) and lhs_ok:
                    return True, 'guarded against size_t(end - pos)'
                return False, ('the guard `%s` compares as signed or at reduced width: a count with the top bit set passes it'
                               % cond.text)
    return False, 'count comes straight from the input'


def limit_guard(cond, pol, name):
    b = cond.bin
    return (pol is False and b is not None and b[0] == '>' and nows(b[1].text) == nows(name)
            and nows(b[2].text) == 'max')


def cursor_passing(cx, L):
    """do_decode_in_place takes the cursor by value, every other decode helper by reference."""
    n = 0
    for f in cx.funcs:
        if not (f.node.file or '').endswith('detail/decoder.hpp') or not f.name.startswith('do_decode'):
            continue
        types = [t for _, t in f.params]
        by_ref = CURSOR_T in types
        n += 1
        want_ref = f.name != 'do_decode_in_place'
        L.check(by_ref == want_ref, 'C07.cursor-passing-mode', f.key(), f.site(),
                '%s must take the cursor %s' % (f.name, 'by reference (it consumes input)' if want_ref else
                                                'by value (the generator advances by the static slot size afterwards)'),
                f.sig)
    L.floor('C07.cursor-passing-mode', n, 8)


def exactness(cx, L):
    msg = [f for f in cx.funcs if (f.node.file or '').endswith('detail/message.hpp') and f.name == 'decode']
    L.floor('C07.exactness', len(msg), 4)
    core = [f for f in msg if [t for _, t in f.params] == ['const void *', 'size_t'] and f.template_params]
    if len(core) != 1:
        raise AnalysisError('message::decode<E>(const void*, size_t) not found (found %d)' % len(core))
    f = core[0]
    size = f.params[1][0]
    rets = list(f.body.find('ReturnStmt'))
    detail = rets[0].text if rets else ''
    ok, why = False, 'return expression is not a conjunction of the decode result and an all-consumed test'
    vars_ = {d.name: d for d in f.body.find('VarDecl')}

    def init(name):
        d = vars_.get(name)
        return nows(d.kids[-1].text) if d is not None and d.kids else None

    # the decode call and the roles of its arguments
    calls = [c for c in f.body.find('CallExpr') if 'message_impl<T>::templatedecode<E>' in nows(c.kids[0].text)]
    if len(calls) != 1 or len(calls[0].kids) != 4:
        raise AnalysisError('message::decode<E>: call of message_impl<T>::decode<E>(x, pos, end) not recognised')
    cursor = calls[0].kids[2].strip()
    if cursor.kind != 'DeclRefExpr' or cursor.ref not in vars_:
        raise AnalysisError('message::decode<E>: the cursor passed to message_impl is not a local variable')
    cur = cursor.ref
    start = init(cur)                                   # static_cast<const uint8_t*>(data)
    end_txt = nows(calls[0].kids[3].text)               # data_ + size   or a local holding it
    end_ok = end_txt in (cur + '+' + size, size + '+' + cur, start + '+' + size) or init(end_txt) in (cur + '+' + size, size + '+' + cur,
                                                                                                       start + '+' + size)
    L.check(end_ok, 'C07.exactness', f.key() + '|end', f.site(calls[0]),
            'the end pointer handed to the decoder must be start + size', calls[0].text)

    def consumed(n):     # the number of bytes read: cursor - start (directly or via a local)
        t = nows(n.text)
        return t in (cur + '-' + start,) or (n.strip().kind == 'DeclRefExpr' and init(n.strip().ref) in
                                             (cur + '-' + start, cur + '-static_cast<constuint8_t*>(' + f.params[0][0] + ')'))

    def is_end(n):
        t = nows(n.text)
        return t == end_txt or t in (cur + '+' + size,) or (n.strip().kind == 'DeclRefExpr' and init(n.strip().ref) in
                                                             (cur + '+' + size, start + '+' + size))

    def all_consumed(n):
        """'exact' | 'lower-bound' | None for a test that everything was consumed."""
        n = n.strip()
        if n.kind == 'UnaryOperator' and n.opcode == '!':
            b = n.kids[0].bin
            if b and b[0] == '<' and ((consumed(b[1]) and nows(b[2].text) == size) or (is_ref(b[1], cur) and is_end(b[2]))):
                return 'lower-bound'
            return None
        b = n.bin
        if not b:
            return None
        op, l, r = b
        pairs = [(l, r), (r, l)] if op == '==' else [(l, r)]
        for x, y in pairs:
            if (consumed(x) and nows(y.text) == size) or (is_ref(x, cur) and is_end(y)):
                return 'exact' if op == '==' else ('lower-bound' if op == '>=' else None)
        return None

    # every `return` that can yield true: what is known there (dominating guards) together with the conjuncts of the returned
    # expression must contain the success of the decoder and an all-consumed test (`if (!ok) return false; return n == size;`
    # and `return ok && n == size;` are the same thing)
    from ..cxxlib import guards_at, atomise

    def is_success(x):
        x = x.strip()
        return (x.kind == 'DeclRefExpr' and x.ref in vars_ and 'message_impl<T>::templatedecode<E>' in (init(x.ref) or '')) or x is calls[0] \
            or x is calls[0].strip()
    verdicts = []
    for r in rets:
        if not r.kids:
            continue
        v = r.kids[0].strip()
        if v.kind == 'CXXBoolLiteralExpr' and v.value is False:
            continue
        atoms = atomise([(v, True, 'returned')]) + guards_at(r, f.body)
        succ = any(pol is True and is_success(a) for a, pol, _ in atoms)
        tests = [all_consumed(a) for a, pol, _ in atoms if pol is True]
        if succ and 'exact' in tests:
            verdicts.append(True)
        elif succ and 'lower-bound' in tests:
            # cursor >= end is "all consumed" only under the invariant cursor <= end, which is what the
            # guard-dominance obligations of this run establish
            inv = not any(o.status == 'bad' and o.rule.startswith('F6cxx.cursor-write') for o in L.obligations)
            verdicts.append(inv)
            if not inv:
                why = 'the test is only a lower bound (cursor >= end) and the invariant cursor <= end is not ' \
                      'established: a cursor write is unguarded'
        else:
            verdicts.append(False)
            detail = r.text
    ok = bool(verdicts) and all(verdicts)
    L.check(ok, 'C07.exactness', f.key(), f.site(),
            'message::decode<E>(data, size) must return true only if the decoder succeeded and exactly `size` bytes '
            'were consumed (%s)' % why, detail)
    # the three other overloads only delegate to it; nobody else calls message_impl<T>::decode in message.hpp
    for g in msg:
        if g is f:
            continue
        stmts = stmts_of(g.body)
        ok = len(stmts) == 1 and stmts[0].kind == 'ReturnStmt' and re.match(r'^returndecode<\w+>\(', nows(stmts[0].text))
        L.check(bool(ok), 'C07.decode-funnel', g.key(), g.site(),
                'convenience overload must only delegate to decode<E>(data, size) (the exactness conjunct lives there)',
                g.body.text[:120])
    callers = [g for g in cx.funcs if (g.node.file or '').endswith('detail/message.hpp') and g.body is not None
               and 'message_impl<T>::templatedecode<' in nows(g.body.text)]
    L.check([g.key() for g in callers] == [f.key()], 'C07.decode-funnel', 'message.hpp|callers-of-message_impl::decode',
            f.site(), 'only message::decode<E>(const void*, size_t) may call message_impl<T>::decode directly',
            ', '.join(g.key() for g in callers))


def generated_decode(ctx, L):
    """E8: generate_struct_decode / generate_union_decode emit only checked helpers."""
    m = ctx.py.mod('prophyc.generators.cpp_full')
    helpers = set(f.name for f in ctx.cxx.funcs if (f.node.file or '').endswith('detail/decoder.hpp')
                  and f.name.startswith('do_decode'))
    if 'do_decode_advance' not in helpers or 'do_decode' not in helpers:
        raise AnalysisError('decoder.hpp no longer declares the do_decode* helper family')
    fs = m.func('generate_struct_decode')
    n = 0
    for e in templ.string_templates(fs.node):
        t = e.text
        if 'pos' not in t and 'do_' not in t:
            continue
        n += 1
        calls = templ.cxx_calls(t)
        top = calls[0][0] if calls else ''
        ok = top in helpers and not templ.assigns_cursor(t)
        L.check(ok, 'E8.decode-checked-helpers', 'generate_struct_decode|' + t.strip(), fs.site(e.node),
                'generated struct decode statement must be a single call of a checked do_decode* helper and never '
                'write the cursor itself', t.strip())
    L.floor('E8.decode-checked-helpers', n, 10)
    # the statements are conjoined with && so that the first failure stops the chain
    joins = [j for j in ast.walk(fs.node) if isinstance(j, ast.Call) and isinstance(j.func, ast.Attribute)
             and j.func.attr == 'join' and isinstance(j.func.value, ast.Constant)]
    L.check(len(joins) == 1 and '&&' in joins[0].func.value.value, 'E8.decode-checked-helpers',
            'generate_struct_decode|join', fs.site(), 'member decodes must be conjoined with && (short-circuit on failure)',
            unparse(joins[0]) if joins else '')
    # limited array: in-place decode followed by a checked advance of the static byte size
    _, loop = templ.member_loop(fs)
    lim = [b for s in loop.body if isinstance(s, ast.If) for b in templ.if_chain(s)
           if any(pol and unparse(t).endswith('.is_limited') for t, pol in b.guards[-1:])]
    if len(lim) != 1:
        raise AnalysisError('generate_struct_decode: is_limited branch not found')
    em = [e for e in lim[0].emits()]
    seq = [templ.cxx_calls(e.text)[0][0] for e in em if templ.cxx_calls(e.text)]
    adv = [e for e in em if e.text.startswith('do_decode_advance')]
    L.check(seq == ['do_decode_in_place', 'do_decode_advance'] and adv and adv[0].args and
            adv[0].args[0].endswith('.byte_size'), 'E8.decode-checked-helpers', 'generate_struct_decode|limited',
            fs.site(lim[0].node), 'a limited array must be decoded in place and then skipped by a checked advance of its '
            'static byte_size', '; '.join(e.text for e in em))
    # limited sizer passes the limit to do_decode_resize
    rs = [e for e in templ.string_templates(fs.node) if e.text.startswith('do_decode_resize')]
    with_max = [e for e in rs if templ.cxx_calls(e.text)[0][2] == 4]
    L.check(len(rs) == 2 and len(with_max) == 1 and with_max[0].args[1].endswith('.size'),
            'E8.decode-checked-helpers', 'generate_struct_decode|resize-limit', fs.site(),
            'the sizer of a limited array must pass the limit (b.size) as `max` to do_decode_resize',
            '; '.join(e.text for e in rs))

    fu = m.func('generate_union_decode')
    texts = [e for e in templ.string_templates(fu.node) if 'pos' in e.text or 'return' in e.text or 'switch' in e.text
             or 'default' in e.text]
    k = 0
    for e in texts:
        t = e.text.strip()
        if not t or t in ('{', '}'):
            continue
        k += 1
        ok = not templ.assigns_cursor(t)
        for name, _, _ in templ.cxx_calls(t):
            if name.startswith('do_') and name not in helpers:
                ok = False
        if 'do_decode' in t and 'return do_decode_advance' not in t:
            ok = ok and bool(re.search(r'if \(!do_decode\w*(<E>)?\(.*\)\) return false;', t))
        L.check(ok, 'E8.union-decode-paths', 'generate_union_decode|' + t, fu.site(e.node),
                'every generated union decode step must be `if (!do_decode*(...)) return false;` (or the final checked '
                'advance) and never write the cursor', t)
    allt = ' '.join(e.text for e in texts)
    L.check('default: return false;' in allt, 'E8.union-decode-paths', 'generate_union_decode|default', fu.site(),
            'unknown discriminators must be rejected (`default: return false;`)', allt[:200])
    L.check('return do_decode_advance(' in allt, 'E8.union-decode-paths', 'generate_union_decode|tail', fu.site(),
            'a union decode must end in a checked advance over the rest of the fixed slot', allt[:200])
    L.floor('E8.union-decode-paths', k, 4)
