"""C02 - Python decode inverts encode and consumes exactly the message (structural clauses)."""
import ast
import re

from ..core import AnalysisError
from .shared_py import inn
from ..pyfront import unparse, path_conditions, norm_key
from ..pyfront import ws  # noqa: E402,F401
from . import shared_py as P


def run(ctx, L, tier):
    P.f1_struct_walkers(ctx, L, sides=('encode', 'decode'))
    P.f15_optional_aware(ctx, L)
    P.f6_python_guards(ctx, L)
    P.f6_count_guard(ctx, L)
    P.codec_dispatch(ctx, L)
    P.f16_runtime_layout(ctx, L)
    optional_decode(ctx, L)
    union_decode(ctx, L)
    terminal_clause(ctx, L)
    decode_writes(ctx, L)
    array_decoders(ctx, L)
    P.f1_optional_encode(ctx, L)     # presence is decided by `is None` on both sides
    return sorted(set(o.rule for o in L.obligations))


def optional_decode(ctx, L):
    """decode_optional mirrors encode_optional: flag, then value at +_OPTIONAL_ALIGNMENT; absent consumes the
    whole static slot _OPTIONAL_ALIGNMENT + _SIZE (= _OPTIONAL_SIZE)."""
    f = ctx.py.mod('prophy.descriptor').func('decode_optional')
    L.check(P.has(f, 'value, _ = type_._optional_type._decode(data, pos, endianness)'), 'F1.optional-mirror',
            'decode_optional|flag', f.site(), 'the flag is decoded first with the optional flag type', '')
    L.check(P.has(f, 'opt_alignment = type_._OPTIONAL_ALIGNMENT') or any('_OPTIONAL_ALIGNMENT' in unparse(r.value) for r in ast.walk(f.node)
                                                                          if isinstance(r, ast.Return) and r.value is not None),
            'F1.optional-mirror', 'decode_optional|gap-source', f.site(),
            'the value offset inside the slot must be _OPTIONAL_ALIGNMENT (what encode pads the flag to), not the decoded '
            'size of the flag', '')
    rets = [r for r in ast.walk(f.node) if isinstance(r, ast.Return)]
    present = [r for r in rets if any(unparse(t) == 'value' and p for t, p, h in path_conditions(f.module, f, r))]
    absent = [r for r in rets if any(unparse(t) == 'value' and not p for t, p, h in path_conditions(f.module, f, r))]
    ok = len(absent) == 1 and (P.sem_is(f, absent[0].value, 'type_._OPTIONAL_ALIGNMENT + type_._SIZE') or
                               P.sem_is(f, absent[0].value, 'type_._OPTIONAL_SIZE'))
    L.check(ok, 'F1.optional-mirror', 'decode_optional|absent-consumes-slot', f.site(absent[0] if absent else None),
            'an absent optional must consume the full static slot (_OPTIONAL_ALIGNMENT + _SIZE), the number of zero bytes '
            'encode_optional emits', unparse(absent[0].value) if absent else '')
    ok = len(present) == 1 and P.sem_is(
        f, present[0].value, 'type_._OPTIONAL_ALIGNMENT + type_._decode(parent, name, type_.__bases__[0], data, '
        'pos + type_._OPTIONAL_ALIGNMENT, endianness, len_hints)')
    L.check(ok, 'F1.optional-mirror', 'decode_optional|present', f.site(present[0] if present else None),
            'a present optional decodes the base type at pos + _OPTIONAL_ALIGNMENT and consumes that gap plus the value',
            P.sem_text(f, present[0].value) if present else '')
    absent_set = [c for c in f.walk() if isinstance(c, ast.Call) and unparse(c) == 'setattr(parent, name, None)']
    L.check(len(absent_set) == 1 and any(unparse(t) == 'value' and not p for t, p, h in
                                         path_conditions(f.module, f, absent_set[0])), 'F1.optional-mirror',
            'decode_optional|absent-clears', f.site(), 'a zero flag must clear the field (None)', '')


def union_decode(ctx, L):
    f = ctx.py.mod('prophy.composite').func('union._decode_impl')
    for k, src, why in (
            ('disc', 'disc, _ = self._discriminator_type._decode(data, pos, endianness)', 'the discriminator is decoded at pos with the discriminator type'),
            ('lookup', 'field = self._get_discriminated_field(disc)', 'the arm is looked up by discriminator value (unknown values rejected)'),
            ('select', 'self._discriminated = field', 'the decoded arm becomes the discriminated one'),
            ('arm', 'field.decode_fcn(self, field.name, field.type, data, pos + self._ALIGNMENT, endianness, {})',
             'the arm is decoded at pos + union alignment, mirroring the ljust(_ALIGNMENT) of encode'),
            ('consumed', 'return self._SIZE', 'a union consumes its static size')):
        L.check(P.has(f, src), 'F1.union-mirror', 'union._decode_impl|' + k, f.site(), why + ' (expected `%s`)' % src, '')
    g = ctx.py.mod('prophy.composite').func('union._get_discriminated_field')
    L.check(P.has(g, "raise ProphyError('unknown discriminator: {!r}'.format(discriminator))") and
            'if field.discriminator == discriminator:' in unparse(g.node), 'F1.union-mirror', 'union._get_discriminated_field',
            g.site(), 'unknown discriminators raise ProphyError; known ones select by equality', '')


def terminal_clause(ctx, L):
    comp = ctx.py.mod('prophy.composite')
    f = comp.func('struct._decode_impl')
    DECODE_IMPL = ['self', 'data', 'pos', 'endianness', 'terminal']
    tests = [n for n in f.node.body if isinstance(n, ast.If) and P.sem_is(f, n.test, 'terminal and cursor < len(data)', DECODE_IMPL)
             and set(re.sub(r'^__v\d+_', '', x.id) for x in ast.walk(n.test) if isinstance(x, ast.Name)) == {'terminal', 'pos', 'len', 'data'}
             and isinstance(n.body[-1], ast.Raise)]
    L.check(len(tests) == 1, 'C02.terminal-check', 'struct._decode_impl|unread-bytes', f.site(),
            'a terminal decode must reject unread trailing bytes (`terminal and pos < len(data)` -> ProphyError)', '')
    L.check(P.has(f, 'return pos - start_pos') and P.has(f, 'start_pos = pos'), 'C02.terminal-check',
            'struct._decode_impl|consumed', f.site(), 'consumed length is the cursor distance', '')
    u = comp.func('union._decode_impl')
    tests = [n for n in u.node.body if isinstance(n, ast.If) and P.sem_is(u, n.test, 'terminal and len(data) - pos > self._SIZE', DECODE_IMPL)
             and isinstance(n.body[-1], ast.Raise)]
    L.check(len(tests) == 1, 'C02.terminal-check', 'union._decode_impl|unread-bytes', u.site(),
            'a terminal union decode must reject bytes beyond the static size', '')
    for q in ('struct.decode', 'union.decode'):
        d = comp.func(q)
        L.check(P.has(d, 'return self._decode_impl(data, 0, endianness, terminal=True)'), 'C02.terminal-check', q, d.site(),
                'the public decode starts at 0 and is terminal', unparse(d.node))
    # every nested decode passes terminal=False
    n = 0
    for m in P.runtime_modules(ctx):
        for g in m.all_funcs():
            if g.qualname in ('struct.decode', 'union.decode'):
                continue
            for c in g.walk():
                if isinstance(c, ast.Call) and isinstance(c.func, ast.Attribute) and c.func.attr == '_decode_impl':
                    kws = {k.arg: unparse(k.value) for k in c.keywords}
                    if 'terminal' in kws or len(c.args) == 4 and 'composite' in g.qualname + unparse(c):
                        n += 1
                        L.check(kws.get('terminal') == 'False', 'C02.terminal-check', '%s|%s' % (g.fq, norm_key(g, c)), g.site(c),
                                'a nested decode must pass terminal=False (trailing bytes belong to the enclosing message)',
                                unparse(c))
    L.floor('C02.terminal-check', n, 4)


def decode_writes(ctx, L):
    """(e) decode writes only decoded values, and only through the checked property setters."""
    d = ctx.py.mod('prophy.descriptor')
    n = 0
    for f in d.all_funcs():
        for c in f.walk():
            if isinstance(c, ast.Attribute) and c.attr in ('_fields', '_values'):
                L.bad('C02.decode-writes', '%s|%s' % (f.fq, c.attr), f.site(c),
                      'the field codecs must not touch %s directly: values decoded from the wire have to pass the property '
                      'setter (its _check bounds limited bytes / enums / ranges)' % c.attr, unparse(d.parent(c)))
            if not (isinstance(c, ast.Call) and unparse(c.func) == 'setattr'):
                continue
            n += 1
            key = '%s|%s' % (f.fq, norm_key(f, c))
            if len(c.args) != 3 or unparse(c.args[0]) != 'parent' or unparse(c.args[1]) != 'name':
                L.bad('C02.decode-writes', key, f.site(c), 'a field codec may only set its own field on its parent', unparse(c))
                continue
            v = c.args[2]
            vs = unparse(v)
            if vs == 'None':
                L.ok('C02.decode-writes', key, f.site(c), 'clears an absent optional')
            elif vs == 'True':
                conds = [(unparse(t), p) for t, p, h in path_conditions(f.module, f, c)]
                composite_only = any(p and re.search(r'is_composite\(', t) for t, p in conds)
                L.check(composite_only, 'C02.decode-writes', key, f.site(c),
                        'decode_optional writes the constant True into the field for every optional kind; only composites need '
                        'enabling. For an optional enum without an enumerator equal to 1 the enum _check(True) rejects a valid '
                        'encoding ({E* e}, E = {A=0, B=2})', unparse(c))
            else:
                # must be the first element of a `value, size = type_._decode(...)` unpacking in the same function
                srcs = [a for a in f.walk() if isinstance(a, ast.Assign) and isinstance(a.targets[0], ast.Tuple)
                        and unparse(a.targets[0].elts[0]) == vs and isinstance(a.value, ast.Call)
                        and unparse(a.value.func) == 'type_._decode']
                L.check(len(srcs) == 1, 'C02.decode-writes', key, f.site(c),
                        'the value stored must be exactly what type_._decode returned', unparse(c))
    L.floor('C02.decode-writes', n, 4)
    for q, src in (('decode_array', 'return getattr(parent, name)._decode_impl(data, pos, endianness, len_hints.get(name))'),
                   ('decode_composite', 'return getattr(parent, name)._decode_impl(data, pos, endianness, terminal=False)'),
                   ('decode_scalar', 'return size'), ('decode_bytes', 'return size')):
        f = d.func(q)
        L.check(P.has(f, src), 'C02.decode-codecs', q, f.site(), 'field decoder must be/return `%s`' % src, unparse(f.node))


def array_decoders(ctx, L):
    cont = ctx.py.mod('prophy.container')
    f = cont.func('decode_scalar_array')
    src = ws(unparse(f.node))
    for piece, why in (
            ('if count is None: items, remainder = divmod(len(data) - pos, tp._SIZE) count = items + bool(remainder)',
             'a greedy scalar array takes all remaining bytes; a trailing partial element must be attempted (and rejected), '
             'never silently dropped'),
            ('for _ in xrange(count): value, size = tp._decode(data, pos + cursor, endianness) cursor += size values.append(value)',
             'elements are decoded consecutively with the element codec'),
            ('return (values, cursor)', 'returns the values and the bytes consumed')):
        alts = [piece]
        if 'bool(remainder)' in piece:
            # the same count, spelled with a conditional (+1 exactly when a partial element remains)
            alts += [piece.replace('count = items + bool(remainder)', c) for c in (
                'count = items + 1 if remainder else items', 'count = items + (1 if remainder else 0)',
                'count = items if not remainder else items + 1')]
        L.check(any(a in src for a in alts), 'C02.array-decode', 'decode_scalar_array|' + piece[:40], f.site(), why, '')
    # origin of the decoded values: every list the function returns is filled only from the element codec (a shortcut that
    # builds the values another way bypasses signedness / byte order / enum lookup of the element type)
    n_ret = 0
    for r in [x for x in f.walk() if isinstance(x, ast.Return)]:
        n_ret += 1
        v = r.value.elts[0] if isinstance(r.value, ast.Tuple) and len(r.value.elts) == 2 else None
        ok, why = False, 'the return value is not a (values, size) pair'
        if isinstance(v, ast.List) and not v.elts:
            ok = True
        elif isinstance(v, ast.Name):
            ok, why = True, ''
            for x in f.walk():
                if isinstance(x, ast.Assign) and any(v.id in [n.id for n in ast.walk(t) if isinstance(n, ast.Name)] for t in x.targets):
                    if not (len(x.targets) == 1 and isinstance(x.targets[0], ast.Name) and isinstance(x.value, ast.List) and not x.value.elts):
                        ok, why = False, '`%s` is assigned `%s`' % (v.id, unparse(x.value))
                elif isinstance(x, ast.AugAssign) and isinstance(x.target, ast.Name) and x.target.id == v.id:
                    ok, why = False, '`%s` is extended by `%s`' % (v.id, unparse(x.value))
                elif (isinstance(x, ast.Call) and isinstance(x.func, ast.Attribute) and isinstance(x.func.value, ast.Name)
                      and x.func.value.id == v.id):
                    src_ok = False
                    if x.func.attr == 'append' and len(x.args) == 1 and isinstance(x.args[0], ast.Name):
                        defs = [a for a in f.walk() if isinstance(a, ast.Assign) and x.args[0].id in
                                [n.id for t in a.targets for n in ast.walk(t) if isinstance(n, ast.Name)]]
                        src_ok = bool(defs) and all(isinstance(a.targets[0], ast.Tuple) and isinstance(a.targets[0].elts[0], ast.Name)
                                                    and a.targets[0].elts[0].id == x.args[0].id and isinstance(a.value, ast.Call)
                                                    and unparse(a.value.func) == f.params[0] + '._decode' for a in defs)
                    if not src_ok:
                        ok, why = False, '`%s` is filled by `%s`' % (v.id, unparse(x))
        else:
            why = 'the returned values are `%s`' % (unparse(v) if v is not None else unparse(r.value))
        L.check(ok, 'C02.array-decode', 'decode_scalar_array|origin|' + norm_key(f, r),
                f.site(r), 'decoded elements must come from the element codec `%s._decode` only: %s' % (f.params[0], why), unparse(r))
    L.check(n_ret >= 1, 'C02.array-decode', 'decode_scalar_array|returns', f.site(), 'the function returns (values, size)', '')
    for q, piece in (('fixed_scalar_array._decode_impl', 'self[:], size = decode_scalar_array(self._TYPE, data, pos, endianness, len(self))'),
                     ('bound_scalar_array._decode_impl', 'self[:], size = decode_scalar_array(self._TYPE, data, pos, endianness, len_hint)')):
        g = cont.func(q)
        L.check(P.has(g, piece), 'C02.array-decode', q, g.site(), 'scalar arrays decode through decode_scalar_array with '
                'their own element type and count (`%s`)' % piece, unparse(g.node))
    g = cont.func('fixed_composite_array._decode_impl')
    s = ws(unparse(g.node))
    L.check(inn('for elem in self: cursor += elem._decode_impl(data, pos + cursor, endianness, terminal=False)', s) and inn('return cursor', s),
            'C02.array-decode', 'fixed_composite_array._decode_impl', g.site(), 'every element is decoded consecutively', s)
    g = cont.func('bound_composite_array._decode_impl')
    s = ws(unparse(g.node))
    L.check('del self[:]' in s, 'C02.array-decode', 'bound_composite_array._decode_impl|clear', g.site(),
            'previous elements are dropped before decoding', '')
    whiles = [w for w in g.walk() if isinstance(w, ast.While)]
    L.check(len(whiles) == 1 and P.knows(g, whiles[0], 'not self._SIZE and not self._BOUND', True)
            and inn('while pos + cursor < len(data): cursor += self.add()._decode_impl(data, pos + cursor, endianness, terminal=False)', ws(unparse(whiles[0]))),
            'C02.array-decode', 'bound_composite_array._decode_impl|greedy', g.site(),
            'a greedy composite array decodes elements until the input is exhausted', s)
    L.check(inn('for _ in xrange(len_hint): cursor += self.add()._decode_impl(data, pos + cursor, endianness, terminal=False)', s),
            'C02.array-decode', 'bound_composite_array._decode_impl|counted', g.site(),
            'a sized composite array decodes exactly len_hint elements', s)
