"""C13 - prophyc always terminates with outputs or a designed diagnostic (structural clauses)."""
import ast
import re

from ..core import AnalysisError
from .shared_py import inn
from . import shared_py as P
from ..pyfront import unparse, norm_key
from .. import excflow

SCOPE = ('prophyc', 'prophyc.__main__', 'prophyc.options', 'prophyc.file_processor', 'prophyc.model', 'prophyc.calc',
         'prophyc.patch', 'prophyc.six', 'prophyc.parsers.prophy', 'prophyc.parsers.isar', 'prophyc.generators.base',
         'prophyc.generators.python', 'prophyc.generators.cpp', 'prophyc.generators.cpp_full', 'prophyc.generators.prophy',
         'prophyc.generators.word_wrap')

REPO_EXC = {'ProphycError': 'Exception', 'model.ParseError': 'Exception', 'ModelError': 'Exception', 'calc.ParseError': 'Exception',
            'GenerateError': 'Exception', 'CyclicIncludeError': 'Exception', 'file_processor.FileNotFoundError': 'Exception'}

ALLOWED = ('ProphycError', 'SystemExit')


from ..pyfront import ws  # noqa: E402,F401  (whitespace-collapsed, rename/normal-form tolerant `in`)


def dispatch(ctx):
    py = ctx.py
    pp = py.mod('prophyc.parsers.prophy')
    calc = py.mod('prophyc.calc')
    ply_p = [f for f in pp.all_funcs() if re.match(r'^Parser\.(p_|t_)', f.qualname)]
    ply_c = [f for f in calc.all_funcs() if re.match(r'^Calc\.(p_|t_)', f.qualname)]
    if len(ply_p) < 40 or len(ply_c) < 8:
        raise AnalysisError('ply callbacks not found (%d, %d)' % (len(ply_p), len(ply_c)))
    patch = py.mod('prophyc.patch')
    actions = [f for f in patch.all_funcs() if f.qualname in ('_type', '_insert', '_remove', '_greedy', '_static', '_limited',
                                                              '_dynamic', '_struct', '_rename')]
    translate = [f for m in SCOPE if m.startswith('prophyc.generators') for f in py.mod(m).all_funcs()
                 if re.search(r'\.translate_\w+$', f.qualname)]
    calls = [f for m in SCOPE if m.startswith('prophyc.generators') for f in py.mod(m).all_funcs() if f.qualname.endswith('.__call__')]
    leaf = 'prophyc.file_processor:FileProcessor.process_leaf'
    d = {
        'file_processor_': ['prophyc.file_processor:FileProcessor.__call__'], 'file_parser': ['prophyc.file_processor:FileProcessor.__call__'],
        'self.process_content': ['prophyc.model:ModelParser.__call__'],
        ('prophyc.model:ModelParser.__call__', 'self.parser.parse'): ['prophyc.parsers.prophy:ProphyParser.parse', 'prophyc.parsers.isar:IsarParser.parse'],
        'parser.parse': ['prophyc.parsers.prophy:Parser.parse'],
        'self.yacc.parse': ply_p,
        ('prophyc.calc:Calc.eval', 'self.parser.parse'): ply_c,
        'self.parse_file': [leaf], 'process_file': [leaf],
        'self.patcher': ['prophyc.patch:patch'], 'action': actions,
        'serializer.serialize': ['prophyc.generators.base:GeneratorBase.serialize'],
        'self.check_nodes': ['prophyc.generators.cpp:CppGenerator.check_nodes', 'prophyc.generators.cpp_full:CppFullGenerator.check_nodes',
                             'prophyc.generators.base:GeneratorAbc.check_nodes'],
        'translator': calls, 'prerequisite_block_translator': calls, 'handler': translate,
        # the same callees when the local that holds them is folded into its use (normal form, N10)
        'translator_type()': calls, 'prerequisite_block_translator()': calls, '_actions.get(patch_.action)': actions,
        '_actions[patch_.action]': actions, 'self._get_translation_handler(node)': translate,
        'emit.error': ['prophyc:Emit.error'], 'emit_error': ['prophyc:Emit.error'], 'emit.warn': ['prophyc:Emit.warn'],
        'self.emit.warn': ['prophyc:Emit.warn'], 'warn': ['prophyc:Emit.warn', 'prophyc.model:null_warn'],
        'self.warn': ['prophyc:Emit.warn'], 'warn_emitter': ['prophyc:Emit.warn'],
        # argparse converts the ArgumentTypeError of its `type=` callables into parser.error() (stdlib behaviour, trusted)
        'parser.parse_args': ['prophyc.options:parse_options.ArgumentParser.error'],
        'patch.parse': ['prophyc.patch:parse'], 'patch.patch': ['prophyc.patch:patch'],
        'importer': [], 'import_breaker': [],
    }
    return d


FAMILIES = {'dependencies', 'calc_wire_stiffness', 'eval_int', 'defined_symbols', 'schema_repr', '_check_members_type',
            '_check_members_duplication', 'process_main', 'process_leaf', '_process_file', 'serialize', 'generate_padding',
            '_gen_padding_var', '_process_nodes', '_nodes_dispatcher', '_get_translation_handler', '_block_post_process',
            '_make_lines_splitter', '_move_includes_to_front', 'eval', 'make_lines', 'check_nodes'}

# reasoned suppressions: (function, construct) -> why the raise site cannot fire for any *input* (one named symbol each)
ALIGN = 'alignment >= 1: member alignments are builtin sizes (1/2/4/8, F4 tables), max() over them, `or 1`, or max(DISC_SIZE, ..)'
LEX = 'the token regex in the rule\'s docstring admits only digits of that base, so int() cannot fail (regex re-checked on this run)'
TUPLE2 = 'the unpacked value is a 2-tuple by construction on every path that reaches the statement'
ENV = 'I/O failure of the environment (permissions, disk, a file vanishing between validation and use): outside the input ' \
      'quantifier of the property; the path itself was validated by options.readable_file / readable_dir / os.path.isfile'
SAFE = {
    ('prophyc.generators.base:TranslatorBase._get_translation_handler', 'ANY AssertionError'):
        'every node class the front-ends produce at top level is a key of _translation_methods_map (re-checked on this run)',
    ('prophyc.generators.base:TranslatorBase._block_post_process', 'ANY KeyError'):
        'cls.block_template is a class attribute; every assignment of it in the generator modules is a string literal or a '
        'module-level literal template (re-checked on this run: C13a.literal-templates)',
    ('prophyc.generators.cpp_full:generate_struct_constructor.add_to_full', 'ANY KeyError'):
        'fmt is the literal default or a literal passed by the call sites in generate_struct_constructor (re-checked on this run: '
        'C13a.literal-templates)',
    ('prophyc.generators.base:_make_path', 'ANY AssertionError'):
        'extensions are the literal keys of top_level_translators, all starting with a dot (re-checked on this run); the output directory '
        'was validated by options.readable_dir (environment, outside the quantifier of the property)',
    ('prophyc.generators.cpp:_Padder.generate_padding', 'ANY AssertionError'):
        'callers pass member.padding under a `> 0` guard, alignment - DISC_SIZE under `alignment > DISC_SIZE`, or the constant 4; '
        'paddings are below the maximum alignment 8 (C08.gap-obligation / F9 rules check the guards)',
    ('prophyc.model:StructMember.__init__', 'ANY AssertionError'):
        'every constructor call site passes literal / bool-typed greedy and optional arguments and never combines array keywords with '
        'greedy/optional (C17.constructor-shape checks all call sites)',
    ('prophyc.file_processor:FileProcessor._process_file', 'CyclicIncludeError(_v0)'):
        'escapes only through process_main at top level, where no file is in progress (files[path] is None only while that file '
        'is being processed); nested occurrences are caught by p_include_def / make_include',
    ('prophyc.model:ModelNode.dependencies', "NotImplementedError('To be overridden in %s class.' % _v0.__class__.__name__)"):
        'abstract: every concrete node class overrides dependencies() (re-checked on this run)',
    ('prophyc.model:_Serializable.calc_wire_stiffness', "NotImplementedError('Abstract method to be overriden in %s' % _v0.__name__)"):
        'abstract: Typedef and _SerializableContainer override calc_wire_stiffness (re-checked on this run)',
    ('prophyc.file_processor:FileProcessor._process_file', "codecs.open(_v0, 'r', encoding='utf-8')"): ENV,
    ('prophyc.generators.base:_write_file', "codecs.open(_v0, 'w', encoding='utf-8')"): ENV,
    ('prophyc.patch:parse', "codecs.open(_v0, 'r', encoding='utf-8')"): ENV,
    ('prophyc.file_processor:FileProcessor.process_main', 'FileNotFoundError(_v0)'): ENV,
    ('prophyc.six:decode_string', "TypeError('Got text as %s, expected string.' % type(_v0).__name__)"):
        'callers pass XML attribute values / grammar tokens (str) or go through _check_string, which tests the type first',
    ('prophyc.calc:Calc.t_CONST10', 'int(_v0.value)'): LEX,
    ('prophyc.calc:Calc.t_CONST16', 'int(_v0.value, 16)'): LEX,
    ('prophyc.parsers.prophy:Parser.t_CONST10', 'int(_v0.value)'): LEX,
    ('prophyc.parsers.prophy:Parser.t_CONST16', 'int(_v0.value, 16)'): LEX,
    ('prophyc.parsers.prophy:Parser.t_CONST8', 'int(_v0.value, 8)'): LEX,
    ('prophyc.parsers.prophy:Parser.p_expression_name', 'ANY ValueError'):
        'constants of the prophy front-end hold str(<int>): every operator of the evaluator is integer-closed (C14.integer-closure)',
    ('prophyc.generators.cpp_full:generate_struct_encode', 'd, dcpptype = delimiters[m.name]'): TUPLE2,
    ('prophyc.generators.cpp_full:generate_struct_encode', '_v0, _v1 = _v2[_v3.name]'): TUPLE2,
    ('prophyc.model:evaluate_sizes.evaluate_member_size', '_v0.byte_size, _v0.alignment = _v1'): TUPLE2,
    ('prophyc.model:evaluate_sizes.evaluate_union_size', 'ANY ValueError'):
        'the only int() of the function converts a finite float quotient of sizes: it cannot raise ValueError (no string is converted here)',
    # every division of the two sizing functions divides by an alignment (an attribute `.alignment` of an evaluated member / node,
    # or the local maximum of such alignments): one reason for any spelling of the padding and round-up arithmetic
    ('prophyc.model:evaluate_sizes.evaluate_struct_size', r'DIVISOR ~ (^|\.)alignment$'): ALIGN,
    ('prophyc.model:evaluate_sizes.evaluate_union_size', r'DIVISOR ~ (^|\.)alignment$'): ALIGN,
    ('prophyc.model:_check_acyclic_dependencies', 'graph[dep]'):
        'dep is filtered by `dep in available`; available is the set of node names and every node name gets a graph entry',
    ('prophyc.model:_check_acyclic_dependencies', 'graph[start]'): 'start iterates over the keys of graph',
    ('prophyc.model:_check_acyclic_dependencies', '_v0, _v1 = _v2[-1]'): TUPLE2,
    ('prophyc.generators.cpp_full:generate_struct_encode', 'bound[m.name]'):
        'guarded by `elif m.name in bound` (the comprehension over `if m.name in bound` likewise)',
}


def run(ctx, L, tier):
    literal_templates(ctx, L)
    escapes(ctx, L)
    safe_rechecks(ctx, L)
    isar_none_flow(ctx, L)
    callbacks(ctx, L)
    from . import c13_progress
    c13_progress.run(ctx, L)
    return sorted(set(o.rule for o in L.obligations))


def literal_templates(ctx, L):
    """The two computed receivers of .format() that the escape analysis suppresses are literals on every path."""
    n = 0
    for modname in SCOPE:
        if not modname.startswith('prophyc.generators'):
            continue
        m = ctx.py.mod(modname)
        lits = set(t.id for st in m.tree.body if isinstance(st, ast.Assign) and isinstance(st.value, ast.Constant) and isinstance(st.value.value, str)
                   for t in st.targets if isinstance(t, ast.Name))
        for cq, c in m.classes.items():
            for st in c.body:
                if isinstance(st, ast.Assign) and any(isinstance(t, ast.Name) and t.id == 'block_template' for t in st.targets):
                    n += 1
                    v = st.value
                    ok = (isinstance(v, ast.Constant) and (v.value is None or isinstance(v.value, str))) or (isinstance(v, ast.Name) and v.id in lits) or \
                        (isinstance(v, ast.Call) and isinstance(v.func, ast.Attribute) and v.func.attr == 'format' and isinstance(v.func.value, ast.Constant)
                         and not v.keywords and all(isinstance(a, ast.Constant) or (isinstance(a, ast.Name) and a.id in lits) for a in v.args))
                    L.check(ok, 'C13a.literal-templates', '%s|%s.block_template' % (modname, cq), '%s:%d' % (m.rel, st.lineno),
                            'block_template is formatted with .format(): it must be a literal template, not computed text', ws(unparse(v))[:80])
    full = ctx.py.mod('prophyc.generators.cpp_full')
    g = full.func('generate_struct_constructor')
    a2f = full.func('generate_struct_constructor.add_to_full')
    d = a2f.node.args.defaults
    L.check(bool(d) and isinstance(d[-1], ast.Constant) and isinstance(d[-1].value, str), 'C13a.literal-templates', 'add_to_full|default', a2f.site(),
            'the default of fmt is a literal', '')
    for c in g.walk():
        if isinstance(c, ast.Call) and unparse(c.func) == 'add_to_full':
            extra = list(c.args[3:]) + [k.value for k in c.keywords if k.arg == 'fmt']
            for e in extra:
                n += 1
                # `'array<{0}, %s>' % m.size`: the one computed part is the array size, which reaches the generator only after
                # numeric evaluation succeeded (CppFullGenerator.check_nodes refuses nodes of unknown size, C12e), so it holds no braces
                sized = isinstance(e, ast.BinOp) and isinstance(e.op, ast.Mod) and isinstance(e.left, ast.Constant) and isinstance(e.left.value, str) \
                    and e.left.value.count('%') == 1 and ws(unparse(e.right)) == '%s.size' % (unparse(c.args[2]) if len(c.args) > 2 else 'm')
                L.check((isinstance(e, ast.Constant) and isinstance(e.value, str)) or sized, 'C13a.literal-templates', 'add_to_full|%s' % norm_key(g, c), g.site(c),
                        'fmt passed to add_to_full must be a literal template', ws(unparse(e)))
    L.floor('C13a.literal-templates', n, 6)


def escapes(ctx, L):
    cg = excflow.CallGraph(ctx.py, SCOPE, dispatch=dispatch(ctx), families=FAMILIES)
    ef = excflow.ExcFlow(cg, REPO_EXC, safe=SAFE)
    main = ctx.py.func('prophyc:main')
    res = ef.analyse([main])
    reached = set(f.fq for f in ef.funcs)
    must = {'prophyc.parsers.prophy:Parser.p_union_def', 'prophyc.parsers.isar:make_enum', 'prophyc.model:topological_sort',
            'prophyc.patch:_limited', 'prophyc.calc:Calc.p_expression_binop', 'prophyc.file_processor:FileProcessor._process_file',
            'prophyc.generators.cpp_full:generate_struct_encode', 'prophyc.generators.python:_form_struct_member',
            'prophyc.options:parse_options', 'prophyc.model:evaluate_sizes'}
    if not must <= reached:
        raise AnalysisError('call graph from prophyc.main lost anchors: %s' % sorted(must - reached))
    L.inventory('prophyc call graph', {'functions reachable from main': len(ef.funcs),
                                       'unresolved attribute calls': sorted(set('%s: %s' % u for u in cg.unresolved))[:80]})
    n = 0
    for (cls, key), e in sorted(res['prophyc:main'].items()):
        n += 1
        if cls in ALLOWED:
            L.ok('F7.main-escape', '%s|%s' % (cls, key), e.origin, 'designed channel')
            continue
        routes = ef.root_routes.get((cls, key), set())
        if cls == 'ModelError' and routes == {'prophyc:create_supplements'}:
            L.ok('F7.main-escape', '%s|%s' % (cls, key), e.origin, 'only via model.Include(basename, nodes) in create_supplements')
            L.suppress('F7.main-escape', '%s|%s' % (cls, key),
                       'reaches main only through the Include constructor in create_supplements: the name is a str, the members are '
                       'the ModelNode list a parser returned, and Include does not check duplicates; every other constructor call '
                       'runs inside error_on_exception')
            continue
        if cls == 'argparse.ArgumentTypeError':
            L.ok('F7.main-escape', '%s|%s' % (cls, key), e.origin, 'argparse type= callable')
            L.suppress('F7.main-escape', '%s|%s' % (cls, key), 'raised inside an argparse `type=` callable: argparse catches '
                       'ArgumentTypeError and calls parser.error(), which is routed to emit.error (stdlib behaviour, trusted)')
            continue
        if cls == 'Exception' and key.startswith('prophyc.patch:'):
            L.ok('F7.main-escape', '%s|%s' % (cls, key), e.origin, 'patch.py raises Exception(msg): the documented "compilation fails" channel')
            continue
        L.bad('F7.main-escape', '%s|%s' % (cls, key), e.origin,
              '%s can escape prophyc.main (%s); only ProphycError / SystemExit (and patch\'s Exception) are the designed error '
              'channel; path: %s' % (cls, e.text, ' -> '.join(x.split(':')[-1] for x in e.via[:7])), e.text)
    L.floor('F7.main-escape', n, 10)
    for k, reason in sorted(ef.used_safe.items()):
        L.suppress('F7.main-escape', '%s|%s' % k, reason)
    # entry_main turns whatever is left into an exit message
    em = ctx.py.func('prophyc.__main__:entry_main')
    L.check(ws(unparse(em.node.body[0])) == 'try: main(args) except Exception as e: sys.exit(str(e))', 'F7.entry-main', 'entry_main',
            em.site(), 'the command-line entry point must convert every failure into an exit message', ws(unparse(em.node)))
    # error_on_exception wraps every use of the file processor in main / create_supplements
    for q, call in (('main', 'file_processor_(input_file)'), ('create_supplements', 'file_parser(input_file)')):
        f = ctx.py.func('prophyc:' + q)
        calls = [c for c in f.walk() if isinstance(c, ast.Call) and ws(unparse(c)) == call]
        ok = bool(calls)
        for c in calls:
            p = c
            inside = False
            while p is not None and p is not f.node:
                p = f.module.parent(p)
                if isinstance(p, ast.With) and any(ws(unparse(i.context_expr)) == 'error_on_exception(emit)' for i in p.items):
                    inside = True
            ok = ok and inside
        L.check(ok, 'F7.error-on-exception', q + '|' + call, f.site(), 'every parse must run inside `with error_on_exception(emit)`', '')
    eo = ctx.py.func('prophyc:error_on_exception')
    L.check("except model.ParseError as e: emit.error('\\n'.join(('%s: error: %s' % err for err in e.errors)))" in ws(unparse(eo.node)),
            'F7.error-on-exception', 'error_on_exception', eo.site(),
            'ParseError is converted into the designed `file:line:col: error: reason` message', ws(unparse(eo.node)))


def callbacks(ctx, L):
    """Every ply error callback records an error or raises the module's ParseError; argparse errors go to emit.error."""
    pp = ctx.py.mod('prophyc.parsers.prophy')
    t = pp.func('Parser.t_error')
    s = ws(unparse(t.node))
    L.check('t.lexer.skip(1)' in s and inn("self._parser_error(\"illegal character '{}'\".format(t.value[0]), t.lexer.lineno, t.lexpos)", s),
            'C13a.error-callbacks', 'prophy.Parser.t_error', t.site(), 'an illegal character must be recorded as an error (and skipped), '
            'never silently accepted', s)
    p = pp.func('Parser.p_error')
    s = ws(unparse(p.node))
    L.check(P.body_is(p, """
        if t:
            self._parser_error("syntax error at '{}'".format(t.value), t.lexer.lineno, t.lexpos)
        else:
            self._parser_error("unexpected end of input", self.lexer.lineno, len(self.lexer.lexdata) - 1)
        """), 'C13a.error-callbacks', 'prophy.Parser.p_error', p.site(),
            'syntax errors (token or end of input) must be recorded', s)
    pe = pp.func('Parser._parser_error')
    L.check('self.errors.append((' in ws(unparse(pe.node)), 'C13a.error-callbacks', 'prophy.Parser._parser_error', pe.site(),
            'errors are accumulated', '')
    pr = pp.func('ProphyParser.parse')
    L.check('if parser.errors: raise model.ParseError(parser.errors)' in ws(unparse(pr.node)), 'C13a.error-callbacks',
            'prophy.ProphyParser.parse', pr.site(), 'accumulated errors fail the parse with ParseError', ws(unparse(pr.node)))
    calc = ctx.py.mod('prophyc.calc')
    for q in ('Calc.t_error', 'Calc.p_error'):
        f = calc.func(q)
        body = [b for b in f.node.body if not (isinstance(b, ast.Expr) and isinstance(b.value, ast.Constant))]
        L.check(len(body) == 1 and isinstance(body[0], ast.Raise) and unparse(body[0].exc).startswith('ParseError('),
                'C13a.error-callbacks', 'calc.' + q, f.site(), 'calc errors raise calc.ParseError', ws(unparse(f.node)))
    o = ctx.py.func('prophyc.options:parse_options.ArgumentParser.error')
    L.check(ws(unparse(o.node.body[-1])) == 'emit_error(message)', 'C13a.error-callbacks', 'options.ArgumentParser.error', o.site(),
            'argparse errors are routed to emit.error', ws(unparse(o.node)))


def safe_rechecks(ctx, L):
    """The facts some suppressions lean on, re-established from the source on every run."""
    base = ctx.py.mod('prophyc.generators.base')
    from ..pyfront import try_const
    keys = set(unparse(k) for k in base.assign_value('_translation_methods_map', 'TranslatorBase').keys)
    made = set()
    for modname in ('prophyc.parsers.prophy', 'prophyc.parsers.isar', 'prophyc.patch', 'prophyc'):
        m = ctx.py.mod(modname)
        for n in ast.walk(m.tree):
            if isinstance(n, ast.Call) and re.match(r'^model\.(Constant|Enum|Include|Struct|Typedef|Union)$', unparse(n.func)):
                made.add(unparse(n.func))
    L.check(made <= keys and len(made) == 6, 'F7.safe-recheck', '_translation_methods_map covers node classes', base.rel,
            'a front-end creates a top-level node class without a translation entry: %s' % sorted(made - keys), str(sorted(keys)))
    for modname, cls in (('prophyc.generators.python', 'PythonGenerator'), ('prophyc.generators.cpp', 'CppGenerator'),
                         ('prophyc.generators.cpp_full', 'CppFullGenerator'), ('prophyc.generators.prophy', 'SchemaGenerator')):
        m = ctx.py.mod(modname)
        exts = [unparse(k) for k in m.assign_value('top_level_translators', cls).keys]
        L.check(all(e.strip("'\"").startswith('.') for e in exts) and exts, 'F7.safe-recheck', cls + '.top_level_translators', m.rel,
                'output extensions must start with a dot', str(exts))
    model = ctx.py.mod('prophyc.model')
    for cls in ('Constant', 'Typedef', '_Container', 'Include', 'Enum'):
        L.check(model.has_func(cls + '.dependencies'), 'F7.safe-recheck', cls + '.dependencies', model.rel,
                'concrete node class must override dependencies()', '')
    for cls in ('Typedef', '_SerializableContainer'):
        L.check(model.has_func(cls + '.calc_wire_stiffness'), 'F7.safe-recheck', cls + '.calc_wire_stiffness', model.rel,
                'must override calc_wire_stiffness()', '')
    for modname, q, rx in (('prophyc.calc', 'Calc.t_CONST10', r'\\d+'), ('prophyc.calc', 'Calc.t_CONST16', r'0x[0-9a-fA-F]+'),
                           ('prophyc.parsers.prophy', 'Parser.t_CONST10', r'(([1-9]\\d*)|0)'),
                           ('prophyc.parsers.prophy', 'Parser.t_CONST16', r'0x[0-9a-fA-F]+'), ('prophyc.parsers.prophy', 'Parser.t_CONST8', r'0[0-7]+')):
        f = ctx.py.mod(modname).func(q)
        doc = ast.get_docstring(f.node, clean=False) or ''
        L.check(doc.strip() == rx.replace('\\\\', '\\'), 'F7.safe-recheck', q + ' regex', f.site(),
                'the literal token regex must admit only digits of its base', doc)


def isar_none_flow(ctx, L):
    """Maybe-None values of XML attributes (`elem.get("x")` without default) that reach an operation which fails on None."""
    isar = ctx.py.mod('prophyc.parsers.isar')
    n = 0
    for f in isar.all_funcs():
        for c in f.walk():
            if not (isinstance(c, ast.Call) and isinstance(c.func, ast.Attribute) and c.func.attr == 'get' and len(c.args) == 1
                    and isinstance(c.args[0], ast.Constant)):
                continue
            recv = unparse(c.func.value)
            if recv in ('dimension.attrib', 'xml_elem.attrib'):
                continue
            n += 1
            parent = isar.parent(c)
            attr = c.args[0].value
            key = '%s|%s.get(%r)' % (f.fq, recv, attr)
            # (1) passed straight to a repository function that dereferences the parameter
            if isinstance(parent, ast.Call) and c in parent.args and isinstance(parent.func, ast.Name) and parent.func.id in isar.funcs:
                g = isar.funcs[parent.func.id][0]
                pname = g.params[parent.args.index(c)]
                deref = [x for x in g.walk() if isinstance(x, ast.Attribute) and isinstance(x.value, ast.Name) and x.value.id == pname] + \
                        [x for x in g.walk() if isinstance(x, ast.Subscript) and isinstance(x.value, ast.Name) and x.value.id == pname]
                L.check(not deref, 'F7.none-flow', key, f.site(c),
                        'the XML attribute `%s` may be absent (None) and is passed to %s(), which dereferences it (%s): AttributeError / '
                        'TypeError escapes prophyc.main for an element without that attribute'
                        % (attr, g.qualname, unparse(deref[0])[:40] if deref else ''), unparse(parent))
            # (2) bound to a local that is handed to int()/len() or dereferenced without a None test
            elif isinstance(parent, ast.Assign) and isinstance(parent.targets[0], ast.Name):
                name = parent.targets[0].id
                uses = []
                for x in f.walk():
                    if isinstance(x, ast.Call) and unparse(x.func) in ('int', 'len') and x.args and unparse(x.args[0]) == name:
                        handlers = set()
                        p = x
                        while p is not None and p is not f.node:
                            q = isar.parent(p)
                            if isinstance(q, ast.Try) and any(s_ is p for s_ in q.body):
                                for h in q.handlers:
                                    handlers |= set(unparse(t) for t in (h.type.elts if isinstance(h.type, ast.Tuple) else [h.type]))
                            p = q
                        if 'TypeError' not in handlers and 'Exception' not in handlers:
                            uses.append(x)
                L.check(not uses, 'F7.none-flow', key, f.site(c),
                        'the XML attribute `%s` may be absent (None); `%s` then raises TypeError, which the surrounding handler '
                        '(ValueError only) does not catch' % (attr, unparse(uses[0]) if uses else ''), unparse(parent))
            else:
                L.ok('F7.none-flow', key, f.site(c), 'stored / passed on without dereference')
    L.floor('F7.none-flow', n, 12)
