"""Rule families over the Python runtime (prophy/) shared by C01, C02, C06, C10, C19."""
import ast
import re

from ..core import AnalysisError
from ..pyfront import (unparse, try_const, path_conditions, norm_key, names_in, attr_chain, terminates)
from ..pyfront import ws  # noqa: E402,F401

RUNTIME = ('prophy.composite', 'prophy.container', 'prophy.descriptor', 'prophy.generators', 'prophy.scalar',
           'prophy.optional', 'prophy.base_array', 'prophy.composite_base')
ZERO = b'\x00'


def runtime_modules(ctx):
    return [ctx.py.mod(n) for n in RUNTIME]


# ------------------------------------------------------------------------------------------------ F2
def f2_zero_fill(ctx, L):
    n_ljust = 0
    for m in runtime_modules(ctx):
        for f in m.all_funcs():
            for c in f.walk():
                if isinstance(c, ast.Call) and isinstance(c.func, ast.Attribute) and c.func.attr in ('ljust', 'rjust', 'center'):
                    n_ljust += 1
                    key = '%s|%s' % (f.fq, norm_key(f, c))
                    if len(c.args) < 2:
                        L.bad('F2.zero-fill', key, f.site(c), 'ljust without a fill byte pads with spaces (0x20), not zeros',
                              unparse(c))
                        continue
                    ok, v = try_const(c.args[1])
                    L.check(ok and v == ZERO, 'F2.zero-fill', key, f.site(c),
                            'padding filler %s is not the constant zero byte' % unparse(c.args[1]), unparse(c))
                    L.check(c.func.attr == 'ljust', 'F2.zero-fill', key + '|side', f.site(c),
                            'padding must follow the value (ljust)', unparse(c))
        # every bytes literal of the runtime is empty or zero
        for node in ast.walk(m.tree):
            if isinstance(node, ast.Constant) and isinstance(node.value, bytes):
                f = m.func_of.get(id(node))
                site = f.site(node) if f else '%s:%d' % (m.rel, node.lineno)
                L.check(set(node.value) <= {0}, 'F2.bytes-literals-zero', '%s|%r' % (m.name, node.value), site,
                        'a non-zero bytes literal %r in the codec can only end up in padding/filler' % node.value,
                        repr(node.value))
    L.floor('F2.zero-fill', n_ljust, 7)
    comp = ctx.py.mod('prophy.composite')
    ok, v = try_const(comp.assign_value('_padding_byte', 'struct'))
    L.check(ok and v == ZERO, 'F2.zero-fill', 'struct._padding_byte', comp.rel + ' (struct._padding_byte)',
            'struct padding byte is not zero', unparse(comp.assign_value('_padding_byte', 'struct')))
    gp = comp.func('struct._get_padding')
    L.check(unparse(gp.node.body[-1]) == 'return cls._padding_byte * cls._get_padding_size(offset, alignment)',
            'F2.zero-fill', 'struct._get_padding', gp.site(), 'padding must be _padding_byte repeated _get_padding_size times',
            unparse(gp.node.body[-1]))
    gs = comp.func('struct._get_padding_size')
    L.check(unparse(gs.node.body[-1]) == 'return distance_to_next_multiply(offset, alignment)', 'F2.zero-fill',
            'struct._get_padding_size', gs.site(), 'padding size must be the distance to the next multiple', '')
    d = comp.func('distance_to_next_multiply')
    L.check(align_idiom(d.node, 'number', 'alignment'), 'F16.align-idiom', 'distance_to_next_multiply', d.site(),
            'not a recognised "distance to next multiple" idiom with consistent operands', unparse(d.node.body))
    # absent optional filler
    eo = ctx.py.mod('prophy.descriptor').func('encode_optional')
    rets = [s for s in ast.walk(eo.node) if isinstance(s, ast.Return)]
    absent = [r for r in rets if any(p for t, p, h in path_conditions(eo.module, eo, r)
                                     if unparse(t) == 'value is None' and p)]
    ok = len(absent) == 1 and unparse(absent[0].value) == "b'\\x00' * type_._OPTIONAL_SIZE"
    L.check(ok, 'F2.zero-fill', 'encode_optional|absent', eo.site(absent[0] if absent else None),
            'an absent optional must occupy _OPTIONAL_SIZE zero bytes', unparse(absent[0].value) if absent else '')


def bytes_default(ctx, L):
    """Default value of a bytes field: zero bytes of the static size, or an empty *bytes* object."""
    bd = ctx.py.mod('prophy.composite').func('bytes_')
    cls = [c for c in bd.node.body if isinstance(c, ast.ClassDef)]
    dflt = [s.value for s in cls[0].body if isinstance(s, ast.Assign) and unparse(s.targets[0]) == '_DEFAULT'] if cls else []
    if len(dflt) != 1:
        raise AnalysisError('anchor vanished: _bytes._DEFAULT')
    v = dflt[0]
    if isinstance(v, ast.IfExp):
        ok1, a = try_const(v.body, {'size': 3})
        L.check(ok1 and a == ZERO * 3, 'F2.zero-fill', '_bytes._DEFAULT|fixed', bd.site(v),
                'default of fixed bytes must be `size` zero bytes', unparse(v.body))
        ok2, b = try_const(v.orelse)
        L.check(ok2 and b == b'', 'F2.bytes-default-type', '_bytes._DEFAULT|' + unparse(v.orelse), bd.site(v),
                'default of bound/greedy bytes is %s, not an empty bytes object: an unset limited bytes field cannot be '
                'encoded (TypeError from str.ljust(n, bytes))' % unparse(v.orelse), unparse(v))
    else:
        L.bad('F2.zero-fill', '_bytes._DEFAULT|shape', bd.site(v), 'unrecognised default', unparse(v))


def align_idiom(fn, x, a):
    """Recognised idioms for 'bytes to add to X to reach a multiple of A' with consistent operands."""
    src = re.sub(r'\s+', '', '; '.join(unparse(s) for s in fn.body))
    forms = ['remainer=%s%%%s;return(%s-remainer)%%%s' % (x, a, a, a),
             'return(%s-%s%%%s)%%%s' % (a, x, a, a), 'return-%s%%%s' % (x, a)]
    return src in forms


# ------------------------------------------------------------------------------------------------ F3
STRUCT_CODES = 'bBhHiIqQfd'


def f3_endianness(ctx, L):
    """Non-interference of the byte order in prophy/: never assigned, compared, tested or indexed; only
    passed on, and finally prefixed to the struct format code."""
    n_funcs = n_pack = 0
    takers = set()          # bare function names that take an endianness parameter somewhere
    for m in runtime_modules(ctx):
        for f in m.all_funcs():
            if 'endianness' in f.params:
                takers.add(f.qualname.split('.')[-1])
    takers |= {'encode_fcn', 'decode_fcn'}
    no_order = {('encode_bytes', 'type_._encode'), ('decode_bytes', 'type_._decode')}   # BYTES codec: _bytes has no byte order
    for m in runtime_modules(ctx):
        for f in m.all_funcs():
            if 'endianness' not in f.params:
                # no function without the parameter may mention a byte order
                continue
            n_funcs += 1
            for n in f.walk():
                if isinstance(n, ast.Name) and n.id == 'endianness':
                    p = m.parent(n)
                    key = '%s|%s' % (f.fq, norm_key(f, p))
                    if isinstance(n.ctx, ast.Store) or isinstance(p, (ast.AugAssign,)) and p.target is n:
                        L.bad('F3.order-not-rebound', key, f.site(n), 'the byte order parameter is reassigned', unparse(p))
                    elif isinstance(p, ast.Call) and (n in p.args):
                        L.ok('F3.order-only-passed', key, f.site(n))
                    elif isinstance(p, ast.keyword):
                        L.ok('F3.order-only-passed', key, f.site(n))
                    elif isinstance(p, ast.BinOp) and isinstance(p.op, ast.Add) and p.left is n and \
                            isinstance(m.parent(p), ast.Call) and unparse(m.parent(p).func) in ('struct.pack', 'struct.unpack') \
                            and m.parent(p).args[0] is p:
                        L.ok('F3.order-only-passed', key, f.site(n))
                    else:
                        L.bad('F3.order-only-passed', key, f.site(n),
                              'the byte order is used other than by passing it on (compared, tested, indexed or computed '
                              'with): lengths/offsets/padding could depend on it', unparse(p))
            # every callee that takes a byte order receives this very variable
            for c in f.walk():
                if not isinstance(c, ast.Call):
                    continue
                callee = unparse(c.func)
                base = callee.split('.')[-1]
                if base not in takers or (f.qualname.split('.')[-1], callee) in no_order:
                    continue
                if base in ('encode', 'decode') and callee.startswith(('struct.', 'self.__class__')):
                    continue
                passed = any(isinstance(a, ast.Name) and a.id == 'endianness' for a in c.args) or \
                    any(isinstance(k.value, ast.Name) and k.value.id == 'endianness' for k in c.keywords)
                L.check(passed, 'F3.order-threaded', '%s|%s' % (f.fq, norm_key(f, c)), f.site(c),
                        'call of %s (which takes a byte order) does not pass the caller\'s endianness' % callee, unparse(c))
    probes = set()
    for m in runtime_modules(ctx):
        for node in ast.walk(m.tree):
            if isinstance(node, ast.Call) and unparse(node.func) in ('struct.pack', 'struct.unpack', 'struct.pack_into',
                                                                     'struct.unpack_from', 'struct.Struct', 'struct.calcsize'):
                n_pack += 1
                f = m.func_of.get(id(node))
                fmt = node.args[0] if node.args else None
                if isinstance(m.parent(node), ast.Expr) and f is not None and 'endianness' not in f.params:
                    # a domain probe: the packed bytes are discarded, only "does it fit" is observed
                    probes.add(id(fmt.left) if isinstance(fmt, ast.BinOp) else 0)
                    L.ok('F3.pack-format', '%s|probe' % f.fq, f.site(node), 'range probe, result discarded')
                    continue
                ok = (isinstance(fmt, ast.BinOp) and isinstance(fmt.op, ast.Add) and unparse(fmt.left) == 'endianness'
                      and unparse(fmt.right) == 'id_' and f is not None and f.parent is not None
                      and 'id_' in f.parent.params and 'endianness' in f.params)
                L.check(ok, 'F3.pack-format', '%s|%s' % (f.fq if f else m.name, unparse(node.func)),
                        f.site(node) if f else m.rel,
                        'struct format must be exactly `endianness + id_` (caller\'s byte order + the scalar\'s code)',
                        unparse(node))
            if isinstance(node, ast.Constant) and isinstance(node.value, str) and id(node) not in probes and \
                    re.match(r'^[<>=!@][%s]*$' % STRUCT_CODES, node.value):
                f = m.func_of.get(id(node))
                L.bad('F3.no-order-literal', '%s|%r' % (m.name, node.value), f.site(node) if f else m.rel,
                      'byte-order literal %r in the runtime: some scalar would ignore the requested byte order' % node.value,
                      repr(node.value))
    L.floor('F3.order-threaded', n_funcs, 25)
    L.floor('F3.pack-format', n_pack, 2)
    L.ok('F3.no-order-literal', 'prophy/*', 'prophy/', 'no byte-order literal among the string constants')


# ------------------------------------------------------------------------------------------------ F1
class Ev(object):
    def __init__(self, kind, a=None, b=None, body=None, node=None):
        self.kind, self.a, self.b, self.body, self.node = kind, a, b, body or [], node

    def sig(self):
        if self.kind in ('LOOP', 'IF', 'TRY'):
            return '%s(%s)[%s]' % (self.kind, self.a, ' ; '.join(e.sig() for e in self.body))
        if self.kind == 'PAD':
            return 'PAD(%s, %s)' % (self.a, self.b)
        return self.kind if self.a is None else '%s(%s)' % (self.kind, self.a)


HELPERS = {}     # name -> '_ALIGNMENT' | '_SIZE' for optional-aware accessor helpers found in prophy.composite


def optional_aware_helpers(module):
    """Module-level one-parameter functions whose whole body is
    `return p._OPTIONAL_X if p._OPTIONAL else p._X`  (or the negated form): {name: '_X'}."""
    out = {}
    for f in module.all_funcs():
        if f.parent is not None or f.cls is not None or len(f.params) != 1:
            continue
        body = [b for b in f.node.body if not (isinstance(b, ast.Expr) and isinstance(b.value, ast.Constant))]
        from ..inline import return_tree_expr
        e = return_tree_expr(body)          # `if c: return a` + `return b` (normal form N37) read back as `a if c else b`
        if not isinstance(e, ast.IfExp):
            continue
        p = f.params[0]
        for attr in ('_ALIGNMENT', '_SIZE'):
            pos = (unparse(e.test) == '%s._OPTIONAL' % p and unparse(e.body) == '%s._OPTIONAL%s' % (p, attr)
                   and unparse(e.orelse) == '%s.%s' % (p, attr))
            neg = (unparse(e.test) == 'not %s._OPTIONAL' % p and unparse(e.orelse) == '%s._OPTIONAL%s' % (p, attr)
                   and unparse(e.body) == '%s.%s' % (p, attr))
            if pos or neg:
                out[f.qualname] = attr
    return out


def role(src, cur_exprs):
    src = re.sub(r'\s+', ' ', re.sub(r'\b__v\d+_', '', src))
    if src in cur_exprs:
        return 'CUR'
    m = re.match(r'^(\w+)\(field\.type\)$', src)
    if m and HELPERS.get(m.group(1)) == '_ALIGNMENT':
        return 'F.ALIGN*'
    table = {
        'field.type._ALIGNMENT': 'F.ALIGN', 'field.type._PARTIAL_ALIGNMENT': 'F.PARTIAL', 'self._ALIGNMENT': 'S.ALIGN',
        'field.type._OPTIONAL_ALIGNMENT if field.type._OPTIONAL else field.type._ALIGNMENT': 'F.ALIGN*',
        'field.type._ALIGNMENT if not field.type._OPTIONAL else field.type._OPTIONAL_ALIGNMENT': 'F.ALIGN*',
        'self._SIZE': 'S.SIZE',
    }
    return table.get(src, '?' + src)


def walker_skeleton(f, acc, cur_exprs, pad_fn, field_fn):
    """Events of a struct walker: updates of the accumulator `acc` only."""
    def is_acc(name):
        # the accumulator or a later version of it (N14: `__v1_pos = pos + ...`)
        return re.sub(r'^__v\d+_', '', name) == acc

    def stmts(body):
        out = []
        for s in body:
            if isinstance(s, ast.Return) and isinstance(s.value, ast.BinOp) and isinstance(s.value.op, ast.Add) \
                    and isinstance(s.value.left, ast.Name) and is_acc(s.value.left.id):
                # `acc += X; return acc` in normal form
                out.append(classify(s.value.right, s))
                continue
            if isinstance(s, (ast.AugAssign, ast.Assign)):
                tgt = s.target if isinstance(s, ast.AugAssign) else s.targets[0]
                if isinstance(tgt, ast.Name) and is_acc(tgt.id):
                    val = s.value
                    if isinstance(s, ast.Assign):
                        if isinstance(val, ast.BinOp) and isinstance(val.op, ast.Add) and isinstance(val.left, ast.Name) and is_acc(val.left.id):
                            val = val.right
                        else:
                            ok, v = try_const(val)
                            if ok and v in (b'', 0):
                                continue
                            out.append(Ev('SET', unparse(val), node=s))
                            continue
                    elif not isinstance(s.op, ast.Add):
                        out.append(Ev('UPDATE?', unparse(s), node=s))
                        continue
                    out.append(classify(val, s))
                continue
            if isinstance(s, ast.For):
                inner = stmts(s.body)
                out.append(Ev('LOOP', unparse(s.iter), body=inner, node=s))
            elif isinstance(s, ast.While):
                out.append(Ev('LOOP', 'while ' + unparse(s.test), body=stmts(s.body), node=s))
            elif isinstance(s, ast.If):
                inner = stmts(s.body)
                if inner or stmts(s.orelse):
                    e = Ev('IF', role(unparse(s.test), cur_exprs), body=inner, node=s)
                    out.append(e)
                    if s.orelse:
                        out.append(Ev('IF', 'else', body=stmts(s.orelse), node=s))
            elif isinstance(s, ast.Try):
                out.extend(stmts(s.body))
                for h in s.handlers:
                    hs = stmts(h.body)
                    if hs:
                        out.append(Ev('TRY', 'except', body=hs, node=s))
            elif isinstance(s, ast.With):
                out.extend(stmts(s.body))
        return out

    def classify(val, s):
        v = val
        if isinstance(v, ast.Call):
            callee = unparse(v.func)
            if callee in pad_fn and len(v.args) == 2:
                return Ev('PAD', role(unparse(v.args[0]), cur_exprs), role(unparse(v.args[1]), cur_exprs), node=s)
            if callee == field_fn:
                return Ev('FIELD', ', '.join(unparse(a) for a in v.args), node=s)
        return Ev('ADD?', unparse(val), node=s)
    return stmts(f.node.body)


def sig(events):
    return ' ; '.join(e.sig() for e in events)


STRUCT_SKELETON = re.compile(
    r'^LOOP\(self\._descriptor\)\[PAD\(CUR, (F\.ALIGN\*?)\) ; FIELD\((.*?)\) ; IF\(F\.PARTIAL\)\[PAD\(CUR, F\.PARTIAL\)\]\] ; '
    r'PAD\(CUR, S\.ALIGN\)$')


def f1_struct_walkers(ctx, L, sides=('encode', 'decode')):
    comp = ctx.py.mod('prophy.composite')
    HELPERS.clear()
    HELPERS.update(optional_aware_helpers(comp))
    enc = comp.func('struct.encode')
    dec = comp.func('struct._decode_impl')
    es = sig(walker_skeleton(enc, 'data', {'len(data)'}, {'self._get_padding'}, 'field.encode_fcn'))
    ds = sig(walker_skeleton(dec, 'pos', {'pos'}, {'self._get_padding_size'}, 'field.decode_fcn'))
    out = {}
    for side, f, s, args in (('encode', enc, es, 'self, field.type, getattr(self, field.name, None), endianness'),
                             ('decode', dec, ds, 'self, field.name, field.type, data, pos, endianness, len_hints')):
        if side not in sides:
            continue
        m = STRUCT_SKELETON.match(s)
        L.check(bool(m), 'F1.struct-steps', 'struct.%s|skeleton' % f.qualname.split('.')[-1], f.site(),
                'the struct %s walker does not perform the documented steps in order: for each field in declaration '
                'order pad to the field alignment, the field itself, block padding after a dynamic field; finally pad '
                'to the struct alignment. Extracted: %s' % (side, s), s)
        if m:
            L.check(re.sub(r'\s+', ' ', m.group(2)) == args, 'F1.struct-steps',
                    'struct.%s|field-args' % f.qualname.split('.')[-1], f.site(),
                    'the field codec is called with unexpected arguments (%s)' % m.group(2), m.group(2))
            out[side] = m.group(1)
            # F15: the pre-field pad must use the optional-aware alignment
            L.check(m.group(1) == 'F.ALIGN*', 'F15.optional-aware', '%s|field.type._ALIGNMENT' % f.fq, f.site(),
                    'the pad before a field uses field.type._ALIGNMENT also for optional members; the wire alignment of an '
                    'optional slot is _OPTIONAL_ALIGNMENT = max(4, value alignment): `u8 a; u8* b` puts the 32-bit flag '
                    'at offset 1 instead of 4', 'PAD(CUR, %s)' % m.group(1))
    if 'encode' in sides and 'decode' in sides:
        L.check(es.replace('FIELD(self, field.type, getattr(self, field.name, None), endianness)', 'FIELD') ==
                ds.replace('FIELD(self, field.name, field.type, data, pos, endianness, len_hints)', 'FIELD'),
                'F1.sibling-mirror', 'struct.encode~struct._decode_impl', dec.site(),
                'decode does not mirror encode step by step. encode: %s | decode: %s' % (es, ds), ds)
    if 'encode' in sides:
        rets = [r.value for r in ast.walk(enc.node) if isinstance(r, ast.Return)]
        # `return data` or, in normal form, `return data + <last step>` (the step itself is part of the skeleton above)
        L.check(len(rets) == 1 and re.sub(r'\b__v\d+_', '', unparse(rets[0].left if isinstance(rets[0], ast.BinOp) and isinstance(rets[0].op, ast.Add)
                                                                    else rets[0])) == 'data',
                'F1.struct-steps', 'struct.encode|return', enc.site(), 'encode must return the accumulated bytes',
                str([unparse(r) for r in rets]))
    return es, ds


def f1_union_encode(ctx, L):
    comp = ctx.py.mod('prophy.composite')
    f = comp.func('union.encode')
    UE = ['self', 'endianness']
    rets = [r for r in f.walk() if isinstance(r, ast.Return)]
    got = sem_text(f, rets[0].value) if len(rets) == 1 and rets[0].value is not None else ''
    DISC = "self._discriminator_type._encode(self._discriminated.discriminator, endianness).ljust(self._ALIGNMENT, b'\\x00')"
    ARM = 'self._discriminated.encode_fcn(self, self._discriminated.type, getattr(self, self._discriminated.name), endianness)'
    steps = {'disc': sem_expected(DISC, UE, comp) in got,
             'arm': sem_expected(ARM, UE, comp) in got,
             'tail': got.endswith(sem_expected("x.ljust(self._SIZE, b'\\x00')", UE, comp).split('.ljust', 1)[1])}
    for k, ok in steps.items():
        L.check(ok, 'F1.union-steps', 'union.encode|' + k, f.site(),
                {'disc': 'the discriminator must be encoded with the discriminator type and padded to the union alignment',
                 'arm': 'the discriminated arm must be encoded with its own codec',
                 'tail': 'discriminator + arm must be padded to the static union size'}[k], got)
    L.check(body_is(f, "return (%s + %s).ljust(self._SIZE, b'\\x00')" % (DISC, ARM), params=UE), 'F1.union-steps', 'union.encode|order', f.site(),
            'union encode is not: discriminator padded to S.ALIGN ; arm ; whole padded to S.SIZE', sem_body(f))


def f1_optional_encode(ctx, L):
    f = ctx.py.mod('prophy.descriptor').func('encode_optional')
    rets = [r for r in ast.walk(f.node) if isinstance(r, ast.Return)]
    EO = ['parent', 'type_', 'value', 'endianness']
    present = [r for r in rets if knows(f, r, 'value is None', False, EO)]
    ok = len(present) == 1 and sem_is(f, present[0].value,
                                      "type_._optional_type._encode(True, endianness).ljust(type_._OPTIONAL_ALIGNMENT, b'\\x00') + "
                                      "type_._encode(parent, type_.__bases__[0], value, endianness)", EO)
    L.check(ok, 'F1.optional-steps', 'encode_optional|present', f.site(present[0] if present else None),
            'present optional: flag (true) padded to _OPTIONAL_ALIGNMENT, then the value encoded with the base type codec',
            unparse(present[0].value) if present else '')
    L.check(len(rets) == 2, 'F1.optional-steps', 'encode_optional|paths', f.site(), 'exactly the absent and the present path', '')


# ------------------------------------------------------------------------------------------------ F6
def is_remaining(node, data='data', pos='pos'):
    return re.sub(r'[\s()]', '', unparse(node)) == 'len%s-%s' % (data, pos) or \
        re.sub(r'\s', '', unparse(node)) in ('len(%s)-%s' % (data, pos), '(len(%s)-%s)' % (data, pos))


def remaining_guards(f, target, aliases=None):
    """Sizes S for which `remaining >= S` is known at target because `remaining < S` (in any spelling) leaves with a raise.
    Path conditions come in atomic normal form: a failed `remaining < S` is the fact `S <= remaining`."""
    out = []
    aliases = aliases or {}
    for test, pol, how in path_conditions(f.module, f, target):
        if not isinstance(test, ast.Compare) or len(test.ops) != 1 or not pol:
            continue
        l, r, op = test.left, test.comparators[0], test.ops[0]

        def rem(x):
            return is_remaining(x) or (isinstance(x, ast.Name) and x.id in aliases)
        if how.startswith('early-exit') and isinstance(op, (ast.LtE, ast.Lt)) and rem(r):
            out.append((unparse(l), how))
        # the same guard with the position moved to the other side: `len(data) < pos + S` fails, i.e. `pos + S <= len(data)`
        if how.startswith('early-exit') and isinstance(op, (ast.LtE, ast.Lt)) and re.sub(r'\s', '', unparse(r)) == 'len(data)' \
                and isinstance(l, ast.BinOp) and isinstance(l.op, ast.Add):
            for a_, b_ in ((l.left, l.right), (l.right, l.left)):
                if isinstance(a_, ast.Name) and a_.id == 'pos':
                    out.append((unparse(b_), how))
    return out


def f6_python_guards(ctx, L):
    """Every read of input bytes and every statically sized 'consumed' report in the decoders is dominated by
    an exact remaining-length guard raising ProphyError."""
    n = 0
    sc = ctx.py.mod('prophy.scalar')
    f = sc.func('numeric_decorator.decode')
    unpacks = [c for c in f.walk() if isinstance(c, ast.Call) and unparse(c.func) == 'struct.unpack']
    if len(unpacks) != 1:
        raise AnalysisError('numeric_decorator.decode: expected one struct.unpack')
    u = unpacks[0]
    sl = u.args[1]
    ok_slice = isinstance(sl, ast.Subscript) and re.sub(r'[\s()]', '', unparse(sl)) == 'data[pos:pos+size]'
    L.check(ok_slice, 'F6.unpack-slice', f.fq, f.site(u), 'unpack must read exactly data[pos:pos+size]', unparse(u))
    g = remaining_guards(f, u)
    L.check(('size', 'early-exit:raise:ProphyError') in g, 'F6.remaining-guard', f.fq + '|unpack', f.site(u),
            'struct.unpack is not dominated by `(len(data) - pos) < size -> raise ProphyError` (short input would raise '
            'struct.error)', str(g))
    rets = [r.value for r in ast.walk(f.node) if isinstance(r, ast.Return)]
    # (decoded value, size): the second component is the scalar's size whatever the first is called
    L.check(len(rets) == 1 and isinstance(rets[0], ast.Tuple) and len(rets[0].elts) == 2 and unparse(rets[0].elts[1]) == 'size',
            'F6.consumed-size', f.fq, f.site(), 'a scalar consumes exactly its size', str([unparse(r) for r in rets]))
    n += 1
    # _bytes._decode
    comp = ctx.py.mod('prophy.composite')
    f = comp.func('bytes_._bytes._decode')
    for r in [x for x in ast.walk(f.node) if isinstance(x, ast.Return)]:
        n += 1
        val, size = (r.value.elts + [None, None])[:2] if isinstance(r.value, ast.Tuple) else (None, None)
        if val is None:
            L.bad('F6.consumed-size', f.fq + '|' + unparse(r), f.site(r), 'decoder must return (value, consumed)', unparse(r))
            continue
        g = [s for s, how in remaining_guards(f, r) if how == 'early-exit:raise:ProphyError']
        s_src = unparse(size)
        key = f.fq + '|return ' + re.sub(r'\s+', '', unparse(r.value))
        L.check(is_remaining(size) or s_src in g, 'F6.remaining-guard', key, f.site(r),
                'reports %s bytes consumed without a dominating `(len(data) - pos) < %s -> raise ProphyError`' % (s_src, s_src),
                'guards: %s' % g)
        # the slice must lie inside what is guarded
        sl = re.sub(r'[\s()]', '', unparse(val))
        m = re.match(r'^data\[pos:(?:pos\+(\w+))?\]$', sl)
        L.check(bool(m) and (m.group(1) is None or m.group(1) in g or m.group(1) == 'len_hint'), 'F6.unpack-slice', key, f.site(r),
                'the value slice must start at pos and span a guarded length', unparse(val))
    # bound arrays
    cont = ctx.py.mod('prophy.container')
    for q in ('bound_scalar_array._decode_impl', 'bound_composite_array._decode_impl'):
        f = cont.func(q)
        n += 1
        rets = [r for r in ast.walk(f.node) if isinstance(r, ast.Return)]
        for r in rets:
            g = [s for s, how in remaining_guards(f, r) if how == 'early-exit:raise:ProphyError']
            L.check('self._SIZE' in g, 'F6.remaining-guard', f.fq + '|static-slot', f.site(r),
                    'the static slot size self._SIZE is reported as consumed without a dominating '
                    '`self._SIZE > (len(data) - pos) -> raise ProphyError`', str(g))
            mx = r.value
            is_max = isinstance(mx, ast.Call) and unparse(mx.func) == 'max' and len(mx.args) == 2 and \
                sorted((isinstance(a, ast.Name) or str(unparse(a)) for a in mx.args), key=str) == [True, 'self._SIZE']
            L.check(is_max,
                    'F6.consumed-size', f.fq, f.site(r),
                    'a bound array consumes max(bytes decoded, static slot size)', unparse(r.value))
    # union
    f = comp.func('union._decode_impl')
    n += 1
    aliases = {}
    for s in f.node.body:
        if isinstance(s, ast.Assign) and is_remaining(s.value) and isinstance(s.targets[0], ast.Name):
            aliases[s.targets[0].id] = True
    rets = [r for r in ast.walk(f.node) if isinstance(r, ast.Return)]
    for r in rets:
        g = [s for s, how in remaining_guards(f, r, aliases) if how == 'early-exit:raise:ProphyError']
        L.check(unparse(r.value) == 'self._SIZE' and 'self._SIZE' in g, 'F6.remaining-guard', f.fq + '|static-slot', f.site(r),
                'a union consumes its static size, which must be guarded by `remaining < self._SIZE -> raise ProphyError`',
                '%s guards %s' % (unparse(r.value), g))
    L.floor('F6.remaining-guard', L.rule_count('F6.remaining-guard'), 8)


def f6_count_guard(ctx, L):
    """The decoded element count passes a constant upper bound and a >= 0 test before it reaches len_hints."""
    gen = ctx.py.mod('prophy.generators')
    f = gen.func('build_container_length_field.container_len._decode')
    rets = [r for r in ast.walk(f.node) if isinstance(r, ast.Return)]
    if len(rets) != 1:
        raise AnalysisError('container_len._decode: expected one return')
    EXTRA = ['bound_shift', 'sizer_item_type']
    st = sem_with(f, EXTRA)
    known = facts_with(f, rets[0], EXTRA)
    count = rets[0].value.elts[0] if isinstance(rets[0].value, ast.Tuple) and len(rets[0].value.elts) == 2 else None
    raws = [a for a in f.walk() if isinstance(a, ast.Assign) and isinstance(a.targets[0], ast.Tuple) and len(a.targets[0].elts) == 2
            and st(a.value) == st('sizer_item_type._decode(data, pos, endianness)')]
    raw = raws[0].targets[0].elts[0].id if len(raws) == 1 and isinstance(raws[0].targets[0].elts[0], ast.Name) else None
    # the count returned is (the raw decoded value) - bound_shift: the only local it reads is the raw value
    shift_ok = count is not None and raw is not None and st(count) == '_L0 - _P%d' % len(f.params) and \
        set(n.id for n in ast.walk(count) if isinstance(n, ast.Name) and n.id != 'bound_shift') <= {raw} | set(local_defs(f))
    # (a failed comparison is recorded as the opposite comparison holding)
    upper = any(pol and re.fullmatch(r'_L0 <= (\d+)', t) and 0 < int(t.split(' ')[-1]) <= (1 << 24) for t, pol in known)
    lower = ('0 <= _L0 - _P%d' % len(f.params), True) in known
    L.check(upper, 'F6.count-bounded', f.fq + '|upper', f.site(),
            'the decoded element count is not rejected above a constant bound before use: a few bytes can drive '
            'allocation of an arbitrary number of elements', unparse(f.node)[:300])
    L.check(lower, 'F6.count-bounded', f.fq + '|lower', f.site(),
            'the decoded element count (after the shift) is not rejected when negative', '')
    L.check(shift_ok, 'F6.count-bounded', f.fq + '|shift', f.site(), 'the count must be the decoded value minus the bound shift',
            unparse(rets[0]))
    # the shift is applied after the upper test and before the lower test (order of the three statements)
    order = [unparse(s)[:40] for s in f.node.body]
    idx = {k: i for i, k in enumerate(order)}
    d = ctx.py.mod('prophy.descriptor').func('decode_array_delimiter')
    src = unparse(d.node)
    L.check(inn('value, size = type_._decode(data, pos, endianness)', src) and inn('for array_name in type_._BOUND:', src)
            and inn('len_hints[array_name] = value', src) and 'return size' in src, 'F6.count-bounded',
            d.fq + '|hints', d.site(), 'the sizer decoder must publish the count to len_hints for every bound array', src)
    neg = [s for s in d.node.body if isinstance(s, ast.If) and unparse(s.test) == 'value < 0' and terminates(s.body)]
    L.check(bool(neg), 'F6.count-bounded', d.fq + '|negative', d.site(), 'negative counts must be rejected', src)
    # the hints are read only by name of the field being decoded
    for q in ('decode_array', 'decode_bytes'):
        g = ctx.py.mod('prophy.descriptor').func(q)
        L.check('len_hints.get(name)' in unparse(g.node), 'F6.count-bounded', g.fq + '|hint-read', g.site(),
                'the array/bytes decoder must take its length hint from len_hints by its own field name', unparse(g.node))


# ------------------------------------------------------------------------------------------------ F15
def f15_optional_aware(ctx, L):
    """In the struct layout code of the runtime every read of X._SIZE / X._ALIGNMENT over member types
    (X is not the class itself) must select the _OPTIONAL_* variant for optional members, inline or through
    an optional-aware accessor helper. Scope: struct_generator.* and struct.* and the module-level helpers
    of prophy.composite; out of scope by validation: union arms, array element types, optional() base."""
    gen = ctx.py.mod('prophy.generators')
    comp = ctx.py.mod('prophy.composite')
    helpers = optional_aware_helpers(comp)
    scope = [f for f in gen.all_funcs() if f.qualname.startswith('struct_generator.')] + \
            [f for f in comp.all_funcs() if f.qualname.startswith('struct.') or (f.cls is None and f.parent is None)]
    gen.func('struct_generator.add_attributes')
    gen.func('struct_generator.add_attributes.get_padded_sizes')
    n = 0
    for fn in scope:
        if fn.qualname in ('field_to_string', 'bytes_') or fn.qualname.startswith('bytes_.'):
            continue
        for node in fn.walk():
            if isinstance(node, ast.Call) and isinstance(node.func, ast.Name) and node.func.id in helpers:
                n += 1
                L.ok('F15.optional-aware', '%s|%s' % (fn.fq, norm_key(fn, node)), fn.site(node), 'optional-aware accessor')
                continue
            if not (isinstance(node, ast.Attribute) and node.attr in ('_SIZE', '_ALIGNMENT') and isinstance(node.ctx, ast.Load)):
                continue
            base = unparse(node.value)
            if base in ('cls', 'self'):
                continue
            n += 1
            p = fn.module.parent(node)
            guarded = isinstance(p, ast.IfExp) and p.orelse is node and unparse(p.test) == '%s._OPTIONAL' % base and \
                unparse(p.body) == '%s._OPTIONAL%s' % (base, node.attr)
            guarded = guarded or (isinstance(p, ast.IfExp) and p.body is node and unparse(p.test) == 'not %s._OPTIONAL' % base
                                  and unparse(p.orelse) == '%s._OPTIONAL%s' % (base, node.attr))
            stmt = node
            while not isinstance(stmt, ast.stmt):
                stmt = fn.module.parent(stmt)
            # the statement form of the same selection: the plain attribute is read where `<base>._OPTIONAL` is known to be false
            guarded = guarded or ((True, True) == (isinstance(node.value, ast.Name), True) and
                                  any(unparse(t) == '%s._OPTIONAL' % base and not pol for t, pol, how in path_conditions(fn.module, fn, stmt)))
            key = '%s|%s' % (fn.fq, re.sub(r'\s+', ' ', norm_key(fn, stmt)))
            L.check(guarded, 'F15.optional-aware', key, fn.site(node),
                    'reads %s of a member type without selecting _OPTIONAL%s for optional members: the slot of an optional '
                    'is flag+gap+value (size _OPTIONAL_SIZE, alignment max(4, value alignment)), so sizes / offsets / block '
                    'alignment of structs with optionals come out wrong' % (unparse(node), node.attr), unparse(stmt))
    L.floor('F15.optional-aware', n, 7)


# ------------------------------------------------------------------------------------------------ F16 / layout
import builtins as _builtins


def _canon(src_or_node, globals_):
    """Statement text with every *local* name (anything that is not a builtin, a module-level name, self or cls) replaced by
    a placeholder numbered by first appearance: comparisons are insensitive to renaming of locals and parameters."""
    node = src_or_node
    if isinstance(node, str):
        try:
            from .. import canon as _cn
            node = _cn.normalise(ast.parse(node)).body[0]     # expected fragments are compared in normal form (E1b)
        except SyntaxError:
            return re.sub(r'\s+', ' ', src_or_node)
    import copy
    node = copy.deepcopy(node)
    order = {}
    # ast.walk is breadth-first; number names in structural (depth-first) order instead - not by line/column: rewritten trees
    # carry positions of several places of the source
    def dfs(x):
        if isinstance(x, ast.Name):
            yield x
        for c in ast.iter_child_nodes(x):
            for y in dfs(c):
                yield y
    for n in dfs(node):
        if n.id in globals_ or hasattr(_builtins, n.id) or n.id in ('self', 'cls'):
            continue
        if n.id not in order:
            order[n.id] = '_L%d' % len(order)
        n.id = order[n.id]
    for n in ast.walk(node):
        if isinstance(n, ast.arg) and n.arg in order:
            n.arg = order[n.arg]
    return ws(unparse(node))


import keyword as _keyword


def piece_regex(piece, globals_):
    """Regex for a (possibly multi-statement) source fragment in which every *local* identifier may be consistently renamed:
    first occurrence -> named group, later occurrences -> back-reference. Attributes, keywords, builtins and module-level names
    stay literal."""
    out = []
    seen = {}
    prev = ''
    for tok in re.findall(r'[A-Za-z_]\w*|\s+|.', piece):
        if re.match(r'^[A-Za-z_]\w*$', tok):
            literal = (prev == '.' or _keyword.iskeyword(tok) or hasattr(_builtins, tok) or tok in globals_ or tok in ('self', 'cls'))
            if literal:
                out.append(re.escape(tok))
            elif tok in seen:
                out.append('(?P=%s)' % seen[tok])
            else:
                seen[tok] = 'n%d' % len(seen)
                out.append('(?P<%s>[A-Za-z_]\\w*)' % seen[tok])
        elif tok.isspace():
            out.append(r'\s+')
        else:
            out.append(re.escape(tok))
        if not tok.isspace():
            prev = tok
    return re.compile(''.join(out))


def contains(src, piece, globals_):
    """`piece in src` modulo consistent renaming of local names (and inside string literals nothing is renamed: a quoted
    word is literal because quotes are ordinary characters and identifiers inside keep their spelling only if global -
    so pieces with string literals are matched literally first)."""
    for text in [src] + [a for a in getattr(src, 'alts', ())]:
        text = str(text)
        for cand in piece_forms(piece):
            if cand in text:
                return True
            if "'" in cand or '"' in cand:
                continue
            if piece_regex(cand, globals_).search(text) is not None:
                return True
    return False


_FORMS = {}


def piece_forms(piece):
    """The fragment as written and, when it parses, its normal form (E1b, sa/canon.py) with whitespace collapsed.
    Multi-line fragments (real code) are always reduced to the normal form."""
    if piece not in _FORMS:
        from .. import canon as _cn
        forms = [] if '\n' in piece else [piece]
        n = _cn.normal_text(piece if '\n' not in piece else _dedent(piece))
        if n is not None:
            for cand in (n, _cn.normal_text(piece if '\n' not in piece else _dedent(piece), light=True)):
                cand = re.sub(r'\s+', ' ', cand).strip()
                if cand not in forms:
                    forms.append(cand)
        elif '\n' in piece:
            raise AnalysisError('expected fragment does not parse: %r' % piece[:80])
        _FORMS[piece] = forms
    return _FORMS[piece]


def _dedent(s):
    import textwrap
    return textwrap.dedent(s.strip('\n'))


ALL_GLOBALS = set()


def init_globals(tree):
    """Module-level names of every analysed module (they stay literal in rename-tolerant fragment matching)."""
    if not ALL_GLOBALS:
        for m in tree.modules.values():
            ALL_GLOBALS.update(module_globals(m))
        ALL_GLOBALS.update(('t', 'p'))     # ply production objects: parameter names fixed by convention, index positions matter


def inn(piece, src):
    """`piece in src`, tolerant to consistent renaming of local names."""
    return contains(src, piece, ALL_GLOBALS)


def module_globals(module):
    g = set(module.imports)
    for st in module.tree.body:
        if isinstance(st, (ast.FunctionDef, ast.ClassDef)):
            g.add(st.name)
        elif isinstance(st, ast.Assign):
            for t in st.targets:
                if isinstance(t, ast.Name):
                    g.add(t.id)
    return g


def stmt_srcs(f, into_nested=False):
    """Source of every simple statement of f with locals canonicalised (order-insensitive lookups)."""
    out = []
    g = module_globals(f.module)
    for n in f.walk(into_nested):
        if isinstance(n, (ast.Assign, ast.AugAssign, ast.Return, ast.Expr, ast.Raise, ast.Delete)):
            out.append(_canon(n, g))
    return out


def has(f, *alternatives):
    """One of the statements occurs in f - in the full normal form or as the source spells it (light normal form)."""
    srcs = stmt_srcs(f)
    g = module_globals(f.module)
    light = getattr(f.node, '_light', None)
    if light is not None:
        for n in ast.walk(light):
            if isinstance(n, (ast.Assign, ast.AugAssign, ast.Return, ast.Expr, ast.Raise, ast.Delete)):
                srcs.append(_canon(n, g))
    return any(_canon(a, g) in srcs for a in alternatives)


def sem_with(f, extra=()):
    """Meaning-level text (see sem_text) with the closure variables `extra` treated like further parameters (fixed names)."""
    prm = _eff_params(f) + list(extra)
    defs = local_defs(f)
    g = module_globals(f.module) | ALL_GLOBALS

    def st(node_or_text):
        if isinstance(node_or_text, str):
            tree = ast.parse(_dedent(node_or_text))
            node = tree.body[0]
            if isinstance(node, ast.Expr):
                node = node.value
            return _sem(node, list(f.params) + list(extra), {}, g)
        return _sem(node_or_text, prm, defs, g)
    return st


def facts_with(f, node, extra=()):
    st = sem_with(f, extra)
    return set((st(t), pol) for t, pol, how in path_conditions(f.module, f, node))


def f16_runtime_layout(ctx, L):
    """Layout attributes are computed from the documented inputs through the documented aggregators."""
    partial_alignment_owner(ctx, L)
    gen = ctx.py.mod('prophy.generators')
    f = gen.func('struct_generator.add_attributes')
    checks = [
        ('_DYNAMIC', 'cls._DYNAMIC = any((type_._DYNAMIC for type_ in cls._types()))', 'a struct is dynamic iff any member is'),
        ('_UNLIMITED', 'cls._UNLIMITED = any((type_._UNLIMITED for type_ in cls._types()))', 'a struct is unlimited iff any member is'),
        ('_SIZE', 'cls._SIZE = sum((type_._OPTIONAL_SIZE if type_._OPTIONAL else type_._SIZE for type_ in cls._types()))',
         'unpadded struct size is the sum of the members\' slot sizes'),
        ('_ALIGNMENT', 'cls._ALIGNMENT = max((t._OPTIONAL_ALIGNMENT if t._OPTIONAL else t._ALIGNMENT for t in cls._types()))',
         'struct alignment is the maximum slot alignment of its members'),
        ('_SIZE+=', 'cls._SIZE += sum(get_padded_sizes())', 'the struct size includes the inter-field and end padding'),
    ]
    # the optional-aware accessors of prophy.composite (whose bodies F15 confirms) say the same as the inline selection
    acc = dict((v, k) for k, v in optional_aware_helpers(ctx.py.mod('prophy.composite')).items())
    alt = {'_SIZE': 'cls._SIZE = sum((%s(type_) for type_ in cls._types()))' % acc.get('_SIZE', '?'),
           '_ALIGNMENT': 'cls._ALIGNMENT = max((%s(t) for t in cls._types()))' % acc.get('_ALIGNMENT', '?')}
    for k, src, why in checks:
        L.check(has(f, src) or (k in alt and has(f, alt[k])), 'F16.layout-formula', 'struct_generator.add_attributes|' + k, f.site(),
                why + ' (expected `%s`)' % src, '')
    # the block (partial) alignment fold: reversed walk, seed 1, reset after a dynamic field, max aggregator
    loops = [n for n in f.node.body if isinstance(n, ast.For)]
    fold = [l for l in loops if 'reversed(' in unparse(l.iter)]
    if len(fold) != 1:
        raise AnalysisError('add_attributes: reversed block-alignment fold not found')
    lp = fold[0]
    L.check(unparse(lp.iter) == 'reversed(list(cls._types()))', 'F16.block-alignment-fold', 'add_attributes|iter', f.site(lp),
            'the block alignment must be folded from the last member backwards over all member types', unparse(lp.iter))
    idx = f.node.body.index(lp)
    seed = f.node.body[idx - 1]
    ok, v = (False, None)
    if isinstance(seed, ast.Assign):
        ok, v = try_const(seed.value)
    L.check(ok and v in (0, 1) and isinstance(seed.targets[0], ast.Name), 'F16.block-alignment-fold', 'add_attributes|seed',
            f.site(seed), 'the fold over alignments must start from 1', unparse(seed))
    tv = unparse(lp.target)                                   # the member-type loop variable
    av = unparse(seed.targets[0]) if isinstance(seed, ast.Assign) else 'alignment'   # the running block alignment
    body = [ws(unparse(s)) for s in lp.body]
    want_tail = ['%s = max(wire_alignment(%s), %s)' % (av, tv, av),
                 '%s = max(%s._OPTIONAL_ALIGNMENT if %s._OPTIONAL else %s._ALIGNMENT, %s)' % (av, tv, tv, tv, av)]
    want_tail = [_canon(w, set()) for w in want_tail]
    L.check(len(lp.body) == 2 and isinstance(lp.body[0], ast.If) and _canon(lp.body[1], set()) in want_tail, 'F16.block-alignment-fold',
            'add_attributes|aggregate', f.site(lp), 'each member must contribute max(slot alignment, running alignment) after the '
            'dynamic-field test', ' ; '.join(body))
    if isinstance(lp.body[0], ast.If):
        ib = [ws(unparse(s)) for s in lp.body[0].body]
        L.check(ib == ['%s._PARTIAL_ALIGNMENT = %s' % (tv, av), '%s = 1' % av] and not lp.body[0].orelse,
                'F16.block-alignment-fold', 'add_attributes|block-end', f.site(lp.body[0]),
                'a dynamic field closes a block: it gets the alignment of the block that follows, then the fold restarts at 1',
                ' ; '.join(ib))
        block_splitter(ctx, L, f, lp.body[0].test, tv)
    inner = gen.func('struct_generator.add_attributes.get_padded_sizes')
    src = ws(unparse(inner.node))
    for piece, why in (('offset = 0', 'offsets start at 0'), ('for size, alignment in zip(sizes, alignments):', 'each size is paired with the alignment of the NEXT member (the last with the struct alignment)'),
                       ('offset += size', 'the running offset adds each slot size'),
                       ('padding = distance_to_next_multiply(offset, alignment)', 'padding is the distance to the next multiple'),
                       ('offset += padding', 'the running offset adds the padding'), ('yield padding', 'every padding is counted')):
        L.check(piece in src, 'F16.layout-formula', 'get_padded_sizes|' + piece, inner.site(), why, '')
    L.check(inn('types[1:]] + [cls._ALIGNMENT]', src), 'F16.layout-formula', 'get_padded_sizes|next-alignment', inner.site(),
            'padding after member i aligns member i+1; after the last member, the struct', '')
    guard = [n for n in f.node.body if isinstance(n, ast.If) and 'struct_packed' in unparse(n.test)]
    L.check(len(guard) == 1 and ws(unparse(guard[0].test)) == 'not issubclass(cls, struct_packed) and cls._descriptor',
            'F16.layout-formula', 'add_attributes|packed-guard', f.site(), 'padding is skipped exactly for struct_packed', '')
    # union
    u = gen.func('union_generator.add_attributes')
    for k, src_, why in (
            ('_ALIGNMENT', 'cls._ALIGNMENT = max(u32._ALIGNMENT, max((type_._ALIGNMENT for type_ in cls._types())))',
             'union alignment = max(discriminator alignment, max arm alignment)'),
            ('natural', 'natural_size = cls._ALIGNMENT + max((type_._SIZE for type_ in cls._types()))',
             'union body starts one alignment unit after the discriminator and holds the largest arm'),
            ('_SIZE', 'cls._SIZE = natural_size + distance_to_next_multiply(natural_size, cls._ALIGNMENT)',
             'union size is rounded up to its alignment'),
            ('disc', 'cls._discriminator_type = u32', 'the discriminator is a u32'),
            ('_DYNAMIC', 'cls._DYNAMIC = False', 'unions are fixed')):
        L.check(has(u, src_), 'F16.layout-formula', 'union_generator.add_attributes|' + k, u.site(), why + ' (expected `%s`)' % src_, '')
    # optional
    o = ctx.py.mod('prophy.optional').func('optional')
    for k, src_, why in (
            ('_OPTIONAL_ALIGNMENT', '_optional._OPTIONAL_ALIGNMENT = max(scalar.u32._ALIGNMENT, cls._ALIGNMENT)',
             'optional slot alignment = max(flag alignment 4, value alignment)'),
            ('_OPTIONAL_SIZE', '_optional._OPTIONAL_SIZE = _optional._OPTIONAL_ALIGNMENT + cls._SIZE',
             'optional slot size = flag padded to the slot alignment + value size'),
            ('_optional_type', '_optional._optional_type = scalar.u32', 'the flag is a u32'),
            ('_OPTIONAL', '_optional._OPTIONAL = True', 'marks the class optional')):
        L.check(has(o, src_), 'F16.layout-formula', 'optional|' + k, o.site(), why + ' (expected `%s`)' % src_, '')
    # array() / bytes_() statics
    a = ctx.py.mod('prophy.container').func('array')
    cls = [c for c in a.node.body if isinstance(c, ast.ClassDef)]
    if len(cls) != 1:
        raise AnalysisError('array(): class _array not found')
    attrs = {unparse(s.targets[0]): ws(unparse(s.value)) for s in cls[0].body if isinstance(s, ast.Assign)}
    want = {'_max_len': 'size', '_TYPE': 'type_', '_SIZE': 'size * type_._SIZE', '_DYNAMIC': 'not size',
            '_UNLIMITED': 'not size and (not bound)', '_OPTIONAL': 'False', '_ALIGNMENT': 'type_._ALIGNMENT', '_BOUND': 'bound',
            '_BOUND_SHIFT': 'shift', '_PARTIAL_ALIGNMENT': 'None'}
    for k, v in want.items():
        L.check(attrs.get(k) == v, 'F16.layout-formula', 'array()._array.' + k, a.site(cls[0]),
                'static %s of an array class must be `%s`' % (k, v), str(attrs.get(k)))
    b = ctx.py.mod('prophy.composite').func('bytes_')
    cls = [c for c in b.node.body if isinstance(c, ast.ClassDef)]
    attrs = {unparse(s.targets[0]): ws(unparse(s.value)) for s in cls[0].body if isinstance(s, ast.Assign)}
    want = {'_SIZE': 'size', '_DYNAMIC': 'not size', '_UNLIMITED': 'not size and (not bound)', '_OPTIONAL': 'False',
            '_ALIGNMENT': '1', '_BOUND': 'bound', '_BOUND_SHIFT': 'shift', '_PARTIAL_ALIGNMENT': 'None'}
    for k, v in want.items():
        L.check(attrs.get(k) == v, 'F16.layout-formula', 'bytes_()._bytes.' + k, b.site(cls[0]),
                'static %s of a bytes class must be `%s`' % (k, v), str(attrs.get(k)))
    n = ctx.py.mod('prophy.scalar').func('numeric_decorator')
    for k, v in (('_SIZE', 'size'), ('_ALIGNMENT', 'size'), ('_DYNAMIC', 'False'), ('_UNLIMITED', 'False'), ('_OPTIONAL', 'False'),
                 ('_BOUND', 'None'), ('_PARTIAL_ALIGNMENT', 'None')):
        L.check(has(n, 'cls.%s = %s' % (k, v)), 'F16.layout-formula', 'numeric_decorator.' + k, n.site(),
                'a scalar has %s = %s' % (k, v), '')


# abstract runtime member types for the block splitter (E6): name -> attribute values the guard may read
ABSTRACT_RT = {
    'scalar': dict(array=False, bytes=False, struct=False, union=False, DYNAMIC=False),
    'enum': dict(array=False, bytes=False, struct=False, union=False, DYNAMIC=False),
    'optional scalar': dict(array=False, bytes=False, struct=False, union=False, DYNAMIC=False),
    'fixed bytes': dict(array=False, bytes=True, struct=False, union=False, DYNAMIC=False),
    'limited bytes': dict(array=False, bytes=True, struct=False, union=False, DYNAMIC=False),
    'dynamic bytes': dict(array=False, bytes=True, struct=False, union=False, DYNAMIC=True),
    'greedy bytes': dict(array=False, bytes=True, struct=False, union=False, DYNAMIC=True),
    'fixed array': dict(array=True, bytes=False, struct=False, union=False, DYNAMIC=False),
    'limited array': dict(array=True, bytes=False, struct=False, union=False, DYNAMIC=False),
    'dynamic array': dict(array=True, bytes=False, struct=False, union=False, DYNAMIC=True),
    'greedy array': dict(array=True, bytes=False, struct=False, union=False, DYNAMIC=True),
    'fixed struct': dict(array=False, bytes=False, struct=True, union=False, DYNAMIC=False),
    'dynamic struct': dict(array=False, bytes=False, struct=True, union=False, DYNAMIC=True),
    'unlimited struct': dict(array=False, bytes=False, struct=True, union=False, DYNAMIC=True),
    'union': dict(array=False, bytes=False, struct=False, union=True, DYNAMIC=False),
}


def eval_rt_guard(test, var, t):
    """Evaluate a guard over one abstract runtime type. Only issubclass/attribute/bool operators."""
    if isinstance(test, ast.BoolOp):
        vals = [eval_rt_guard(v, var, t) for v in test.values]
        return all(vals) if isinstance(test.op, ast.And) else any(vals)
    if isinstance(test, ast.UnaryOp) and isinstance(test.op, ast.Not):
        return not eval_rt_guard(test.operand, var, t)
    if isinstance(test, ast.Call) and unparse(test.func) == 'issubclass' and unparse(test.args[0]) == var:
        cls = test.args[1].elts if isinstance(test.args[1], ast.Tuple) else [test.args[1]]
        names = {'base_array': 'array', 'bytes': 'bytes', 'struct': 'struct', 'union': 'union'}
        out = False
        for c in cls:
            k = names.get(unparse(c))
            if k is None:
                raise AnalysisError('block splitter: unknown class %s in issubclass' % unparse(c))
            out = out or t[k]
        return out
    if isinstance(test, ast.Attribute) and unparse(test.value) == var and test.attr == '_DYNAMIC':
        return t['DYNAMIC']
    raise AnalysisError('block splitter predicate has an unrecognised term: %s' % unparse(test))


def block_splitter(ctx, L, f, test, var='type_'):
    """docs/encoding.rst: blocks end with dynamic fields - every member whose type is dynamic."""
    for name, t in sorted(ABSTRACT_RT.items()):
        if name in ('unlimited struct', 'greedy array', 'greedy bytes'):
            continue    # can only be the last member (struct_generator.validate): no block follows, value irrelevant
        got = eval_rt_guard(test, var, t)
        want = t['DYNAMIC']
        L.check(got == want, 'E6.block-splitter', 'add_attributes|' + name, f.site(test),
                'the runtime\'s "dynamic field" predicate `%s` is %s for a %s member but the documented block rule (and the '
                'model, and the C++ codec) treat it as %s: the block after it is %saligned'
                % (unparse(test), got, name, 'a block end' if want else 'no block end', 'not ' if want else 'wrongly '),
                unparse(test))


def counter_clause(ctx, L):
    """Counters are derived from the arrays, never stored."""
    d = ctx.py.mod('prophy.descriptor').func('encode_array_delimiter')
    L.check(has(d, 'return type_._encode(type_.evaluate_size(parent), endianness)'), 'C01.counter-derived',
            'encode_array_delimiter', d.site(), 'the encoded counter must be evaluate_size(parent), not the stored/passed value',
            unparse(d.node))
    g = ctx.py.mod('prophy.generators')
    e = g.func('build_container_length_field.container_len.evaluate_size')
    L.check(has(e, 'sizes = set((len(getattr(parent, c_name)) for c_name in cls._BOUND))') and has(e, 'return sizes.pop()'),
            'C01.counter-derived', 'container_len.evaluate_size', e.site(),
            'the count is the common length of the bound arrays', unparse(e.node))
    L.check(any(isinstance(n, ast.If) and unparse(n.test) == 'len(sizes) != 1' and terminates(n.body) for n in e.node.body),
            'C01.counter-derived', 'container_len.evaluate_size|mismatch', e.site(),
            'unequal lengths of arrays sharing a sizer must be refused', '')
    c = g.func('build_container_length_field.container_len._encode')
    L.check(has(c, 'return sizer_item_type._encode(value + bound_shift, endianness)',
                'return sizer_item_type._encode(sizer_item_type._check(value + bound_shift), endianness)'), 'C01.counter-derived',
            'container_len._encode', c.site(), 'the counter on the wire is count + bound_shift in the sizer type', unparse(c.node))
    s = g.func('struct_generator.substitute_len_field')
    L.check(has(s, 'delattr(cls, sizer_item.name)'), 'C10d.counter-unsettable', 'substitute_len_field', s.site(),
            'the sizer property is removed so that a counter cannot be assigned', '')


def slot_sizes(ctx, L):
    """Limited arrays / bytes are padded to their static size; element encoders."""
    cont = ctx.py.mod('prophy.container')
    for q, elem in (('bound_scalar_array._encode_impl', 'self._TYPE._encode(value, endianness)'),
                    ('bound_composite_array._encode_impl', 'value.encode(endianness)'),
                    ('fixed_scalar_array._encode_impl', 'self._TYPE._encode(value, endianness)'),
                    ('fixed_composite_array._encode_impl', 'value.encode(endianness)')):
        f = cont.func(q)
        src = ws(unparse(f.node.body[-1]))
        core = "return b''.join((%s for value in self))" % elem
        G_ = module_globals(f.module)
        if q.startswith('bound'):
            ok = _canon(f.node.body[-1], G_) == _canon(core + ".ljust(self._SIZE, b'\\x00')", G_)
        else:
            ok = _canon(f.node.body[-1], G_) == _canon(core, G_)
        L.check(ok, 'C01.slot-size', q, f.site(), 'elements are encoded in order with the element codec%s'
                % (' and the slot is padded to the static size self._SIZE' if q.startswith('bound') else ''), src)
    comp = ctx.py.mod('prophy.composite')
    e = comp.func('bytes_._bytes._encode')
    L.check(has(e, "return value.ljust(size, b'\\x00')"), 'C01.slot-size', '_bytes._encode', e.site(),
            'bytes are padded to their static size', unparse(e.node))
    desc = ctx.py.mod('prophy.descriptor')
    for q, src in (('encode_array', 'return value._encode_impl(endianness)'), ('encode_composite', 'return value.encode(endianness)'),
                   ('encode_bytes', 'return type_._encode(value)'), ('encode_scalar', 'return type_._encode(value, endianness)')):
        f = desc.func(q)
        L.check(has(f, src), 'C01.field-codec', q, f.site(), 'field codec must be `%s`' % src, unparse(f.node))


def codec_dispatch(ctx, L):
    """F10: codec_kind.classify covers exactly the kinds of all_codecs, in an order that classifies each runtime
    type to its own codec (optional first, sizer before scalar, array before composite ...)."""
    comp = ctx.py.mod('prophy.composite')
    cl = comp.func('codec_kind.classify')
    mapping = [n for n in ast.walk(cl.node) if isinstance(n, ast.List)]
    if len(mapping) != 1:
        raise AnalysisError('codec_kind.classify: mapping list not found')
    order = [(unparse(e.elts[0]), unparse(e.elts[1])) for e in mapping[0].elts]
    want = [('cls.is_optional', 'cls.OPTIONAL'), ('cls.is_array_sizer', 'cls.ARRAY_SIZER'), ('cls.is_array', 'cls.ARRAY'),
            ('cls.is_composite', 'cls.COMPOSITE'), ('cls.is_bytes', 'cls.BYTES')]
    L.check(order == want, 'F10.codec-dispatch', 'codec_kind.classify|order', cl.site(),
            'classification order must be optional, sizer, array, composite, bytes, else scalar', str(order))
    L.check(has(cl, 'return cls.SCALAR'), 'F10.codec-dispatch', 'codec_kind.classify|default', cl.site(), 'everything else is a scalar', '')
    ev = ctx.py.mod('prophy.descriptor').func('DescriptorField.evaluate_codecs')
    tables = [n for n in ast.walk(ev.node) if isinstance(n, ast.Dict)]
    if len(tables) != 1:
        raise AnalysisError('evaluate_codecs: all_codecs table not found')
    table = {unparse(k): unparse(v) for k, v in zip(tables[0].keys, tables[0].values)}
    want_t = {'codec_kind.OPTIONAL': '(encode_optional, decode_optional)',
              'codec_kind.ARRAY_SIZER': '(encode_array_delimiter, decode_array_delimiter)',
              'codec_kind.ARRAY': '(encode_array, decode_array)', 'codec_kind.COMPOSITE': '(encode_composite, decode_composite)',
              'codec_kind.BYTES': '(encode_bytes, decode_bytes)', 'codec_kind.SCALAR': '(encode_scalar, decode_scalar)'}
    L.check(table == want_t, 'F10.codec-dispatch', 'evaluate_codecs|all_codecs', ev.site(),
            'every codec kind must map to its own (encode, decode) pair', str(table))
    preds = {'is_optional': 'return bool(type_._OPTIONAL)', 'is_array_sizer': 'return type_._BOUND and issubclass(type_, (int, long))',
             'is_array': 'return issubclass(type_, base_array)', 'is_composite': 'return issubclass(type_, (struct, union))',
             'is_bytes': 'return issubclass(type_, bytes)', 'is_struct': 'return issubclass(type_, struct)',
             'is_union': 'return issubclass(type_, union)', 'is_enum': 'return issubclass(type_, enum)'}
    for k, v in preds.items():
        f = comp.func('codec_kind.' + k)
        L.check(has(f, v), 'F10.codec-dispatch', 'codec_kind.' + k, f.site(), 'predicate must be `%s`' % v, unparse(f.node.body[-1]))
    L.check(has(ev, 'self.type._encode = staticmethod(opt_encode)') and has(ev, 'self.type._decode = staticmethod(opt_decode)')
            and has(ev, 'base_kind = codec_kind.classify(self.type.__bases__[0])'), 'F10.codec-dispatch',
            'evaluate_codecs|optional-base', ev.site(), 'an optional delegates to the codec of its base type', '')


# ------------------------------------------------------------------------------------------------ semantic text (E1c)
def _assigned_names(f):
    """{name: number of binding occurrences} over the function body (assignments, augmented assignments, loop / with /
    comprehension targets, except-as, imports)."""
    cnt = {}
    for n in f.walk():
        if isinstance(n, ast.Name) and isinstance(n.ctx, (ast.Store, ast.Del)):
            cnt[n.id] = cnt.get(n.id, 0) + 1
        elif isinstance(n, ast.AugAssign) and isinstance(n.target, ast.Name):
            cnt[n.target.id] = cnt.get(n.target.id, 0) + 1
        elif isinstance(n, ast.ExceptHandler) and n.name:
            cnt[n.name] = cnt.get(n.name, 0) + 1
    return cnt


_PURE_CALLS = ('len', 'max', 'min', 'abs', 'isinstance', 'issubclass', 'bool', 'int', 'sum', 'any', 'all', 'type', 'getattr',
               'hasattr', 'tuple', 'frozenset', 'str', 'repr')


def _pure(e):
    for n in ast.walk(e):
        if isinstance(n, ast.Call):
            fn = unparse(n.func)
            if fn not in _PURE_CALLS and not fn.startswith('os.path.'):
                return False
        elif isinstance(n, (ast.Yield, ast.YieldFrom, ast.Await, ast.NamedExpr, ast.Lambda)):
            return False
    # a fresh mutable container is an object, not a value: the name stands for that one object
    if isinstance(e, (ast.List, ast.Dict, ast.Set, ast.ListComp, ast.SetComp, ast.DictComp, ast.GeneratorExp)):
        return False
    return True


def local_defs(f):
    """Locals with exactly one binding `name = <pure expression>` whose operands are themselves never rebound in the function
    (so the expression means the same wherever the name is used): they may be replaced by their definition."""
    cnt = _assigned_names(f)
    defs = {}
    for n in f.walk():
        if isinstance(n, ast.Assign) and len(n.targets) == 1 and isinstance(n.targets[0], ast.Name) and cnt.get(n.targets[0].id) == 1 \
                and n.targets[0].id not in f.params and _pure(n.value):
            defs[n.targets[0].id] = n.value
    # a loop variable is bound once per iteration: a local defined from it *inside that loop body* means the same for the rest of
    # the iteration
    loop_of = {}
    where = {}
    for n in [f.node] + list(f.walk()):
        if isinstance(n, ast.For):
            inside = set(id(x) for st in n.body for x in ast.walk(st))
            for t in ast.walk(n.target):
                if isinstance(t, ast.Name):
                    loop_of.setdefault(t.id, []).append(inside)
        if isinstance(n, ast.Assign) and len(n.targets) == 1 and isinstance(n.targets[0], ast.Name):
            where[n.targets[0].id] = id(n)
    changed = True
    while changed:
        changed = False
        for k, v in list(defs.items()):
            for x in ast.walk(v):
                if not (isinstance(x, ast.Name) and x.id != k):
                    continue
                budget = 1 if x.id in defs else 0
                if x.id in loop_of and len(loop_of[x.id]) == 1 and where.get(k) in loop_of[x.id][0]:
                    budget = 1
                if cnt.get(x.id, 0) > budget:
                    defs.pop(k)
                    changed = True
                    break
    return defs


def _sem(node, params, defs, globals_, order=None):
    import copy
    from .. import canon as _cn
    node = copy.deepcopy(node)

    class T(ast.NodeTransformer):
        depth = 0

        def visit_Name(self, n):
            if n.id in params and isinstance(n.ctx, ast.Load):
                return ast.copy_location(ast.Name(id='_P%d' % params.index(n.id), ctx=n.ctx), n)
            if n.id in defs and isinstance(n.ctx, ast.Load) and self.depth < 6:
                self.depth += 1
                r = self.visit(copy.deepcopy(defs[n.id]))
                self.depth -= 1
                return r
            return n
    wrap = ast.Module(body=[node if isinstance(node, ast.stmt) else ast.Expr(value=node)], type_ignores=[])
    wrap = T().visit(wrap)
    ast.fix_missing_locations(wrap)
    wrap = _cn.normalise(wrap)
    if order is None:
        order = {}
    def dfs(node):
        # structural order (rewritten trees carry line numbers of several places of the source: positions do not order them)
        if isinstance(node, ast.Name):
            yield node
        for c in ast.iter_child_nodes(node):
            for x in dfs(c):
                yield x
    for n in dfs(wrap):
        if n.id in globals_ or hasattr(_builtins, n.id) or n.id in ('self', 'cls') or n.id.startswith('_P'):
            continue
        if n.id not in order:
            order[n.id] = '_L%d' % len(order)
        n.id = order[n.id]
    return ws(unparse(wrap)).strip()


def _eff_params(f):
    """Parameters by position - except those the function re-binds (and N14 could not split into versions): such a name stands
    for different values at different places and is treated like a local."""
    rebound = set()
    for n in f.walk():
        if isinstance(n, ast.Name) and isinstance(n.ctx, (ast.Store, ast.Del)):
            rebound.add(n.id)
        elif isinstance(n, ast.AugAssign) and isinstance(n.target, ast.Name):
            rebound.add(n.target.id)
    return [p if p not in rebound else '<rebound %d>' % i for i, p in enumerate(f.params)]


def sem_text(f, node):
    """Meaning-level text of an expression / statement of `f`: parameters by position, single-definition pure locals replaced by
    their definitions, remaining locals numbered, normal form (sa/canon.py)."""
    return _sem(node, _eff_params(f), local_defs(f), module_globals(f.module) | ALL_GLOBALS)


def sem_expected(text, params, module=None):
    """The same for an expected fragment written with the parameter names `params` (positional)."""
    tree = ast.parse(_dedent(text))
    node = tree.body[0] if len(tree.body) == 1 else tree
    if isinstance(node, ast.Expr):
        node = node.value
    if isinstance(node, ast.Module):
        raise AnalysisError('sem_expected takes one statement or expression: %r' % text[:60])
    g = set(ALL_GLOBALS) | (module_globals(module) if module is not None else set())
    return _sem(node, list(params), {}, g)


def sem_is(f, node, text, params=None):
    return sem_text(f, node) == sem_expected(text, params if params is not None else f.params, f.module)


def facts(f, node):
    """What is known to hold when `node` starts executing (path conditions in atomic form), as {(meaning-level text, polarity)}."""
    return set((sem_text(f, t), pol) for t, pol, how in path_conditions(f.module, f, node))


def facts_how(f, node):
    return [(sem_text(f, t), pol, how) for t, pol, how in path_conditions(f.module, f, node)]


def expected_facts(guard, holds, params, module=None):
    """The atomic facts of `guard` (an expression written with the parameter names `params`) holding / failing."""
    from ..pyfront import atomise
    from .. import canon as _cn
    tree = _cn.normalise(ast.parse(guard.strip(), mode='eval'))
    g = set(ALL_GLOBALS) | (module_globals(module) if module is not None else set())
    return set((_sem(t, list(params), {}, g), pol) for t, pol, how in atomise([(tree.body, holds, 'expected')]))


def knows(f, node, guard, holds, params=None):
    """Is `guard` known to hold (or to fail) whenever `node` is reached?"""
    return expected_facts(guard, holds, params if params is not None else f.params, f.module) <= facts(f, node)


def presence_by_identity(ctx, L):
    """A stored field value is never tested for truthiness: 0, 0.0, '', b'' and the enumerator 0 are values. In the property
    getters / setters of prophy.generators and in encode_optional the value (the setter's argument, `self._fields.get(..)`,
    `self._fields[..]`, encode_optional's `value`) may be compared with `is None` but must not be the operand of `if`, `not`,
    `and` / `or`: `get(name) or DEFAULT` returns the default for a stored 0, `if new_value: check` stores unchecked falsy junk,
    `if not value` encodes a present 0 as absent."""
    gen = ctx.py.mod('prophy.generators')
    desc = ctx.py.mod('prophy.descriptor')
    funcs = [(f, [f.params[1]] if len(f.params) > 1 and f.qualname.endswith('.setter') else [])
             for f in gen.all_funcs() if f.qualname.endswith(('.getter', '.setter'))
             # (composite properties hold message objects, which are always truthy: `if value:` there only means "already created")
             and 'composite_property' not in f.qualname]
    funcs.append((desc.func('encode_optional'), ['value']))
    n = 0
    for f, value_names in funcs:
        def is_value(e):
            if isinstance(e, ast.Name) and re.sub(r'^__v\d+_', '', e.id) in value_names:
                return True
            if isinstance(e, ast.Call) and ws(unparse(e.func)) == 'self._fields.get' and len(e.args) == 1:
                return True
            if isinstance(e, ast.Subscript) and ws(unparse(e.value)) == 'self._fields' and isinstance(e.ctx, ast.Load):
                return True
            return False
        tested = []
        for node in f.walk():
            if isinstance(node, (ast.If, ast.IfExp, ast.While)):
                tested.append(node.test)
            elif isinstance(node, ast.BoolOp):
                tested.extend(node.values[:-1])
            elif isinstance(node, ast.UnaryOp) and isinstance(node.op, ast.Not):
                tested.append(node.operand)
        n += 1
        bad = []
        for t in tested:
            stack = [t]
            while stack:
                e = stack.pop()
                if isinstance(e, ast.UnaryOp) and isinstance(e.op, ast.Not):
                    stack.append(e.operand)
                elif isinstance(e, ast.BoolOp):
                    stack.extend(e.values)
                elif is_value(e):
                    bad.append(e)
        L.check(not bad, 'C10g.presence-by-identity', f.fq, f.site(bad[0] if bad else None),
                'a field value is tested for truthiness (`%s`): a stored 0 / 0.0 / empty value is then treated like an absent one '
                '(presence is decided by `is None` / key membership only)' % (ws(unparse(bad[0])) if bad else ''),
                ws(unparse(f.node))[:300])
    L.floor('C10g.presence-by-identity', n, 7)


def fails_on_every_path(f, stmt, guard, params=None):
    """Like knows_fails, but path by path: every path that reaches the statement knows the guard (or, for a conjunction, one of
    its conjuncts) to be false - what is known after a join differs per path (`if size: if too long: raise` ... `return value`)."""
    from ..pyfront import paths_to
    paths = paths_to(f, stmt)
    if paths is None:
        return False
    prm = list(params if params is not None else f.params)
    e = ast.parse(guard.strip(), mode='eval').body
    parts = [ast.unparse(v) for v in e.values] if isinstance(e, ast.BoolOp) and isinstance(e.op, ast.And) else []
    alternatives = [expected_facts(guard, False, prm, f.module)] + [expected_facts(p_, False, prm, f.module) for p_ in parts]
    for facts_ in paths:
        got = set((sem_text(f, t), pol) for t, pol, how in facts_)
        if not any(a <= got for a in alternatives):
            return False
    return True


def knows_fails(f, node, guard, params=None):
    """Is `guard` known to be false whenever `node` is reached? A conjunction is false as soon as one conjunct is known to be
    false (`if not size: return value` has left the test `size and len(value) > size` behind just as well as failing it has)."""
    if knows(f, node, guard, False, params):
        return True
    e = ast.parse(guard.strip(), mode='eval').body
    if isinstance(e, ast.BoolOp) and isinstance(e.op, ast.And):
        return any(knows_fails(f, node, ast.unparse(v), params) for v in e.values)
    return False


class _FakeFunc(object):
    """Expected code given as text, wrapped so that it is processed exactly like a function of the repository."""

    def __init__(self, text, params, module=None):
        src = 'def _expected(%s):\n%s' % (', '.join(params), '\n'.join('    ' + l for l in _dedent(text).splitlines()))
        from .. import canon as _cn
        from .. import inline as _il
        tree = _cn.normalise(ast.parse(src))
        if _il.inline_module(tree, '<reference>'):
            tree = _cn.normalise(tree)
        self.node = tree.body[0]
        self.params = list(params)
        self.module = module

    def walk(self, into_nested=False):
        stack = list(self.node.body)
        while stack:
            n = stack.pop()
            yield n
            stack.extend(ast.iter_child_nodes(n))


def _body(node):
    body = list(node.body)
    if body and isinstance(body[0], ast.Expr) and isinstance(body[0].value, ast.Constant) and isinstance(body[0].value.value, str):
        body = body[1:]
    return body


def sem_body(f):
    g = (module_globals(f.module) if f.module is not None else set()) | ALL_GLOBALS
    defs = local_defs(f)
    out = []
    order = {}              # locals are numbered once per function: `a += [b]` and `b += [a]` stay different
    for st in _body(f.node):
        if isinstance(st, ast.Assign) and len(st.targets) == 1 and isinstance(st.targets[0], ast.Name) and st.targets[0].id in defs:
            continue        # the definition of an inlined local
        out.append(_sem(st, _eff_params(f), defs, g, order))
    return ' ; '.join(out)


def body_is(f, *alternatives, **kw):
    """The whole body of `f` means the same as one of the expected bodies (written as real code with the parameter names
    `params`, default: the function's own)."""
    params = kw.get('params') or f.params
    got = sem_body(f)
    return any(got == sem_body(_FakeFunc(a, params, f.module)) for a in alternatives)


def trace(f, am, member_var, props, env=None, body=None, pre_order=None):
    """What `f` does for one abstract member, at meaning level: the statements executed on the member's path (single-definition
    locals replaced by their definitions, parameters by position, state guards kept as conditions) and how the path ends."""
    from .. import predabs
    ev = predabs.Evaluator(props, member_var, dict(env or {}))
    effects, outcome = predabs.abstract_exec(_body(f.node) if body is None else body, ev, am, [member_var])
    g = (module_globals(f.module) if f.module is not None else set()) | ALL_GLOBALS
    defs = local_defs(f)
    out = []
    order = dict(pre_order or {})
    for text, maybe, node in effects:
        if isinstance(node, ast.Assign) and len(node.targets) == 1 and isinstance(node.targets[0], ast.Name) and node.targets[0].id in defs:
            continue
        conds = tuple(('' if pol else 'not ') + _sem(t, _eff_params(f), defs, g, order) for pol, t in maybe)
        out.append((conds, _sem(node, _eff_params(f), defs, g, order)))
    return out, outcome if isinstance(outcome, str) else outcome[0]


def differs_from_reference(f, reference, params, member_var, props, domain, env=None):
    """Abstract members for which `f` does not do what the reference code (real code, same parameter order) does:
    [(member, got trace, reference trace)]."""
    ref = _FakeFunc(reference, params, f.module)
    out = []
    env_f = dict((f.params[params.index(k)] if k in params and params.index(k) < len(f.params) else k, v) for k, v in (env or {}).items())
    if len(f.params) != len(params):
        return [(None, 'parameters %s' % f.params, 'parameters %s' % params)]
    for am in domain:
        got = trace(f, am, f.params[params.index(member_var)], props, env_f)
        want = trace(ref, am, member_var, props, env)
        if got != want:
            out.append((am, got, want))
    return out


def _src_hook(piece, src):
    """`piece in src` for pyfront.Src: normal form of the fragment, local names consistently renamable."""
    if not isinstance(piece, str) or len(piece) < 10 or not re.search(r'[\s(=\[]', piece.strip()):
        return False        # a bare word is looked up literally only
    text = src if '\n' not in src else re.sub(r'\s+', ' ', str(src))
    try:
        return contains(str(text), piece, ALL_GLOBALS)
    except AnalysisError:
        return False


from ..pyfront import Src as _Src  # noqa: E402
_Src.hook = staticmethod(_src_hook)


# ------------------------------------------------------------------------------------------------ authored names (E1d)
class _ModuleShim(object):
    """The module of a renamed clone: parent links of the cloned tree, everything else from the real module."""

    def __init__(self, real, root):
        self._real = real
        self._parents = {}
        for p in ast.walk(root):
            for c in ast.iter_child_nodes(p):
                self._parents[id(c)] = p

    def parent(self, node):
        return self._parents.get(id(node))

    def __getattr__(self, name):
        return getattr(self._real, name)


def authored(f, params, locals_by_value=(), loop_targets=()):
    """A clone of `f` in which the parameters carry the names the rule was written with (by position) and locals are named by
    what they are bound to: `locals_by_value` = [(text of the defining expression in authored names, name)], `loop_targets` =
    [(text of the iterated expression, [names])]. Rules written against the authored names then hold for any spelling."""
    import copy
    from ..pyfront import Func
    if len(params) != len(f.params):
        raise AnalysisError('%s: signature changed (%s), the rule was written for (%s)' % (f.fq, ', '.join(f.params), ', '.join(params)))
    node = copy.deepcopy(f.node)
    ren = dict((old, new) for old, new in zip(f.params, params) if old != new)

    def apply(mapping):
        if not mapping:
            return
        # two-phase to allow swaps
        tmp = dict((k, '__ren_%d' % i) for i, k in enumerate(mapping))
        for phase in (tmp, dict((tmp[k], v) for k, v in mapping.items())):
            for n in ast.walk(node):
                if isinstance(n, ast.Name) and n.id in phase:
                    n.id = phase[n.id]
                elif isinstance(n, ast.arg) and n.arg in phase:
                    n.arg = phase[n.arg]
    apply(ren)
    for _ in range(3):
        more = {}
        for n in ast.walk(node):
            if isinstance(n, ast.Assign) and len(n.targets) == 1 and isinstance(n.targets[0], ast.Name):
                vt = re.sub(r'\s+', ' ', ast.unparse(n.value))
                for text, name in locals_by_value:
                    if vt == text and n.targets[0].id != name:
                        more[n.targets[0].id] = name
            elif isinstance(n, (ast.For, ast.comprehension)):
                it = re.sub(r'\s+', ' ', ast.unparse(n.iter))
                for text, names in loop_targets:
                    tg = n.target.elts if isinstance(n.target, ast.Tuple) else [n.target]
                    if it == text and len(tg) == len(names) and all(isinstance(t, ast.Name) for t in tg):
                        for t, nm in zip(tg, names):
                            if t.id != nm:
                                more[t.id] = nm
        if not more:
            break
        apply(more)
    shim = _ModuleShim(f.module, node)
    g = Func(shim, f.qualname, node, f.parent, f.cls)
    return g


# ------------------------------------------------------------------------------------------------ per-field type objects
def partial_alignment_owner(ctx, L):
    """struct_generator.add_attributes stores the block alignment of a dynamic field on the field's *type object*
    (`type_._PARTIAL_ALIGNMENT = alignment`). That is only sound if the type object belongs to this one field:
    (1) the store is reached only for array / bytes types (named struct classes are shared by every struct embedding them);
    (2) the array and bytes factories build a fresh class on every call (no cache of returned classes)."""
    gen = ctx.py.mod('prophy.generators')
    f = gen.func('struct_generator.add_attributes')
    stores = [a for a in f.walk() if isinstance(a, ast.Assign) and any(isinstance(t, ast.Attribute) and t.attr == '_PARTIAL_ALIGNMENT'
                                                                      and not unparse(t.value) == 'cls' for t in a.targets)]
    L.check(len(stores) >= 1, 'F16.per-field-type', 'add_attributes|store-present', f.site(), 'the block alignment is stored on the dynamic field type', '')
    for a in stores:
        tv = unparse([t for t in a.targets if isinstance(t, ast.Attribute)][0].value)
        ok = knows(f, a, 'issubclass(%s, (base_array, bytes))' % tv, True, [])
        L.check(ok, 'F16.per-field-type', 'add_attributes|%s' % norm_key(f, a), f.site(a),
                '`%s._PARTIAL_ALIGNMENT` is written on a path that does not establish that the type is an array / bytes type created for '
                'this one field: a named struct class is shared by all structs embedding it, the last one defined overwrites the block '
                'alignment of the others (and struct padding is computed relative to the struct start on encode, on absolute positions '
                'on decode); known there: %s' % (tv, sorted(facts(f, a))), ws(unparse(a)))
    for modname, q in (('prophy.composite', 'bytes_'), ('prophy.container', 'array')):
        g = ctx.py.mod(modname).func(q)
        classes = set(s.name for s in g.node.body if isinstance(s, ast.ClassDef)) | \
            set(s.name for st in g.node.body for s in ast.walk(st) if isinstance(s, ast.ClassDef))
        rets = [r for r in g.walk() if isinstance(r, ast.Return)]
        bad = [r for r in rets if not (isinstance(r.value, ast.Name) and r.value.id in classes)]
        L.check(bool(rets) and not bad, 'F16.per-field-type', '%s|fresh-class' % q, g.site(bad[0] if bad else None),
                '%s() must return the class it has just defined (a fresh type object per field declaration): a cached / shared class '
                'carries the _PARTIAL_ALIGNMENT (block alignment) of whichever struct was defined last' % q,
                ws(unparse(bad[0])) if bad else '')
