"""C12 - whatever prophyc accepts every back-end can realise; rule breakers are rejected (structural clauses, F8/F17)."""
import ast
import re

from ..core import AnalysisError
from .shared_py import inn
from ..pyfront import unparse, try_const, path_conditions, norm_key
from .. import predabs, templ
from . import shared_raw as R
from . import shared_gen as G
from . import shared_model as M

FIXED, DYNAMIC, UNLIMITED = 0, 1, 2


from ..pyfront import ws  # noqa: E402,F401  (whitespace-collapsed, rename/normal-form tolerant `in`)


def run(ctx, L, tier):
    prophy_enforcement(ctx, L)
    isar_enforcement(ctx, L)
    runtime_rejections(ctx, L)
    check_nodes(ctx, L)
    interface(ctx, L)
    M.stiffness(ctx, L)
    from . import c20
    c20.shared_state(ctx, L)        # no state that survives from one compiled file / call to the next (module, class, closure, default argument)
    from . import shared_gen as _G
    _G.generators_read_only(ctx, L)
    from . import shared_raw as _R
    _R.hpp_struct(ctx, L)              # what is accepted must compile: one padder per struct (unique padding member names)
    return sorted(set(o.rule for o in L.obligations))


def parser_checks(f):
    """[(negated?, condition node, message source, call node)] for self._parser_check(cond, msg, ..) / self._parser_error(msg, ..)."""
    out = []
    for c in f.walk():
        if isinstance(c, ast.Call) and unparse(c.func) == 'self._parser_check' and len(c.args) >= 2:
            out.append((c.args[0], ws(unparse(c.args[1])), c))
    return out


def prophy_enforcement(ctx, L):
    """F8: each composability rule D1..D9 has an enforcement site in the prophy front-end whose guard covers the forbidden set."""
    pp = ctx.py.mod('prophyc.parsers.prophy')
    f = pp.func('Parser._validate_struct_members')
    props = predabs.model_props(ctx.py)
    ev = predabs.Evaluator(props, 'member')
    dom = [a for a in predabs.domain(composability=False) if a.padding == 0]
    checks = parser_checks(f)
    per_member = [(cond, msg, c) for cond, msg, c in checks]
    rules = {
        'D1': (lambda a: a.form in ('fixed', 'limited') and a.kind == DYNAMIC, 'dynamic struct in a fixed or limited array'),
        'D2': (lambda a: a.form != 'plain' and a.kind == UNLIMITED, 'unlimited struct in any array'),
        'D3': (lambda a: (not a.last) and (a.form == 'greedy' or a.kind == UNLIMITED), 'greedy array / unlimited struct not last'),
        'D4': (lambda a: a.optional and a.kind != FIXED, 'optional of a dynamic or unlimited type'),
    }
    n = 0
    for rid, (forbidden, what) in sorted(rules.items()):
        uncovered = []
        for a in dom:
            if a.elem == 'byte' and a.form == 'plain':
                continue
            if not forbidden(a):
                continue
            n += 1
            rejected = False
            for cond, msg, c in per_member:
                # D3's check runs over members[:-1] only
                in_nonlast = any(isinstance(p, ast.For) and 'members[:-1]' in unparse(p.iter) for p in ancestors(pp, c))
                if in_nonlast and a.last:
                    continue
                try:
                    ok = bool(ev.ev(cond, a))
                except predabs.Unknown:
                    continue
                if not ok:
                    rejected = True
            if not rejected:
                uncovered.append(a.label())
        L.check(not uncovered, 'F8.enforcement', 'prophy|' + rid, f.site(),
                'rule %s (%s) has no enforcement site in the prophy front-end for: %s - prophyc accepts the schema and the generated Python '
                'module fails at import / the C++ does not compile' % (rid, what, '; '.join(uncovered[:4])), str(uncovered[:6]))
    # no false rejections: a member that breaks no rule passes every per-member check
    for a in predabs.domain(composability=True):
        if a.padding:
            continue
        bad = []
        for cond, msg, c in per_member:
            in_nonlast = any(isinstance(p, ast.For) and 'members[:-1]' in unparse(p.iter) for p in ancestors(pp, c))
            if in_nonlast and a.last:
                continue
            try:
                if not ev.ev(cond, a) and 'redefined' not in msg and 'Sizer' not in msg:
                    bad.append(msg)
            except predabs.Unknown:
                pass
        L.check(not bad, 'F8.no-false-rejection', 'prophy|' + a.label(), f.site(),
                'a legal `%s` member is rejected by the front-end (%s)' % (a.label(), bad), str(bad))
    L.floor('F8.enforcement', n, 10)
    src = ws(unparse(f.node))
    # D6: sizer exists / precedes / integer / not optional / not array
    for k, piece, why in (
            ('exists-before', "bound, _, __ = next(six.ifilter(lambda m: m[0].name == member.bound, members[:i]), (None, None, None))",
             'the sizer is looked up among the members declared *before* the array'),
            ('missing', "self._parser_error(\"Sizer of '{}' has to be defined before the array\".format(name), line, pos)", 'a missing / later sizer is an error'),
            ('integer', "self._parser_check(self._is_type_sizer_compatible(bound.type_name), \"Sizer of '{}' has to be of (unsigned) integer type\".format(name), line, pos)",
             'the sizer type must be an integer builtin (through typedefs)'),
            ('not-optional-not-array', "self._parser_check(not bound.optional and (not bound.is_array), \"Sizer of '{}' must not be an optional or an array\".format(name), line, pos)",
             'the sizer must be a plain member (the runtime refuses optional sizers; an array cannot count)')):
        L.check(piece in src, 'F8.enforcement', 'prophy|D6-' + k, f.site(), 'rule D6: %s' % why, '')
    sc = pp.func('Parser._is_type_sizer_compatible')
    s = ws(unparse(sc.node))
    from . import shared_py as P
    L.check(P.body_is(sc, """
                if typename in {type_ + width for type_ in 'ui' for width in ['8', '16', '32', '64']}:
                    return True
                elif typename in seen:
                    return False
                elif typename in self.typedecls and isinstance(self.typedecls[typename], model.Typedef):
                    return self._is_type_sizer_compatible(self.typedecls[typename].type_name, seen + (typename,))
                else:
                    return False
            """, """
                if typename in {type_ + width for type_ in 'ui' for width in ['8', '16', '32', '64']}:
                    return True
                if typename in seen or typename not in self.typedecls or not isinstance(self.typedecls[typename], model.Typedef):
                    return False
                return self._is_type_sizer_compatible(self.typedecls[typename].type_name, seen + (typename,))
            """, """
                if typename in {type_ + width for type_ in 'ui' for width in ['8', '16', '32', '64']}:
                    return True
                if typename in seen:
                    return False
                if not isinstance(self.typedecls.get(typename), model.Typedef):      # (None, the result for an unknown name, is no Typedef)
                    return False
                return self._is_type_sizer_compatible(self.typedecls.get(typename).type_name, seen + (typename,))
            """, params=['self', 'typename', 'seen']), 'F8.enforcement', 'prophy|D6-integer-set', sc.site(),
            'a type is sizer-compatible iff it is one of the eight integer builtins or a typedef chain ending in one (float, double, '
            'byte, enums and composites are not)', s)
    # D7 duplicates
    L.check(inn("self._parser_check(name not in fieldnames, \"field '{}' redefined\".format(name), line, pos)", src) and 'fieldnames.add(name)' in src,
            'F8.enforcement', 'prophy|D7-fields', f.site(), 'duplicate field names are errors', '')
    u = pp.func('Parser.p_union_def')
    us = ws(unparse(u.node))
    for k, piece in (('D7-arms', "self._parser_check(member.name not in fieldnames, \"field '{}' redefined\".format(member.name), line, pos)"),
                     ('D7-discriminators', "self._parser_check(member.discriminator not in discriminatorvalues, \"duplicate discriminator value '{}'\".format(member.discriminator), line, pos)"),
                     ('D5-arm-fixed', "self._parser_check(member.kind == model.Kind.FIXED, \"dynamic union arm '{}'\".format(member.name), line, pos)")):
        L.check(piece in us, 'F8.enforcement', 'prophy|' + k, u.site(), 'union rule %s must be enforced' % k, '')
    uid = pp.func('Parser.p_unique_id')
    L.check("self._parser_check(t[1] not in self.typedecls and t[1] not in self.constdecls, \"name '{}' redefined\".format(t[1]), t.lineno(1), t.lexpos(1))" in ws(unparse(uid.node)),
            'F8.enforcement', 'prophy|D7-names', uid.site(), 'top-level names are unique', '')
    pe = pp.func('Parser.p_positive_expression')
    L.check("self._parser_check(t[1] > 0, \"array size '{}' non-positive\".format(t[1]), t.lineno(1), t.lexpos(1))" in ws(unparse(pe.node)),
            'F8.enforcement', 'prophy|D8', pe.site(), 'array sizes are positive', '')
    for q in ('Parser.p_struct_member_2', 'Parser.p_struct_member_5'):
        g = pp.func(q)
        L.check('positive_expression' in (ast.get_docstring(g.node) or ''), 'F8.enforcement', 'prophy|D8-' + q, g.site(),
                'array sizes go through positive_expression', '')
    # D9
    em = pp.func('Parser.p_enum_member')
    def range_checked(fn, operand):
        """a _parser_check whose condition is exactly 0 <= operand <= 2**32 - 1"""
        from . import shared_py as P
        for c in fn.walk():
            if isinstance(c, ast.Call) and unparse(c.func) == 'self._parser_check' and c.args:
                if P.sem_is(fn, c.args[0], '0 <= %s <= 4294967295' % operand, ['self', 't']) or \
                        P.sem_is(fn, c.args[0], '0 <= %s < 4294967296' % operand, ['self', 't']):
                    return True
        return False
    L.check(range_checked(em, 't[3]'), 'F8.enforcement', 'prophy|D9-enumerators', em.site(),
            'rule D9: enumerator values must fit 32 bits unsigned (the runtime enum is a u32 and refuses others at import)', ws(unparse(em.node))[:200])
    um = pp.func('Parser.p_union_member')
    L.check(range_checked(um, 't[1]'), 'F8.enforcement', 'prophy|D9-discriminators', um.site(),
            'rule D9: discriminator values must fit 32 bits unsigned', ws(unparse(um.node))[:200])
    # structural impossibilities (grammar): optional arrays/bytes, array/optional union arms, empty structs
    docs = {q: (ast.get_docstring(g.node) or '') for q in pp.funcs for g in pp.funcs[q] if q.startswith('Parser.p_')}
    L.check(docs.get('Parser.p_struct_member_7', '').strip() == "struct_member : type_spec '*' ID", 'F8.grammar', 'optional-only-plain', pp.rel,
            'optional members exist only for plain type_spec (no optional arrays / bytes)', docs.get('Parser.p_struct_member_7', ''))
    L.check(docs.get('Parser.p_union_member', '').strip() == 'union_member : expression COLON type_spec ID', 'F8.grammar', 'union-arm-plain', pp.rel,
            'union arms are plain (no arrays, no optionals, no bytes)', docs.get('Parser.p_union_member', ''))
    L.check('empty' not in docs.get('Parser.p_struct_member_list_1', '') + docs.get('Parser.p_struct_member_list_2', ''), 'F8.grammar',
            'struct-nonempty', pp.rel, 'a struct has at least one member', '')
    # the checks run before the node is created and errors fail the parse
    sd = pp.func('Parser.p_struct_def')
    L.check(ws(unparse(sd.node)).find('self._validate_struct_members(t[3])') < ws(unparse(sd.node)).find('model.Struct(t[2]'), 'F8.enforcement',
            'prophy|validate-before-create', sd.site(), 'members are validated for every struct definition', '')


def ancestors(mod, node):
    p = mod.parent(node)
    while p is not None:
        yield p
        p = mod.parent(p)


def isar_enforcement(ctx, L):
    """The isar front-end path: which D-rules have any rejection site (raise / error) at all."""
    isar = ctx.py.mod('prophyc.parsers.isar')
    src = isar.source
    model = ctx.py.mod('prophyc.model')
    common = ws(unparse(model.func('evaluate_model').node)) + ws(unparse(model.func('cross_reference').node))
    rejections = [r for f in isar.all_funcs() for r in f.walk() if isinstance(r, ast.Raise)]
    for rid, what, needle in (
            ('D1', 'dynamic struct in a fixed/limited array', r'DYNAMIC'), ('D2', 'unlimited struct in an array', r'UNLIMITED'),
            ('D3', 'greedy / unlimited not last', r'greedy|UNLIMITED'), ('D4', 'optional of a dynamic type', r'optional.*kind|kind.*optional'),
            ('D5', 'union arm fixed', r'Kind\.FIXED'), ('D6', 'sizer exists, precedes, is an integer', r'[Ss]izer'),
            ('D8', 'array size positive', r'positive|<= 0|> 0'), ('D9', 'enumerators / discriminators within 32 bits', r'0xFFFFFFFF|4294967295|1 << 32')):
        site = any(re.search(needle, ws(unparse(isar.func_of[id(r)].node))) for r in rejections if id(r) in isar.func_of) or \
            re.search(needle + r'.*(raise|error\()', common) is not None
        L.check(bool(site), 'F8.enforcement', 'isar|' + rid, isar.rel,
                'rule %s (%s) has no enforcement site on the isar path (neither in the isar front-end nor in the common model evaluation): '
                'rule-breaking isar input is accepted and fails at import / in the C++ compiler' % (rid, what), '')
    f = isar.func('make_enum.check_for_duplicates')
    L.check('if m.value in values: raise ValueError' in ws(unparse(f.node)), 'F8.enforcement', 'isar|D7-enum-values', f.site(),
            'isar rejects duplicate enumerator values', '')
    k = model.func('_Container._check_members_duplication')
    L.check('if member.name in meet_identifiers:' in ws(unparse(k.node)) and 'raise ModelError' in ws(unparse(k.node)), 'F8.enforcement',
            'model|D7-members', k.site(), 'duplicate member names are rejected for every front-end', '')


def runtime_rejections(ctx, L):
    """(c) every ProphyError raised while a generated class is constructed is covered by a front-end rule or unreachable
    from generated code."""
    table = {
        # construct (message) -> covering rule / reason
        'unknown arguments to array field': 'unreachable: the Python generator emits only size= / bound= (F17.python-kwargs)',
        'array of arrays not allowed': 'grammar: an array element is a type_spec, never an array',
        'array of strings not allowed': 'grammar: bytes is never a type_spec (byte arrays become prophy.bytes)',
        'static/limited array of dynamic type not allowed': 'D1',
        'only shifting bound array implemented': 'unreachable: shift= is never emitted',
        'array with unlimited field disallowed': 'D2',
        'array of optional type not allowed': 'grammar: optional and array forms are different productions',
        'optional bytes not implemented': 'grammar', 'optional array not implemented': 'grammar',
        'optional dynamic fields not implemented': 'D4',
        'only shifting bound bytes implemented': 'unreachable: shift= is never emitted',
        'unknown arguments to bytes field': 'unreachable: only size= / bound= are emitted',
        'unlimited field is not the last one': 'D3',
        'dynamic types not allowed in union': 'D5', 'bound array/bytes not allowed in union': 'grammar', 'static array not implemented in union': 'grammar',
        'union with optional field disallowed': 'grammar',
        'array {}.{} must not be bound to optional field': 'D6', 'array {}.{} must be bound to an unsigned integer': 'D6',
        "Sizing member '{}' in '{}' must be placed before '{}' container.": 'D6', 'msg': 'D6',
        'Different bound shifts are unsupported in externally sized arrays ({}.{})': 'unreachable: shift= is never emitted',
        "struct ({}) member's name must be a string type, got: '{}'": 'unreachable: names are emitted as quoted strings',
        "struct member's ({}.{}) type must be a prophy object, is: {!r}": 'unreachable: types are prophy.* or generated classes',
        "enum ({}) member's first argument has to be string, got '{}'": 'unreachable: quoted', "enum member's ({}.{}) second argument has to be an integer, got '{}'": 'D9/C14',
        "names overlap in '{}' enum, duplicates: {}": 'D7',
    }
    n = 0
    for modname, quals in (('prophy.container', ['array']), ('prophy.optional', ['optional']), ('prophy.composite', ['bytes_']),
                           ('prophy.generators', ['struct_generator.validate', 'union_generator.validate', 'struct_generator.validate_sizer_type',
                                                  'struct_generator.validate_and_fix_sizer_name', 'struct_generator.validate_bound_shift',
                                                  'enum_generator.validate'])):
        m = ctx.py.mod(modname)
        for q in quals:
            f = m.func(q)
            for r in f.walk():
                if not isinstance(r, ast.Raise) or r.exc is None:
                    continue
                n += 1
                msg = None
                if isinstance(r.exc, ast.Call) and r.exc.args:
                    a0 = r.exc.args[0]
                    if isinstance(a0, ast.Constant):
                        msg = a0.value
                    elif isinstance(a0, ast.Call) and isinstance(a0.func, ast.Attribute) and a0.func.attr == 'format':
                        base = a0.func.value
                        if isinstance(base, ast.Constant):
                            msg = base.value
                        elif isinstance(base, ast.Name):
                            # msg = "..." assigned just before
                            prior = [s for s in f.walk() if isinstance(s, ast.Assign) and unparse(s.targets[0]) == base.id and isinstance(s.value, ast.Constant)]
                            msg = prior[-1].value.value if prior else base.id
                    elif isinstance(a0, ast.Name):
                        msg = a0.id
                cover = table.get(msg)
                L.check(cover is not None, 'F8.runtime-rejection-covered', '%s:%s|%s' % (modname, q, msg), f.site(r),
                        'the runtime refuses a class definition with %r and no front-end rule / unreachability argument is recorded for it: '
                        'prophyc could accept a schema whose generated module does not import' % msg, ws(unparse(r)))
    L.floor('F8.runtime-rejection-covered', n, 22)


def check_nodes(ctx, L):
    for modname, cls in (('prophyc.generators.cpp', 'CppGenerator'), ('prophyc.generators.cpp_full', 'CppFullGenerator')):
        f = ctx.py.mod(modname).func(cls + '.check_nodes')
        s = ws(unparse(f.node))
        L.check(inn("if isinstance(n, (model.Struct, model.Union)) and n.byte_size is None: raise GenerateError('{0} byte size unknown'.format(n.name))", s),
                'C12e.check-nodes', cls + '|unknown-size', f.site(), 'types of unknown size cannot be laid out in C++ and must be refused', s)
    f = ctx.py.mod('prophyc.generators.cpp_full').func('CppFullGenerator.check_nodes')
    s = ws(unparse(f.node))
    from . import shared_py as P
    raises = [r for r in f.walk() if isinstance(r, ast.Raise) and 'GenerateError' in unparse(r.exc) and 'bound' in unparse(r.exc)]
    adds = [c for c in f.walk() if isinstance(c, ast.Call) and isinstance(c.func, ast.Attribute) and c.func.attr == 'add' and len(c.args) == 1
            and unparse(c.args[0]).endswith('.bound')]
    ok = len(raises) == 1 and len(adds) == 1
    if ok:
        seen_set, mem = unparse(adds[0].func.value), unparse(adds[0].args[0])
        ok = P.knows(f, raises[0], '%s and %s in %s' % (mem, mem, seen_set), True, []) and P.knows(f, adds[0], mem, True, []) \
            and P.knows(f, adds[0], '%s in %s' % (mem, seen_set), False, []) \
            and any(isinstance(a, ast.Assign) and unparse(a.targets[0]) == seen_set and unparse(a.value) == 'set()' for a in f.walk())
    L.check(ok, 'C12e.check-nodes',
            'CppFullGenerator|one-array-per-sizer', f.site(), 'the C++ full codec supports one array per sizer; more must be refused', s)
    b = ctx.py.mod('prophyc.generators.base').func('GeneratorBase.serialize')
    L.check(ws(unparse(b.node.body[0])) == 'self.check_nodes(nodes)', 'C12e.check-nodes', 'serialize|check-first', b.site(),
            'a generator checks the model before it writes any of its files', '')
    g = ctx.py.func('prophyc:generate_target_files')
    L.check('except GenerateError as e: emit.error(str(e))' in ws(unparse(g.node)), 'C12e.check-nodes', 'generate_target_files', g.site(),
            'generator refusals fail the compilation through the error channel', '')


def interface(ctx, L):
    """(d) F17: names and arities the generators emit exist on the other side."""
    R.f17_raw(ctx, L)
    from ..core import Ledger
    scratch = Ledger(L.pid)
    R.last_member_and_casts(ctx, scratch)
    # generated raw swap code must refer to declared parts / delimiters only (the cast-target clause belongs to C09)
    L.obligations.extend(o for o in scratch.obligations if o.rule == 'C09.part-numbering')
    # C++ full: every helper the templates call is declared in the headers with that arity
    cx = ctx.cxx
    decl = {}
    for f in cx.funcs:
        if (f.node.file or '').endswith(('detail/encoder.hpp', 'detail/decoder.hpp', 'detail/printer.hpp')):
            decl.setdefault(f.name, set()).add(len(f.params))
    m = ctx.py.mod('prophyc.generators.cpp_full')
    n = 0
    for q in ('generate_struct_encode', 'generate_struct_decode', 'generate_struct_print', 'generate_union_encode', 'generate_union_decode',
              'generate_union_print'):
        f = m.func(q)
        for e in templ.string_templates(f.node):
            for name, targs, nargs in templ.cxx_calls(e.text):
                if not name.startswith(('do_encode', 'do_decode', 'do_print')):
                    continue
                n += 1
                ar = decl.get(name, set())
                # do_decode_resize has a defaulted 4th parameter
                okar = nargs in ar or (name == 'do_decode_resize' and nargs + 1 in ar)
                L.check(bool(ar) and okar, 'F17.cpp-full-helpers', '%s|%s/%d' % (q, name, nargs), f.site(e.node),
                        'the generated code calls %s with %d argument(s); the headers declare it with %s' % (name, nargs, sorted(ar) or 'nothing'),
                        e.text.strip())
    L.floor('F17.cpp-full-helpers', n, 20)
    ok, hdr = try_const(m.assign_value('HPP_HEADER_TEMPLATE'))
    import os
    for inc in re.findall(r'#include <(prophy/[^>]+)>', hdr if ok else ''):
        L.check(os.path.exists(os.path.join(ctx.repo, 'prophy_cpp', 'include', inc)), 'F17.cpp-full-helpers', 'include|' + inc, m.rel,
                'the generated header includes <%s>, which the shipped headers do not provide' % inc, inc)
    from . import c01
    c01.python_generator_mapping(ctx, L)
