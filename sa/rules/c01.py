"""C01 - Python encode emits the documented wire format (structural clauses)."""
import ast
import re

from ..core import AnalysisError
from .shared_py import inn
from ..pyfront import unparse
from ..pyfront import ws  # noqa: E402,F401
from . import shared_py as P


def run(ctx, L, tier):
    P.f1_struct_walkers(ctx, L, sides=('encode',))
    P.f1_union_encode(ctx, L)
    P.f1_optional_encode(ctx, L)
    P.f15_optional_aware(ctx, L)
    P.f2_zero_fill(ctx, L)
    P.bytes_default(ctx, L)
    P.f3_endianness(ctx, L)
    P.f16_runtime_layout(ctx, L)
    P.counter_clause(ctx, L)
    P.slot_sizes(ctx, L)
    P.codec_dispatch(ctx, L)
    python_generator_mapping(ctx, L)
    scalar_pack(ctx, L)
    P.presence_by_identity(ctx, L)      # what encode emits is what the getters hand out: a stored 0 must stay 0
    return sorted(set(o.rule for o in L.obligations))


def scalar_pack(ctx, L):
    f = ctx.py.mod('prophy.scalar').func('numeric_decorator.encode')
    L.check(P.has(f, 'return struct.pack(endianness + id_, value)'), 'C01.scalar-pack', 'numeric_decorator.encode', f.site(),
            'a scalar is struct.pack(byte order + its code, value)', unparse(f.node))
    # the decorated classes: width, code and range agree with the struct module facts
    from .. import facts
    m = ctx.py.mod('prophy.scalar')
    n = 0
    for name, cls in m.classes.items():
        for d in cls.decorator_list:
            if isinstance(d, ast.Call) and unparse(d.func) in ('int_decorator', 'float_decorator'):
                kw = {k.arg: k.value for k in d.keywords}
                from ..pyfront import try_const
                ok, size = try_const(kw.get('size'))
                ok2, code = try_const(kw.get('id_'))
                n += 1
                want = facts.SCALARS.get(name)
                if want is None:
                    L.bad('F4.scalar-table', 'scalar.' + name, m.rel, 'unknown scalar class', name)
                    continue
                good = ok and ok2 and size == want['size'] and code == want['code']
                if unparse(d.func) == 'int_decorator':
                    ok3, lo = try_const(kw.get('min_'))
                    ok4, hi = try_const(kw.get('max_'))
                    good = good and ok3 and ok4 and (lo, hi) == (want['min'], want['max'])
                L.check(good, 'F4.scalar-table', 'scalar.' + name, '%s:%d (%s)' % (m.rel, cls.lineno, name),
                        'scalar %s must be %d byte(s), struct code %r, range [%s, %s] (the struct module packs exactly that '
                        'domain)' % (name, want['size'], want['code'], want.get('min'), want.get('max')), unparse(d))
    L.floor('F4.scalar-table', n, 10)
    en = m.class_bases.get('enum')
    L.check(en == ['u32'], 'F4.scalar-table', 'scalar.enum', m.rel, 'an enum is a u32 on the wire', str(en))


def python_generator_mapping(ctx, L):
    """_form_struct_member maps every model member class to the descriptor the runtime classifies the same way."""
    m = ctx.py.mod('prophyc.generators.python')
    f = m.func('_form_struct_member')
    src = re.sub(r"\bu(['\"])", r'\1', ws(unparse(f.node)))
    pieces = [
        ("prefixed_type = primitive_types.get(member.type_name, member.type_name)", 'builtins are prefixed with the library name'),
        ("if member.optional: prefixed_type = u'%s.optional(%s)' % (libname, prefixed_type)".replace("u'", "'"),
         'an optional member becomes prophy.optional(T)'),
        ("if member.bound: elem_strs.append(\"bound='%s'\" % member.bound)", 'a bound member passes bound= with the sizer name'),
        ("if member.size: elem_strs.append('size=%s' % member.size)", 'a sized member passes size='),
        ("if member.type_name == 'byte': prefixed_type = '%s.bytes(%s)' % (libname, ', '.join(elem_strs))",
         'byte arrays become prophy.bytes(...)'),
        ("else: prefixed_type = '%s.array(%s)' % (libname, ', '.join([prefixed_type] + elem_strs))",
         'other arrays become prophy.array(T, ...)'),
        ("return \"('%s', %s)\" % (member.name, prefixed_type)", 'descriptor entry is (name, type)'),
    ]
    for p, why in pieces:
        L.check(p in src, 'C01.python-generator-mapping', '_form_struct_member|' + why, f.site(), why + ' (expected `%s`)' % p, '')
    L.check(inn('if member.is_array:', src), 'C01.python-generator-mapping', '_form_struct_member|array-guard', f.site(),
            'array wrapping applies exactly to array members (bound, size or greedy)', '')
    # the keyword names emitted exist in the runtime (F17)
    for mod, q in (('prophy.container', 'array'), ('prophy.composite', 'bytes_')):
        g = ctx.py.mod(mod).func(q)
        pops = set(re.findall(r"kwargs\.pop\('(\w+)'", unparse(g.node)))
        L.check({'size', 'bound'} <= pops, 'F17.python-kwargs', q, g.site(),
                'the runtime must accept the size= / bound= keywords the generator emits', str(sorted(pops)))
    prim = m.assign_value('primitive_types')
    L.check(re.sub(r"\bu(['\"])", r'\1', ws(unparse(prim))) == "{x + y: '%s.%s' % (libname, x + y) for x in 'uir' for y in ['8', '16', '32', '64']}",
            'F4.scalar-table', 'python.primitive_types', m.rel, 'python primitive type map covers u/i/r x 8..64', unparse(prim))
    # emitted library names exist in prophy.__all__
    init = ctx.py.mod('prophy')
    from ..pyfront import try_const
    ok, allv = try_const(init.assign_value('__all__'))
    if not ok:
        raise AnalysisError('prophy.__all__ is not a literal list')
    used = set(re.findall(r"\{libname\}\.(\w+)", m.source)) | {'optional', 'bytes', 'array', 'u8'}
    for name in sorted(used):
        L.check(name in allv, 'F17.python-names', 'prophy.' + name, init.rel,
                'generated Python refers to prophy.%s which the runtime does not export' % name, '')
