"""Rule families over the code generators (prophyc/generators/cpp_full.py, cpp.py): member ladders (F10),
signed padding marker discipline (F9), union templates, scalar tables (F4)."""
import ast
import re

from ..core import AnalysisError
from ..pyfront import unparse, ws, try_const, path_conditions, norm_key
from .. import templ, predabs, facts

ENC = {
    'fixed': [('pos = do_encode<E>(pos, x.{0}.data(), {1});\n', ['m.name', 'm.size'])],
    'dynamic': [('pos = do_encode<E>(pos, x.{0}.data(), {1}(x.{0}.size()));\n', ['m.name', 'dcpptype'])],
    'limited': [('do_encode<E>(pos, x.{0}.data(), {2}(std::min(x.{0}.size(), size_t({1}))));\npos = pos + {3};\n',
                 ['m.name', 'm.size', 'dcpptype', 'm.byte_size'])],
    'greedy': [('pos = do_encode<E>(pos, x.{0}.data(), x.{0}.size());\n', ['m.name'])],
    'optional': [('pos = do_encode<E>(pos, x.{0});\n', ['m.name'])],
    'sizer:dynamic': [('pos = do_encode<E>(pos, {1}(x.{0}.size()));\n', ['b.name', 'mcpptype'])],
    'sizer:limited': [('pos = do_encode<E>(pos, {2}(std::min(x.{0}.size(), size_t({1}))));\n', ['b.name', 'b.size', 'mcpptype'])],
    'plain': [('pos = do_encode<E>(pos, x.{0});\n', ['m.name'])],
}
DEC = {
    'fixed': [('do_decode<E>(x.{0}.data(), {1}, pos, end)', ['m.name', 'm.size'])],
    'dynamic': [('do_decode<E>(x.{0}.data(), x.{0}.size(), pos, end)', ['m.name'])],
    'limited': [('do_decode_in_place<E>(x.{0}.data(), x.{0}.size(), pos, end)', ['m.name']),
                ('do_decode_advance({0}, pos, end)', ['m.byte_size'])],
    'greedy': [('do_decode_greedy<E>(x.{0}, pos, end)', ['m.name'])],
    'optional': [('do_decode<E>(x.{0}, pos, end)', ['m.name'])],
    'sizer:dynamic': [('do_decode_resize<E, {1}>(x.{0}, pos, end)', ['b.name', 'mcpptype'])],
    'sizer:limited': [('do_decode_resize<E, {2}>(x.{0}, pos, end, {1})', ['b.name', 'b.size', 'mcpptype'])],
    'plain': [('do_decode<E>(x.{0}, pos, end)', ['m.name'])],
}
TYPE_ARG = 'BUILTIN2C.get(m.type_name, m.type_name)'
FIELDS = {
    'fixed': [('array<{0}, {1}> {2};\n', [TYPE_ARG, 'm.size', 'm.name'])],
    'dynamic': [('std::vector<{0}> {1};\n', [TYPE_ARG, 'm.name'])],
    'limited': [('std::vector<{0}> {1}; /// limit {2}\n', [TYPE_ARG, 'm.name', 'm.size'])],
    'greedy': [('std::vector<{0}> {1}; /// greedy\n', [TYPE_ARG, 'm.name'])],
    'optional': [('optional<{0}> {1};\n', [TYPE_ARG, 'm.name'])],
    'sizer:dynamic': [], 'sizer:limited': [],
    'plain': [('{0} {1};\n', [TYPE_ARG, 'm.name'])],
}
PAD_ENC = {'neg': ('pos = align<{0}>(pos);\n', ['abs(m.padding)']), 'pos': ('pos = pos + {0};\n', ['m.padding'])}
PAD_DEC = {'neg': ('do_decode_align<{0}>(pos, end)', ['abs(m.padding)']), 'pos': ('do_decode_advance({0}, pos, end)', ['m.padding'])}


def emits_of(stmts):
    out = []
    for s in stmts:
        for e in templ.string_templates(s):
            if e.text.strip() and (e.args or len(e.text) > 3):
                out.append((e.text, e.args))
    return out


def flat_ladder(f, L, rule):
    """Branches of the member ladder with nested `b.is_dynamic` sub-ladders expanded."""
    var, loop = templ.member_loop(f)
    chains = [s for s in loop.body if isinstance(s, ast.If)]
    if not chains:
        raise AnalysisError('%s: no member ladder' % f.fq)
    main = templ.if_chain(chains[0])
    out = []
    for b in main:
        sub = [s for s in b.body if isinstance(s, ast.If) and unparse(s.test).startswith('b.')]
        if sub:
            for sb in templ.if_chain(sub[0]):
                out.append((b.guards, sb.guards, sb.body, sb.node))
        else:
            out.append((b.guards, [], b.body, b.node))
    return var, loop, chains, out


def cppfull_ladder(ctx, L, qual, table, rule):
    m = ctx.py.mod('prophyc.generators.cpp_full')
    f = m.func(qual)
    props = predabs.model_props(ctx.py)
    var, loop, chains, rows = flat_ladder(f, L, rule)
    dom = [a for a in predabs.domain() if a.padding == 0]
    ev = predabs.Evaluator(props, var, env={'bound': _Bound()})
    evb = predabs.Evaluator(props, 'b')
    reach = {}
    try:
        for a in dom:
            hits = []
            for i, (g, gb, body, node) in enumerate(rows):
                if not predabs.truth(ev, g, a):
                    continue
                if gb:
                    barr = predabs.AM(a.sizer_of or 'dynamic', 'scalar')
                    if not predabs.truth(evb, gb, barr):
                        continue
                hits.append(i)
            reach[a] = hits
    except predabs.Unknown as e:
        raise AnalysisError('%s: guard term not recognised: %s' % (f.fq, e))
    by_branch = {}
    for a, hits in reach.items():
        L.check(len(hits) == 1, rule + '.partition', '%s|%s' % (qual, a.label()), f.site(loop),
                'member class `%s` reaches %d ladder branches (must be exactly one: exhaustive and exclusive)'
                % (a.label(), len(hits)), str(hits))
        if len(hits) == 1:
            by_branch.setdefault(hits[0], set()).add(a.cls)
    n = 0
    for i, classes in sorted(by_branch.items()):
        g, gb, body, node = rows[i]
        got = emits_of(body)
        for cls in sorted(classes):
            n += 1
            want = table[cls]
            L.check(got == want, rule + '.emission', '%s|%s' % (qual, cls), f.site(node),
                    '%s: a %s member must emit %s, the branch it reaches emits %s' % (qual, cls, want, got), str(got))
    L.floor(rule + '.emission', n, 8)
    return f, loop, chains


class _Bound(object):
    """`m.name in bound`: true exactly for sizer members."""

    def __contains__(self, name):
        return name == 'n'


def padding_tail(ctx, L, qual, table, rule='F9.padding-marker'):
    """The statement after the ladder that emits the model's member.padding: evaluated over the marker range."""
    m = ctx.py.mod('prophyc.generators.cpp_full')
    f = m.func(qual)
    var, loop = templ.member_loop(f)
    tails = [s for s in loop.body if isinstance(s, ast.If) and 'padding' in unparse(s.test)]
    if len(tails) != 1:
        raise AnalysisError('%s: padding tail `if m.padding:` not found' % qual)
    props = predabs.model_props(ctx.py)
    ev = predabs.Evaluator(props, var)
    outer = tails[0]
    rows = []
    for ob in templ.if_chain(outer):
        inner = [s for s in ob.body if isinstance(s, ast.If)]
        if inner:
            for ib in templ.if_chain(inner[0]):
                rows.append((ob.guards + ib.guards, ib.body))
        else:
            rows.append((ob.guards, ob.body))
    for pad in (-8, -4, -2, 0, 1, 2, 3, 4, 5, 6, 7):
        a = predabs.AM('plain', 'scalar', padding=pad)
        try:
            hit = [(g, body) for g, body in rows if predabs.truth(ev, g, a)]
        except predabs.Unknown as e:
            raise AnalysisError('%s: padding guard not recognised: %s' % (qual, e))
        got = [x for g, body in hit for x in emits_of(body)]
        want = [] if pad == 0 else [table['neg' if pad < 0 else 'pos']]
        want = [(t, a_) for t, a_ in want]
        L.check(got == want, rule, '%s|padding=%d' % (qual, pad), f.site(outer),
                'for member.padding == %d (>=0: bytes to skip, <0: align to |n|) the generator must emit %s, it emits %s'
                % (pad, want, got), unparse(outer)[:200])


def f9_arithmetic(ctx, L, module, quals, rule='F9.marker-arithmetic'):
    """Every arithmetic use of `.padding` (a signed marker) must be dominated by a test excluding negatives,
    or be wrapped so that negatives cannot contribute (abs / max(.., 0))."""
    m = ctx.py.mod(module)
    n = 0
    for q in quals:
        f = m.func(q)
        for node in f.walk():
            if not (isinstance(node, ast.Attribute) and node.attr == 'padding' and isinstance(node.ctx, ast.Load)):
                continue
            p = m.parent(node)
            if not isinstance(p, ast.BinOp) and not (isinstance(p, ast.AugAssign) and p.value is node):
                continue
            n += 1
            base = unparse(node)
            ok = False
            for t, pol, how in path_conditions(m, f, node):
                s = re.sub(r'\s+', '', unparse(t))
                if pol and s in ('%s>0' % base, '%s>=0' % base, '%sisnotNoneand%s>0' % (base, base)):
                    ok = True
                if (not pol) and s in ('%s<0' % base, '%s<=0' % base):
                    ok = True
            stmt = node
            while not isinstance(stmt, ast.stmt):
                stmt = m.parent(stmt)
            L.check(ok, rule, '%s|%s' % (f.fq, norm_key(f, stmt)), f.site(node),
                    '`%s` is used in arithmetic without excluding the negative "align to |n|" marker: a fixed-size member that '
                    'carries a dynamic-alignment marker makes the computed size too small (get_byte_size() under-allocates and '
                    'encode overruns the buffer)' % base, unparse(stmt))
    return n


UNION_ENCODE_REF = """
    discpad = %s

    def gen_case(member):
        return ('case {0}::discriminator_{1}: do_encode<E>(pos, x.{1}); break;\\n'
                .format(node.name, member.name))

    return (
            'pos = do_encode<E>(pos, x.discriminator);\\n' +
            (discpad and 'pos = pos + {0};\\n'.format(discpad) or '') +
            'switch (x.discriminator)\\n' +
            '{\\n' +
            ''.join('    ' + gen_case(m) for m in node.members) +
            '}\\n' +
            'pos = pos + {0};\\n'.format(node.byte_size - DISC_SIZE - discpad)
    )
"""

UNION_DECODE_REF = """
    discpad = %s

    def gen_case(member):
        return ('case {0}::discriminator_{1}: if (!do_decode_in_place<E>(x.{1}, pos, end)) return false; break;\\n'
                .format(node.name, member.name))

    return (
            'if (!do_decode<E>(x.discriminator, pos, end)) return false;\\n' +
            (discpad and 'if (!do_decode_advance({0}, pos, end)) return false;\\n'.format(discpad) or '') +
            'switch (x.discriminator)\\n' +
            '{\\n' +
            ''.join('    ' + gen_case(m) for m in node.members) +
            '    ' + 'default: return false;\\n' +
            '}\\n' +
            'return do_decode_advance({0}, pos, end);\\n'.format(node.byte_size - DISC_SIZE - discpad)
    )
"""

DISCPAD_FORMS = ('node.alignment > DISC_SIZE and (node.alignment - DISC_SIZE) or 0', 'node.alignment >= DISC_SIZE and node.alignment - DISC_SIZE or 0',
                 'max(node.alignment - DISC_SIZE, 0)', 'node.alignment - DISC_SIZE')


def union_templates(ctx, L):
    """generate_union_encode / _decode mean what the reference generators above mean (compared in normal form, E1b/E1c):
    discriminator; a gap of discpad = alignment - DISC_SIZE bytes emitted only when non-zero; the arm coded in place; the tail
    byte_size - DISC_SIZE - discpad. Equivalent spellings of discpad (DISC_SIZE is the minimum union alignment) are accepted."""
    from . import shared_py as P_
    m = ctx.py.mod('prophyc.generators.cpp_full')
    for q, ref in (('generate_union_encode', UNION_ENCODE_REF), ('generate_union_decode', UNION_DECODE_REF)):
        f = m.func(q)
        ok = P_.body_is(f, *[ref % d for d in DISCPAD_FORMS], params=['node'])
        L.check(ok, 'F1gen.union-steps', q + '|steps', f.site(),
                'the union %s generator must emit: discriminator; gap of (alignment - DISC_SIZE) bytes, only when that is non-zero; the '
                'discriminated arm in place inside a switch over all arms%s; then the rest of the fixed slot (byte_size - DISC_SIZE - gap); '
                'it means: %s' % ('encode' if 'encode' in q else 'decode', '' if 'encode' in q else ' with `default: return false`', P_.sem_body(f)[:600]),
                ws(unparse(f.node))[:300])


def f4_tables(ctx, L):
    """One relation name -> (width, C type) rebuilt from each site; all must agree with the struct facts."""
    model = ctx.py.mod('prophyc.model')
    ok, sizes = try_const(model.assign_value('BUILTIN_SIZES'))
    if not ok:
        raise AnalysisError('model.BUILTIN_SIZES is not a literal dict')
    want = {k: v['size'] for k, v in facts.SCALARS.items()}
    want['byte'] = 1
    for k in sorted(set(want) | set(sizes)):
        L.check(sizes.get(k) == want.get(k), 'F4.scalar-table', 'model.BUILTIN_SIZES|' + k, model.rel,
                'builtin %s has size %s in the model, the wire format (and the struct code of the Python runtime) says %s'
                % (k, sizes.get(k), want.get(k)), str(sizes.get(k)))
    for name in ('DISC_SIZE', 'ENUM_SIZE'):
        L.check(unparse(model.assign_value(name)) == "BUILTIN_SIZES['u32']", 'F4.scalar-table', 'model.' + name, model.rel,
                '%s must be the size of a u32' % name, unparse(model.assign_value(name)))
    cwant = {k: v['c'] for k, v in facts.SCALARS.items()}
    cwant['byte'] = 'uint8_t'
    for mod, var in (('prophyc.generators.cpp_full', 'BUILTIN2C'), ('prophyc.generators.cpp', 'primitive_types')):
        g = ctx.py.mod(mod)
        ok, table = try_const(g.assign_value(var))
        if not ok:
            raise AnalysisError('%s.%s is not a literal dict' % (mod, var))
        for k in sorted(set(cwant) | set(table)):
            L.check(table.get(k) == cwant.get(k), 'F4.scalar-table', '%s.%s|%s' % (mod.split('.')[-1], var, k), g.rel,
                    'builtin %s maps to C type %s, expected %s' % (k, table.get(k), cwant.get(k)), str(table.get(k)))
    isar = ctx.py.mod('prophyc.parsers.isar')
    ok, prim = try_const(isar.assign_value('primitive_types'))
    if not ok:
        raise AnalysisError('isar.primitive_types is not a literal dict')
    for desc, name in sorted(prim.items()):
        mm = re.match(r'^(\d+) bit (integer|float)( unsigned| signed)?$', desc)
        good = bool(mm) and name in facts.SCALARS
        if good:
            bits = int(mm.group(1))
            pref = 'r' if mm.group(2) == 'float' else ('u' if mm.group(3) == ' unsigned' else 'i')
            good = name == '%s%d' % (pref, bits)
        L.check(good, 'F4.scalar-table', 'isar.primitive_types|' + desc, isar.rel,
                'isar primitive "%s" maps to %s' % (desc, name), name)
    L.check(len(prim) == 10, 'F4.scalar-table', 'isar.primitive_types|complete', isar.rel, 'all ten numeric builtins are mapped', str(len(prim)))
    me = isar.func('make_enum')
    consts = [n.value for n in ast.walk(me.node) if isinstance(n, ast.Constant) and isinstance(n.value, int) and n.value > 255]
    L.check(consts == [1 << 32], 'F4.scalar-table', 'isar.make_enum|two-complement', me.site(),
            'negative enum values are wrapped modulo 2**(8*ENUM_SIZE) = 0x100000000', str(consts))
    pp = ctx.py.mod('prophyc.parsers.prophy')
    for q, want_ in (('Parser.p_type_spec_2', "t[0] = ('r32', None)"), ('Parser.p_type_spec_3', "t[0] = ('r64', None)"),
                     ('Parser.p_bytes', "t[0] = ('byte', None)"), ('Parser.p_type_spec_1', 't[0] = (t[1], None)')):
        f = pp.func(q)
        L.check(unparse(f.node.body[-1]) == want_, 'F4.scalar-table', 'prophy.' + q, f.site(),
                'keyword must map to the builtin name (`%s`)' % want_, unparse(f.node.body[-1]))
    ok, kws = try_const(pp.assign_value('keywords', 'Parser'))
    L.check(ok and set(kws) >= {'u8', 'u16', 'u32', 'u64', 'i8', 'i16', 'i32', 'i64', 'float', 'double', 'bytes'},
            'F4.scalar-table', 'prophy.Parser.keywords', pp.rel, 'all builtin type keywords are tokens', str(kws))
    sc = pp.func('Parser._is_type_sizer_compatible')
    ints = set(p_ + w for p_ in 'ui' for w in ('8', '16', '32', '64'))
    tests = [n for n in sc.walk() if isinstance(n, ast.Compare) and len(n.ops) == 1 and isinstance(n.ops[0], ast.In)
             and unparse(n.left) == sc.params[1] and try_const(n.comparators[0])[0]]
    L.check(len(tests) == 1 and set(try_const(tests[0].comparators[0])[1]) == ints,
            'F4.scalar-table', 'prophy._is_type_sizer_compatible', sc.site(), 'sizer types are exactly the eight integer builtins',
            unparse(tests[0]) if tests else '')
    ts = model.func('topological_sort')
    inits = [n for n in ts.walk() if isinstance(n, ast.Assign) and len(n.targets) == 1 and unparse(n.targets[0]) == 'known']
    L.check(len(inits) == 1 and try_const(inits[0].value)[0] and isinstance(try_const(inits[0].value)[1], set)
            and try_const(inits[0].value)[1] == ints | set('r' + w for w in ('32', '64', '8', '16')), 'F4.scalar-table',
            'model.topological_sort.known', ts.site(), 'the sort treats exactly the numeric builtins as already known',
            unparse(inits[0]) if inits else '')
    f4_cxx(ctx, L)


def f4_cxx(ctx, L):
    cx = ctx.cxx
    specs = {}
    for name, args, node in cx.records:
        if name == 'codec_traits' and node.kind in ('ClassTemplateSpecializationDecl', 'ClassTemplatePartialSpecializationDecl'):
            vals = {}
            for e in node.find('EnumConstantDecl'):
                iv = [x for x in e.walk() if x.kind == 'IntegerLiteral' or x.kind == 'CXXBoolLiteralExpr']
                ce = [x for x in e.walk() if x.kind == 'ConstantExpr' and x.j.get('value') is not None]
                vals[e.name] = ce[0].j.get('value') if ce else (str(iv[0].value) if iv else e.text.split('=')[-1].strip())
            specs[', '.join(args)] = (vals, node)
    cname = {'signed char': 'int8_t', 'short': 'int16_t', 'int': 'int32_t', 'long': 'int64_t', 'unsigned char': 'uint8_t',
             'unsigned short': 'uint16_t', 'unsigned int': 'uint32_t', 'unsigned long': 'uint64_t', 'float': 'float',
             'double': 'double'}
    size_of = {v['c']: v['size'] for v in facts.SCALARS.values()}
    n = 0
    for key, (vals, node) in sorted(specs.items()):
        t = key.split(', ')[0]
        if t in cname:
            n += 1
            c = cname[t]
            good = str(vals.get('size')) == str(size_of[c]) and str(vals.get('is_composite')) in ('0', 'false', 'False') \
                and str(vals.get('is_enum_or_bool')) in ('0', 'false', 'False')
            L.check(good, 'F4.codec-traits', 'codec_traits<%s>' % c, node.site(),
                    'codec_traits<%s> must be {size = %d, not composite, not enum}: got %s' % (c, size_of[c], vals), str(vals))
    L.floor('F4.codec-traits', n, 10)
    generic = [(k, v) for k, v in specs.items() if k.startswith('type-parameter')]
    comp = [v for k, v in generic if k.endswith('1')]
    enum = [v for k, v in generic if k.endswith('0')]
    L.check(len(comp) == 1 and 'T::encoded_byte_size' in nows_(comp[0][1].text) and 'is_composite=true' in nows_(comp[0][1].text),
            'F4.codec-traits', 'codec_traits<class>', comp[0][1].site() if comp else 'codec_traits.hpp',
            'classes are composites whose size is T::encoded_byte_size', '')
    L.check(len(enum) == 1 and 'size=sizeof(uint32_t)' in nows_(enum[0][1].text) and 'is_enum_or_bool=true' in nows_(enum[0][1].text),
            'F4.codec-traits', 'codec_traits<enum>', enum[0][1].site() if enum else 'codec_traits.hpp',
            'enums/bool are 32-bit on the wire', '')


def nows_(s):
    return re.sub(r'\s+', '', s or '')


def generators_read_only(ctx, L):
    """The back-ends only read the model: the same node objects are handed to every generator of the run (and, for included
    files, to every includer), so a generator that writes an attribute of a node changes what the next generator sees."""
    model_attrs = ('padding', 'byte_size', 'alignment', 'kind', 'size', 'bound', 'numeric_size', 'definition', 'type_name', 'name',
                   'members', 'optional', 'greedy', 'value', 'discriminator')
    n = 0
    for modname in sorted(ctx.py.modules):
        if not modname.startswith('prophyc.generators'):
            continue
        m = ctx.py.mod(modname)
        for f in m.all_funcs():
            for node in f.walk():
                tgs = []
                if isinstance(node, ast.Assign):
                    tgs = node.targets
                elif isinstance(node, (ast.AugAssign, ast.AnnAssign)):
                    tgs = [node.target]
                elif isinstance(node, ast.Delete):
                    tgs = node.targets
                for t in tgs:
                    for x in ([t] + (list(t.elts) if isinstance(t, ast.Tuple) else [])):
                        if isinstance(x, ast.Attribute) and x.attr in model_attrs and not unparse(x.value).startswith('self'):
                            n += 1
                            L.bad('F11.generators-read-only', '%s|%s' % (f.fq, norm_key(f, node)), f.site(node),
                                  'a generator writes `%s` of a model node: the node is shared with the generators that run after this '
                                  'one (and with every file that includes its definition) - their layout facts change with the set of '
                                  'outputs requested' % ws(unparse(x)), ws(unparse(node)))
                if isinstance(node, ast.Call) and isinstance(node.func, ast.Name) and node.func.id == 'setattr' and node.args \
                        and not unparse(node.args[0]).startswith('self'):
                    n += 1
                    L.bad('F11.generators-read-only', '%s|%s' % (f.fq, norm_key(f, node)), f.site(node), 'setattr on a model node inside a generator',
                          ws(unparse(node)))
    L.ok('F11.generators-read-only', 'generators', 'prophyc/generators', 'no generator writes a layout attribute of a model node (%d found)' % n)
