"""C06 - Python decode is total: returns or raises ProphyError, nothing else (structural clauses)."""
import ast
import re

from ..core import AnalysisError
from ..pyfront import unparse
from .. import excflow
from . import shared_py as P
from . import c02

NUM_DEC = 'prophy.scalar:numeric_decorator.decode'
BYTES_DEC = 'prophy.composite:bytes_._bytes._decode'
LEN_DEC = 'prophy.generators:build_container_length_field.container_len._decode'
DECODERS = ['prophy.descriptor:decode_optional', 'prophy.descriptor:decode_array_delimiter', 'prophy.descriptor:decode_array',
            'prophy.descriptor:decode_composite', 'prophy.descriptor:decode_bytes', 'prophy.descriptor:decode_scalar']
ENCODERS = ['prophy.descriptor:encode_optional', 'prophy.descriptor:encode_array_delimiter', 'prophy.descriptor:encode_array',
            'prophy.descriptor:encode_composite', 'prophy.descriptor:encode_bytes', 'prophy.descriptor:encode_scalar']
CHECKS = ['prophy.scalar:int_decorator.decorator.check', 'prophy.scalar:float_decorator.decorator.check',
          'prophy.generators:enum_generator.add_attributes.check', 'prophy.composite:bytes_._bytes._check']
IMPLS = ['prophy.composite:struct._decode_impl', 'prophy.composite:union._decode_impl',
         'prophy.container:fixed_scalar_array._decode_impl', 'prophy.container:bound_scalar_array._decode_impl',
         'prophy.container:fixed_composite_array._decode_impl', 'prophy.container:bound_composite_array._decode_impl']

REPO_EXC = {'ProphyError': 'Exception'}

# reasoned suppressions of implicit raise sites: one named function + construct each
SAFE = {
    # any spelling of the distance arithmetic divides by the function's second parameter, the alignment
    ('prophy.composite:distance_to_next_multiply', r'DIVISOR ~ ^alignment$'):
        'alignment >= 1: every _ALIGNMENT is a scalar size (1/2/4/8, F4), a max over such values, or the constant 1 of an '
        'empty struct (F16.layout-formula checks these definitions on every run)',
}


def runtime_dispatch(ctx):
    gen = ctx.py.mod('prophy.generators')
    setters = [f for f in gen.all_funcs() if f.qualname.endswith('.setter')]
    getters = [f for f in gen.all_funcs() if f.qualname.endswith('.getter')]
    if len(setters) < 8 or len(getters) < 8:
        raise AnalysisError('property setter/getter closures of prophy.generators not found (%d/%d)' % (len(setters), len(getters)))
    d = {
        'field.decode_fcn': DECODERS, 'd.decode_fcn': DECODERS, 'field.encode_fcn': ENCODERS, 'd.encode_fcn': ENCODERS,
        'type_._decode': [NUM_DEC, BYTES_DEC, LEN_DEC] + DECODERS,
        'type_._encode': ['prophy.scalar:numeric_decorator.encode', 'prophy.composite:bytes_._bytes._encode',
                          'prophy.generators:build_container_length_field.container_len._encode'] + ENCODERS,
        'type_._optional_type._decode': [NUM_DEC], 'self._discriminator_type._decode': [NUM_DEC],
        'type_._optional_type._encode': ['prophy.scalar:numeric_decorator.encode'],
        'self._discriminator_type._encode': ['prophy.scalar:numeric_decorator.encode'],
        'sizer_item_type._decode': [NUM_DEC], 'sizer_item_type._encode': ['prophy.scalar:numeric_decorator.encode'],
        'tp._decode': [NUM_DEC], 'self._TYPE._encode': ['prophy.scalar:numeric_decorator.encode'],
        'elem._decode_impl': IMPLS, 'self.add()._decode_impl': IMPLS, 'getattr(parent, name)._decode_impl': IMPLS,
        'value._encode_impl': [s.replace('_decode_impl', '_encode_impl') for s in IMPLS[2:]],
        'value.encode': ['prophy.composite:struct.encode', 'prophy.composite:union.encode'],
        'setattr': setters, 'getattr': getters,
        'descriptor_field.type._check': CHECKS, 'field.type._check': CHECKS, 'self._TYPE._check': CHECKS, 'self._check': CHECKS,
        'type_.evaluate_size': ['prophy.generators:build_container_length_field.container_len.evaluate_size'],
        'new_element.copy_from': ['prophy.composite_base:_composite_base.copy_from'],
        'lhs.copy_from': ['prophy.composite_base:_composite_base.copy_from'],
        'lhs_elem.copy_from': ['prophy.composite_base:_composite_base.copy_from'],
        'lhs.extend': ['prophy.container:bound_composite_array.extend', 'prophy.container:bound_scalar_array.extend'],
        'attr[]': 'arrays', 'lhs[]': 'arrays',
    }
    return d


def run(ctx, L, tier):
    P.f6_python_guards(ctx, L)
    P.f6_count_guard(ctx, L)
    c02.decode_writes(ctx, L)
    c02.terminal_clause(ctx, L)
    escape_analysis(ctx, L)
    progress(ctx, L)
    P.f1_optional_encode(ctx, L)     # decode -> encode -> decode is a fixpoint only if encode writes what decode reads (presence by `is None`)
    P.f2_zero_fill(ctx, L)
    return sorted(set(o.rule for o in L.obligations))


def escape_analysis(ctx, L):
    cg = excflow.CallGraph(ctx.py, P.RUNTIME, dispatch=runtime_dispatch(ctx),
                           families={'_decode_impl', '_encode_impl', 'copy_from', 'validate_copy_from', '_copy_implementation',
                                     'set_field', 'add', 'extend', '_get_discriminated_field', '_get_padding_size', '_get_padding'})
    ef = excflow.ExcFlow(cg, REPO_EXC, safe=SAFE)
    roots = [ctx.py.func('prophy.composite:struct.decode'), ctx.py.func('prophy.composite:union.decode')]
    res = ef.analyse(roots)
    L.inventory('decode call graph', {'functions reachable from struct.decode/union.decode': sorted(f.fq for f in ef.funcs),
                                      'unresolved attribute calls': sorted(set('%s: %s' % u for u in cg.unresolved))})
    must_reach = {NUM_DEC, BYTES_DEC, LEN_DEC, 'prophy.container:bound_composite_array._decode_impl',
                  'prophy.generators:enum_generator.add_attributes.check', 'prophy.descriptor:decode_optional'}
    reached = set(f.fq for f in ef.funcs)
    if not must_reach <= reached:
        raise AnalysisError('decode call graph lost anchors: %s' % sorted(must_reach - reached))
    seen = set()
    n_raise = 0
    for f in ef.funcs:
        for node in f.walk():
            if isinstance(node, ast.Raise) and node.exc is not None:
                n_raise += 1
                cls = ef.exc_name(f, node.exc)
                L.check(cls == 'ProphyError', 'F7.raise-class', '%s|%s' % (f.fq, re.sub(r'\(.*', '', unparse(node.exc))),
                        f.site(node), 'a function on the decode path raises %s: decode must fail with ProphyError only' % cls,
                        unparse(node)[:120])
    for root, esc in res.items():
        for (cls, key), e in sorted(esc.items()):
            if (cls, key) in seen:
                continue
            seen.add((cls, key))
            L.check(cls == 'ProphyError', 'F7.exc-escape', '%s|%s' % (cls, key), e.origin,
                    '%s can escape decode (%s); path: %s' % (cls, e.text, ' -> '.join(e.via)), e.text)
    for (fq, construct), reason in sorted(ef.used_safe.items()):
        L.suppress('F7.exc-escape', '%s|%s' % (fq, construct), reason)
    L.floor('F7.raise-class', n_raise, 15)
    if not seen:
        raise AnalysisError('escape analysis found no raise site at all on the decode path')


def progress(ctx, L):
    """F12 on the decode loops."""
    cont = ctx.py.mod('prophy.container')
    f = cont.func('decode_scalar_array')
    loops = [n for n in f.walk() if isinstance(n, (ast.For, ast.While))]
    L.check(len(loops) == 1 and isinstance(loops[0], ast.For) and unparse(loops[0].iter) == 'xrange(count)', 'F12.progress',
            'decode_scalar_array|loop', f.site(), 'the element loop must be a bounded `for _ in xrange(count)`', '')
    g = cont.func('bound_composite_array._decode_impl')
    whiles = [n for n in g.walk() if isinstance(n, ast.While)]
    ok = len(whiles) == 1 and re.sub(r'\s+', '', unparse(whiles[0].test)) in ('pos+cursor<len(data)', '(pos+cursor)<len(data)') \
        and len(whiles[0].body) == 1 and isinstance(whiles[0].body[0], ast.AugAssign) and unparse(whiles[0].body[0].target) == 'cursor'
    L.check(ok, 'F12.progress', 'bound_composite_array._decode_impl|greedy-loop', g.site(),
            'the greedy loop must be `while pos + cursor < len(data): cursor += <bytes consumed by one element>`', '')
    # consumed >= 1 per element: no empty struct can be produced by the front-ends
    pp = ctx.py.mod('prophyc.parsers.prophy')
    prods = [f_ for f_ in pp.all_funcs() if f_.qualname.startswith('Parser.p_struct_member_list')]
    docs = [ast.get_docstring(f_.node) or '' for f_ in prods]
    nonempty = prods and all(re.search(r'struct_member_list\s*:\s*struct_member\s+SEMI', d) for d in docs)
    isar = ctx.py.mod('prophyc.parsers.isar').func('make_struct')
    first = isar.node.body[0]
    isar_ok = isinstance(first, ast.If) and unparse(first.test) == 'len(xml_elem)' and len(isar.node.body) == 1
    L.check(bool(nonempty) and isar_ok, 'F12.progress', 'greedy-loop|element-size>=1', g.site(),
            'progress of the greedy loop needs every element to consume >= 1 byte: the grammar must have no empty '
            'struct_member_list production and isar make_struct must drop empty structs', str(docs))
    L.suppress('F12.progress', 'greedy-loop|element-size>=1',
               'element size >= 1: struct_member_list has no empty production; make_struct returns None for an empty element '
               '(both re-checked on this run)')
    for q in ('bound_composite_array._decode_impl',):
        fors = [n for n in g.walk() if isinstance(n, ast.For)]
        L.check(len(fors) == 1 and unparse(fors[0].iter) == 'xrange(len_hint)', 'F12.progress', q + '|counted-loop', g.site(),
                'the counted loop runs len_hint (guarded count) times', '')
