"""C18 - text rendering agrees between Python and C++ and is not order-sensitive (structural clauses)."""
import ast
import re

from ..core import AnalysisError
from .shared_py import inn
from . import shared_py as P
from ..cxxlib import nows, stmts_of, if_parts, int_value
from ..pyfront import norm_key, unparse
from .. import templ
from . import shared_cxx as S


from ..pyfront import ws  # noqa: E402,F401  (whitespace-collapsed, rename/normal-form tolerant `in`)

# CPython bytes.__repr__ (Objects/bytesobject.c, PyBytes_Repr) for single-quoted output
PY_ESCAPES = {9: '\\t', 10: '\\n', 13: '\\r', 92: '\\\\'}
PY_PRINTABLE = (32, 126)     # ' ' <= c < 0x7f printed as is; everything else \xNN, lowercase hex, two digits


def run(ctx, L, tier):
    rules = ['F13.stream-state-restored', 'C18.escape-table', 'C18.byte-operators', 'C18.format-pieces',
             'C18.omission-rules', 'C18.enum-literals', 'C18.python-format']
    S.f13_stream_state(ctx, L)
    escape_table(ctx, L)
    operators(ctx, L)
    printers(ctx, L)
    python_side(ctx, L)
    generator_print(ctx, L)
    return rules


def one(cx, name, pred=None, suffix='detail/printer.hpp'):
    fs = [f for f in cx.functions(name, file_suffix=suffix) if pred is None or pred(f)]
    if len(fs) != 1:
        raise AnalysisError('anchor vanished: %s in %s (found %d)' % (name, suffix, len(fs)))
    return fs[0]


class _Stop(Exception):
    pass


def _cond_value(n, env):
    """Integer value of a side-effect-free condition over the finite environment (the byte value); None if not foldable."""
    n = n.strip()
    if n.kind == 'IntegerLiteral':
        return int(n.value)
    if n.kind == 'CharacterLiteral':
        return int(n.j.get('value'))
    if n.kind == 'DeclRefExpr':
        return env.get(n.ref)
    if n.kind in ('ConstantExpr', 'ParenExpr', 'ImplicitCastExpr', 'CStyleCastExpr', 'CXXFunctionalCastExpr', 'CXXStaticCastExpr') and n.kids:
        return _cond_value(n.kids[-1], env)
    if n.kind == 'UnaryOperator' and n.opcode == '!':
        v = _cond_value(n.kids[0], env)
        return None if v is None else int(not v)
    if n.kind == 'BinaryOperator':
        op = n.opcode
        l = _cond_value(n.kids[0], env)
        if op == '&&':
            if l is not None and not l:
                return 0
            r = _cond_value(n.kids[1], env)
            return None if l is None or r is None else int(bool(l) and bool(r))
        if op == '||':
            if l:
                return 1
            r = _cond_value(n.kids[1], env)
            return None if l is None or r is None else int(bool(l) or bool(r))
        r = _cond_value(n.kids[1], env)
        if l is None or r is None:
            return None
        table = {'<': l < r, '<=': l <= r, '>': l > r, '>=': l >= r, '==': l == r, '!=': l != r}
        if op in table:
            return int(table[op])
        arith = {'+': l + r, '-': l - r, '&': l & r, '|': l | r}
        if op in arith:
            return arith[op]
    return None


def _execute(stmt, env, out):
    """Follows the one path the byte value `env` takes through `stmt`; the executed leaf statements are appended to `out`.
    Raises _Stop at a return."""
    k = stmt.kind
    if k == 'CompoundStmt':
        for s_ in stmt.kids:
            _execute(s_, env, out)
    elif k == 'IfStmt':
        c, t, e = if_parts(stmt)
        v = _cond_value(c, env)
        if v is None:
            raise AnalysisError('print_byte: condition `%s` is not foldable over the byte value' % c.text)
        if v:
            _execute(t, env, out)
        elif e is not None:
            _execute(e, env, out)
    elif k == 'SwitchStmt':
        v = _cond_value(stmt.kids[0], env)
        body = stmt.kids[-1]
        if v is None or body.kind != 'CompoundStmt':
            raise AnalysisError('print_byte: switch not foldable over the byte value')
        start, default = None, None
        for i, s_ in enumerate(body.kids):
            c = s_
            while c.kind in ('CaseStmt', 'DefaultStmt'):
                if c.kind == 'DefaultStmt':
                    default = i if default is None else default
                elif _cond_value(c.kids[0], env) == v and start is None:
                    start = i
                c = c.kids[-1]
        start = default if start is None else start
        if start is not None:
            try:
                for s_ in body.kids[start:]:
                    c = s_
                    while c.kind in ('CaseStmt', 'DefaultStmt'):
                        c = c.kids[-1]
                    _execute(c, env, out)
            except _Break:
                pass
    elif k == 'ReturnStmt':
        raise _Stop()
    elif k == 'BreakStmt':
        raise _Break()
    elif k in ('WhileStmt', 'ForStmt', 'DoStmt', 'GotoStmt'):
        raise AnalysisError('print_byte: %s is not modelled' % k)
    elif k == 'NullStmt':
        pass
    else:
        out.append(stmt)


class _Break(Exception):
    pass


def escape_table(ctx, L):
    """What print_byte emits is decided for each of the 256 byte values by following the value's own path through the function
    (conditions folded over the value) and comparing the emitted pieces with CPython's bytes repr: \\t \\n \\r \\\\ escapes,
    32..126 as the character itself, everything else as \\x + two lower-case zero-filled hex digits."""
    f = one(ctx.cxx, 'print_byte')
    out, x = f.params[0][0], f.params[1][0]
    classes = {}
    for v in range(256):
        leaves = []
        try:
            _execute(f.body, {x: v}, leaves)
        except _Stop:
            pass
        want = ('escape', PY_ESCAPES[v]) if v in PY_ESCAPES else ('char',) if PY_PRINTABLE[0] <= v <= PY_PRINTABLE[1] else ('hex',)
        texts = [nows(l.text).rstrip(';') for l in leaves]
        lits = [ast.literal_eval(s_.j.get('value')) for l in leaves for s_ in l.find('StringLiteral')]
        if len(leaves) == 1 and lits and texts[0] == nows('%s<<%s' % (out, [s_ for s_ in leaves[0].find('StringLiteral')][0].text)):
            got = ('escape', lits[0])
        elif texts == ['%s<<char(%s)' % (out, x)] or texts == ['%s<<static_cast<char>(%s)' % (out, x)]:
            got = ('char',)
        else:
            e = ';'.join(texts)
            hex_ok = lits == ['\\x'] and ('%s.width(2)' % out in e or 'std::setw(2)' in e) and ("fill('0')" in e or "setfill('0')" in e) \
                and 'std::hex' in e and 'unsigned(%s)' % x in e and 'uppercase' not in e
            if 'width(2)' in e and 'std::hex' in e and e.index('width(2)') > e.index('unsigned(%s)' % x):
                hex_ok = False      # width(2) is consumed by the next insertion and must precede the value
            got = ('hex',) if hex_ok else ('other', e[:160])
        classes.setdefault((want, got), []).append(v)
    n = 0
    for (want, got), vals in sorted(classes.items(), key=lambda kv: kv[1][0]):
        n += 1
        rng = '%d..%d' % (vals[0], vals[-1]) if len(vals) > 1 else str(vals[0])
        L.check(want == got, 'C18.escape-table', 'print_byte|bytes %s|%s' % (rng, want[0]), f.site(),
                'byte value(s) %s (%d value(s)) must be rendered as %s like CPython\'s bytes repr, but the path they take through '
                'print_byte emits %s' % (rng, len(vals), want, got), str(got))
    L.floor('C18.escape-table', n, 6)


def operators(ctx, L):
    cx = ctx.cxx
    for pt, cast in (('int8_t', 'int'), ('uint8_t', 'unsigned')):
        f = one(cx, 'operator<<', lambda g, pt=pt: [t for _, t in g.params][1:] == [pt])
        o, x = f.params[0][0], f.params[1][0]
        L.check(nows(f.body.text) == '{%s<<%s(%s);return%s;}' % (o, cast, x, o), 'C18.byte-operators',
                'operator<<(%s)' % pt, f.site(), 'one-byte integers must print as numbers (%s(x)), not characters' % cast,
                f.body.text)
    # two-phase lookup: `out << x` inside the printer templates is bound to the operator<< overloads *visible at the template
    # definition* (int8_t / uint8_t are fundamental types: nothing is found later by argument-dependent lookup), so the two
    # byte-as-number overloads must be declared before the first printer template that streams a value
    byte_ops = [one(cx, 'operator<<', lambda g, pt=pt: [t for _, t in g.params][1:] == [pt]) for pt in ('int8_t', 'uint8_t')]
    users = [g for g in cx.functions('print', file_suffix='detail/printer.hpp') if (g.owner or '').startswith('printer<')]
    first_use = min([g.node.line for g in users if g.node.line] or [0])
    last_decl = max([g.node.line for g in byte_ops if g.node.line] or [10 ** 9])
    same_file = all((g.node.file or '').endswith('detail/printer.hpp') for g in byte_ops)
    L.check(bool(users) and same_file and last_decl < first_use, 'C18.byte-operators', 'operator<<(int8_t/uint8_t)|declared-before-templates',
            byte_ops[0].site(), 'the int8_t / uint8_t stream operators (printer.hpp:%s) must be declared before the printer templates that use '
            '`out << x` (first at line %s): declared after them they are not found for these fundamental types and every u8 / i8 field is '
            'printed as a raw character instead of a number' % (last_decl, first_use), '')
    f = one(cx, 'operator<<', lambda g: 'pair' in g.params[1][1])
    t = nows(f.body.text)
    o, b = f.params[0][0], f.params[1][0]
    ok = t.startswith("{%s<<'\\'';while(%s.second){print_byte(%s,*%s.first);++%s.first;--%s.second;}%s<<'\\'';return%s;}"
                      % (o, b, o, b, b, b, o, o))
    L.check(ok, 'C18.byte-operators', 'operator<<(pair)', f.site(),
            "bytes print as ' + one print_byte per byte + '", f.body.text)
    f = one(cx, 'operator<<', lambda g: 'indent_t' in g.params[1][1])
    o, i = f.params[0][0], f.params[1][0]
    lits = [ast.literal_eval(s.j.get('value')) for s in f.body.find('StringLiteral')]
    loop_form = lits == ['  '] and nows(f.body.text) == '{while(%s.level){%s<<"";--%s.level;}return%s;}' % (i, o, i, o)
    # padding an empty string to 2*level columns is the same text as long as the stream's fill character is a space:
    # print() renders into a fresh stringstream and F13 guarantees that nothing leaves another fill behind
    f13_clean = not any(ob.status == 'bad' and ob.rule == 'F13.stream-state-restored' for ob in L.obligations)
    width_form = lits == [''] and nows(f.body.text) in ('{%s.width(2*%s.level);return%s<<"";}' % (o, i, o),
                                                         '{%s.width(%s.level*2);return%s<<"";}' % (o, i, o)) and f13_clean
    L.check(loop_form or width_form, 'C18.format-pieces', 'operator<<(indent_t)', f.site(), 'indentation is two spaces per level'
            + ('' if f13_clean else ' (width-padding relies on the fill character, which a sticky manipulator leaves changed)'), f.body.text)


def printers(ctx, L):
    cx = ctx.cxx
    want = {
        '0, 0': '{out<<indent_t(indent)<<name<<":"<<x<<\'\\n\';}',
        '0, 1': '{out<<indent_t(indent)<<name<<":";constchar*literal=print_traits<T>::to_literal(x);if(literal){out<<literal;}'
                'else{out<<uint32_t(x);}out<<\'\\n\';}',
        '1, 0': '{out<<indent_t(indent)<<name<<"{\\n";message_impl<T>::print(x,out,indent+1);out<<indent_t(indent)<<"}\\n";}',
    }
    lits_want = {'0, 0': [': '], '0, 1': [': '], '1, 0': [' {\n', '}\n']}
    n = 0
    for f in cx.functions('print', file_suffix='detail/printer.hpp'):
        if not (f.owner or '').startswith('printer<'):
            continue
        flags = ', '.join(f.owner[:-1].split(', ')[1:])
        n += 1
        if len(f.params) == 4:
            lits = [ast.literal_eval(s.j.get('value')) for s in f.body.find('StringLiteral')]
            ok = nows(f.body.text) == want.get(flags) and lits == lits_want.get(flags)
            L.check(ok, 'C18.format-pieces', f.key(), f.site(),
                    'printer shape must be `<indent>name: value\\n` (scalars, enumerators by name) / '
                    '`<indent>name {\\n ... <indent>}\\n` with the nested message one level deeper', f.body.text)
        else:
            ok = nows(f.body.text) == '{while(n){print(out,indent,name,*x);++x;--n;}}'
            L.check(ok, 'C18.format-pieces', f.key(), f.site(),
                    'array elements are printed one by one under the field name', f.body.text)
    L.floor('C18.format-pieces', n, 6)
    f = one(cx, 'print', lambda g: not g.params, suffix='detail/message.hpp')
    L.check('message_impl<T>::print(*static_cast<constT*>(this),ss,0);returnss.str();' in nows(f.body.text),
            'C18.format-pieces', 'message::print', f.site(), 'print() renders the message at indent level 0', f.body.text)


def python_side(ctx, L):
    m = ctx.py.mod('prophy.composite')
    f = m.func('field_to_string')
    src = unparse(f.node)
    consts = [n.value for n in ast.walk(f.node) if isinstance(n, ast.Constant) and isinstance(n.value, str)]
    # every way out of field_to_string, classified by what is known about the type on that path (not by the shape of the ladder)
    FT = ['name', 'type_', 'value']
    tests = {'array': 'issubclass(type_, base_array)', 'composite': 'issubclass(type_, (struct, union))', 'bytes': 'issubclass(type_, bytes)',
             'enum': 'issubclass(type_, enum)'}
    bodies = {'array': "''.join((field_to_string(name, type_._TYPE, elem) for elem in value))",
              'composite': "'%s {\\n%s}\\n' % (name, '\\n'.join((x and ' ' * 2 + x or '' for x in str(value).split('\\n'))))",
              'bytes': "'%s: %s\\n' % (name, repr_bytes(value))",
              'enum': "'%s: %s\\n' % (name, type_._int_to_name[value])",
              'scalar': "'%s: %s\\n' % (name, value)"}
    why = {'array': 'array elements repeat under the field name', 'composite': 'composite renders as `name {\\n<indented>}\\n`',
           'bytes': 'bytes render through repr_bytes', 'enum': 'enumerators render by name', 'scalar': 'scalars render as `name: value\\n`'}
    rets = [r for r in f.walk() if isinstance(r, ast.Return)]
    seen = {}
    for r in rets:
        known = P.facts(f, r)
        cls = [k for k, t in tests.items() if P.expected_facts(t, True, FT, m) <= known]
        if not cls and all(P.expected_facts(t, False, FT, m) <= known for t in tests.values()):
            cls = ['scalar']
        key = cls[0] if len(cls) == 1 else 'unclassified'
        seen.setdefault(key, []).append(r)
        ok = len(cls) == 1 and P.sem_is(f, r.value, bodies[cls[0]], FT)
        L.check(ok, 'C18.python-format', 'field_to_string|%s|%s' % (key, norm_key(f, r)), f.site(r),
                ('the rendering reached for a %s field must be `%s` (%s)' % (key, bodies.get(key), why.get(key))) if len(cls) == 1 else
                'a rendering is produced on a path where the kind of the field is not decided (array / composite / bytes / enum, else scalar): '
                'known there %s' % sorted(known), ws(unparse(r)))
    L.check(sorted(seen) == sorted(bodies), 'C18.python-format', 'field_to_string|ladder', f.site(),
            'every kind of field (array, composite, bytes, enum, scalar) has exactly its own rendering; found %s' % sorted(seen), '')
    # the indentation of nested text (a helper in the source, folded into the composite rendering in normal form): every
    # non-empty line gets two more spaces, empty lines stay empty
    comp_r = [r for r in rets if 'composite' in [k for k, v in seen.items() if r in v]]
    ok = len(comp_r) == 1 and P.sem_is(f, comp_r[0].value,
                                       "'%s {\\n%s}\\n' % (name, '\\n'.join((x and ' ' * 2 + x or '' for x in str(value).split('\\n'))))", FT)
    L.check(ok, 'C18.python-format', 'field_to_string.indent', f.site(comp_r[0] if comp_r else None),
            'every non-empty nested line gets one more level of two spaces', ws(unparse(comp_r[0])) if comp_r else '')
    six = ctx.py.mod('prophy.six')
    rb = six.func('repr_bytes')
    L.check(unparse(rb.node.body[0]) == 'return repr(x)[1:]', 'C18.python-format', 'repr_bytes', rb.site(),
            'bytes are rendered by CPython repr without the b prefix', unparse(rb.node.body))
    # omission rules
    S = m.func('struct.__str__')
    calls = [c for c in S.walk(into_nested=True) if isinstance(c, ast.Call) and unparse(c.func) == 'field_to_string']
    ok = len(calls) == 1
    t = unparse(S.node)
    if ok:
        own = m.func_of.get(id(calls[0])) or S          # the nested generator, or __str__ itself when the pieces are collected in a list
        loops = [lp for lp in own.walk() if isinstance(lp, ast.For) and any(x is calls[0] for x in ast.walk(lp))]
        ok = len(loops) == 1 and ws(unparse(loops[0].iter)) == 'self._descriptor' and isinstance(loops[0].target, ast.Name)
        if ok:
            fv = loops[0].target.id
            ok = P.sem_text(own, calls[0]) == P.sem_expected('field_to_string(%s.name, %s.type, getattr(self, %s.name, None))' % (fv, fv, fv), own.params, m) \
                and P.knows(own, calls[0], 'getattr(self, %s.name, None) is None' % fv, False) \
                and len(P.facts(own, calls[0])) == 1
    L.check(ok, 'C18.omission-rules', 'struct.__str__', S.site(),
            'fields in declaration order; absent optionals and counters (whose attribute was deleted) are skipped - and nothing else', t)
    u = m.func('union.__str__')
    t = unparse(u.node)
    ok = inn('name = self._discriminated.name', t) and inn('return field_to_string(name, self._discriminated.type, value)', t)
    L.check(ok, 'C18.omission-rules', 'union.__str__', u.site(), 'only the discriminated arm is rendered', t)


def generator_print(ctx, L):
    m = ctx.py.mod('prophyc.generators.cpp_full')
    f = m.func('generate_struct_print')
    _, loop = templ.member_loop(f)
    chain = [s for s in loop.body if isinstance(s, ast.If)]
    if len(chain) != 1:
        raise AnalysisError('generate_struct_print: ladder not found')
    br = templ.if_chain(chain[0])
    tests = [unparse(b.guards[-1][0]) if b.guards[-1][1] else 'else' for b in br]
    # normal form: the counter arm that emits nothing (`elif m.name in bound: pass`) is the guard `m.name not in bound` of the plain arm
    L.check(tests == ['m.is_array', 'm.optional', 'm.name not in bound', 'else'], 'C18.omission-rules',
            'generate_struct_print|ladder', f.site(chain[0]), 'ladder must be array / optional / counter / plain', str(tests))
    if tests == ['m.is_array', 'm.optional', 'm.name not in bound', 'else']:
        L.check(not br[3].body or unparse(br[3].body) == 'pass', 'C18.omission-rules', 'generate_struct_print|counter', f.site(),
                'array counters are not printed', unparse(br[3].body))
        br = [br[0], br[1], br[3], br[2]]
        em = br[1].emits()
        L.check(len(em) == 1 and em[0].text == 'if (x.{0}) do_print(out, indent, "{0}", *x.{0});\n' and em[0].args == ['m.name'],
                'C18.omission-rules', 'generate_struct_print|optional', f.site(), 'absent optionals are not printed', str(em))
        em = br[3].emits()
        L.check(len(em) == 1 and em[0].text == 'do_print(out, indent, "{0}", x.{0});\n' and em[0].args == ['m.name'],
                'C18.omission-rules', 'generate_struct_print|plain', f.site(), 'plain fields print under their own name', str(em))
        arr = ws(unparse(br[0].body))
        L.check(inn("if m.type_name == 'byte':\n    inner = inner.join(('std::make_pair(', ')'))", arr),
                'C18.omission-rules', 'generate_struct_print|bytes', f.site(),
                'exactly byte arrays are wrapped in std::make_pair (printed as a quoted string)', arr[:200])
        L.check(inn('text += \'do_print(out, indent, "{0}", {1});\\n\'.format(m.name, inner)', arr), 'C18.omission-rules',
                'generate_struct_print|array', f.site(), 'arrays print under the field name', arr[-200:])
        L.check(inn("std::min(x.{0}.size(), size_t({1}))", arr), 'C18.omission-rules', 'generate_struct_print|limited',
                f.site(), 'a limited array prints at most its limit', '')
    u = m.func('generate_union_print')
    em = [e for e in templ.string_templates(u.node) if 'do_print' in e.text]
    L.check(len(em) == 1 and em[0].text.startswith('case {0}::discriminator_{1}: do_print(out, indent, "{1}", x.{1}); break;')
            and 'switch (x.discriminator)' in unparse(u.node), 'C18.omission-rules', 'generate_union_print', u.site(),
            'only the discriminated arm is printed, under its own name', str(em))
    e = m.func('_CppTranslator.translate_enum')
    t = unparse(e.node)
    ok = inn('\'case {0}: return "{0}";\\n\'.format(m.name) for m in node.members', t) and inn("'default: return 0;\\n'", t)
    L.check(ok, 'C18.enum-literals', '_CppTranslator.translate_enum', e.site(),
            'to_literal must name every enumerator (and return 0 only for unknown values)', '')
