"""C18 - text rendering agrees between Python and C++ and is not order-sensitive (structural clauses)."""
import ast
import re

from ..core import AnalysisError
from .shared_py import inn
from ..cxxlib import nows, stmts_of, if_parts, int_value
from ..pyfront import unparse
from .. import templ
from . import shared_cxx as S

# CPython bytes.__repr__ (Objects/bytesobject.c, PyBytes_Repr) for single-quoted output
PY_ESCAPES = {9: '\\t', 10: '\\n', 13: '\\r', 92: '\\\\'}
PY_PRINTABLE = (32, 126)     # ' ' <= c < 0x7f printed as is; everything else \xNN, lowercase hex, two digits


def run(ctx, L, tier):
    rules = ['F13.stream-state-restored', 'C18.escape-table', 'C18.byte-operators', 'C18.format-pieces',
             'C18.omission-rules', 'C18.enum-literals', 'C18.python-format']
    S.f13_stream_state(ctx, L)
    escape_table(ctx, L)
    operators(ctx, L)
    printers(ctx, L)
    python_side(ctx, L)
    generator_print(ctx, L)
    return rules


def one(cx, name, pred=None, suffix='detail/printer.hpp'):
    fs = [f for f in cx.functions(name, file_suffix=suffix) if pred is None or pred(f)]
    if len(fs) != 1:
        raise AnalysisError('anchor vanished: %s in %s (found %d)' % (name, suffix, len(fs)))
    return fs[0]


def escape_table(ctx, L):
    f = one(ctx.cxx, 'print_byte')
    out, x = f.params[0][0], f.params[1][0]
    table = {}
    for c in f.body.find('CaseStmt'):
        v = int_value(c.kids[0])
        lits = [s for s in c.find('StringLiteral')]
        if v is None or len(lits) != 1:
            raise AnalysisError('print_byte: unrecognised case label')
        table[v] = ast.literal_eval(lits[0].j.get('value'))
        # every escape case must leave the function (no fall through into the generic branch)
        ok = any(r.kind == 'ReturnStmt' for r in c.parent.kids[c.parent.kids.index(c) + 1:c.parent.kids.index(c) + 2]) \
            or any(True for _ in c.find('ReturnStmt'))
        L.check(ok, 'C18.escape-table', 'print_byte|case %d returns' % v, f.site(c),
                'escape case must return right after printing', c.text)
    L.check(table == PY_ESCAPES, 'C18.escape-table', 'print_byte|escapes', f.site(),
            'escape table %r differs from CPython bytes repr %r' % (table, PY_ESCAPES), str(table))
    ifs = [i for i in stmts_of(f.body) if i.kind == 'IfStmt']
    if len(ifs) != 1:
        raise AnalysisError('print_byte: printable-range test not found')
    cond, then, els = if_parts(ifs[0])
    c = nows(cond.text).replace('(', '').replace(')', '')
    lo = re.search(r'%s>=(\d+)' % x, c)
    lo2 = re.search(r'%s>(\d+)' % x, c)
    hi = re.search(r'%s<=(\d+)' % x, c)
    hi2 = re.search(r'%s<(\d+)' % x, c)
    rng = (int(lo.group(1)) if lo else int(lo2.group(1)) + 1 if lo2 else None,
           int(hi.group(1)) if hi else int(hi2.group(1)) - 1 if hi2 else None)
    L.check(rng == PY_PRINTABLE and '&&' in c, 'C18.escape-table', 'print_byte|printable-range', f.site(ifs[0]),
            'printable range %r differs from CPython (32..126)' % (rng,), cond.text)
    L.check(nows(then.text) == '{%s<<char(%s);}' % (out, x), 'C18.escape-table', 'print_byte|printable-as-char',
            f.site(ifs[0]), 'printable bytes must be streamed as a char', then.text)
    if els is None:
        raise AnalysisError('print_byte: hex branch not found')
    e = nows(els.text)
    lits = [ast.literal_eval(s.j.get('value')) for s in els.find('StringLiteral')]
    ok = lits == ['\\x'] and '%s.width(2)' % out in e and "fill('0')" in e and 'std::hex' in e \
        and 'unsigned(%s)' % x in e and 'uppercase' not in e
    L.check(ok, 'C18.escape-table', 'print_byte|hex-escape', f.site(ifs[0]),
            'other bytes must print as \\x followed by exactly two lower-case zero-filled hex digits of the unsigned value',
            els.text)
    order_ok = e.index('width(2)') < e.index('std::hex') if 'width(2)' in e and 'std::hex' in e else False
    L.check(order_ok, 'C18.escape-table', 'print_byte|width-before-value', f.site(ifs[0]),
            'width(2) is consumed by the next insertion and must precede the value', els.text)


def operators(ctx, L):
    cx = ctx.cxx
    for pt, cast in (('int8_t', 'int'), ('uint8_t', 'unsigned')):
        f = one(cx, 'operator<<', lambda g, pt=pt: [t for _, t in g.params][1:] == [pt])
        o, x = f.params[0][0], f.params[1][0]
        L.check(nows(f.body.text) == '{%s<<%s(%s);return%s;}' % (o, cast, x, o), 'C18.byte-operators',
                'operator<<(%s)' % pt, f.site(), 'one-byte integers must print as numbers (%s(x)), not characters' % cast,
                f.body.text)
    f = one(cx, 'operator<<', lambda g: 'pair' in g.params[1][1])
    t = nows(f.body.text)
    o, b = f.params[0][0], f.params[1][0]
    ok = t.startswith("{%s<<'\\'';while(%s.second){print_byte(%s,*%s.first);++%s.first;--%s.second;}%s<<'\\'';return%s;}"
                      % (o, b, o, b, b, b, o, o))
    L.check(ok, 'C18.byte-operators', 'operator<<(pair)', f.site(),
            "bytes print as ' + one print_byte per byte + '", f.body.text)
    f = one(cx, 'operator<<', lambda g: 'indent_t' in g.params[1][1])
    o, i = f.params[0][0], f.params[1][0]
    lits = [ast.literal_eval(s.j.get('value')) for s in f.body.find('StringLiteral')]
    loop_form = lits == ['  '] and nows(f.body.text) == '{while(%s.level){%s<<"";--%s.level;}return%s;}' % (i, o, i, o)
    # padding an empty string to 2*level columns is the same text as long as the stream's fill character is a space:
    # print() renders into a fresh stringstream and F13 guarantees that nothing leaves another fill behind
    f13_clean = not any(ob.status == 'bad' and ob.rule == 'F13.stream-state-restored' for ob in L.obligations)
    width_form = lits == [''] and nows(f.body.text) in ('{%s.width(2*%s.level);return%s<<"";}' % (o, i, o),
                                                         '{%s.width(%s.level*2);return%s<<"";}' % (o, i, o)) and f13_clean
    L.check(loop_form or width_form, 'C18.format-pieces', 'operator<<(indent_t)', f.site(), 'indentation is two spaces per level'
            + ('' if f13_clean else ' (width-padding relies on the fill character, which a sticky manipulator leaves changed)'), f.body.text)


def printers(ctx, L):
    cx = ctx.cxx
    want = {
        '0, 0': '{out<<indent_t(indent)<<name<<":"<<x<<\'\\n\';}',
        '0, 1': '{out<<indent_t(indent)<<name<<":";constchar*literal=print_traits<T>::to_literal(x);if(literal){out<<literal;}'
                'else{out<<uint32_t(x);}out<<\'\\n\';}',
        '1, 0': '{out<<indent_t(indent)<<name<<"{\\n";message_impl<T>::print(x,out,indent+1);out<<indent_t(indent)<<"}\\n";}',
    }
    lits_want = {'0, 0': [': '], '0, 1': [': '], '1, 0': [' {\n', '}\n']}
    n = 0
    for f in cx.functions('print', file_suffix='detail/printer.hpp'):
        if not (f.owner or '').startswith('printer<'):
            continue
        flags = ', '.join(f.owner[:-1].split(', ')[1:])
        n += 1
        if len(f.params) == 4:
            lits = [ast.literal_eval(s.j.get('value')) for s in f.body.find('StringLiteral')]
            ok = nows(f.body.text) == want.get(flags) and lits == lits_want.get(flags)
            L.check(ok, 'C18.format-pieces', f.key(), f.site(),
                    'printer shape must be `<indent>name: value\\n` (scalars, enumerators by name) / '
                    '`<indent>name {\\n ... <indent>}\\n` with the nested message one level deeper', f.body.text)
        else:
            ok = nows(f.body.text) == '{while(n){print(out,indent,name,*x);++x;--n;}}'
            L.check(ok, 'C18.format-pieces', f.key(), f.site(),
                    'array elements are printed one by one under the field name', f.body.text)
    L.floor('C18.format-pieces', n, 6)
    f = one(cx, 'print', lambda g: not g.params, suffix='detail/message.hpp')
    L.check('message_impl<T>::print(*static_cast<constT*>(this),ss,0);returnss.str();' in nows(f.body.text),
            'C18.format-pieces', 'message::print', f.site(), 'print() renders the message at indent level 0', f.body.text)


def python_side(ctx, L):
    m = ctx.py.mod('prophy.composite')
    f = m.func('field_to_string')
    src = unparse(f.node)
    consts = [n.value for n in ast.walk(f.node) if isinstance(n, ast.Constant) and isinstance(n.value, str)]
    L.check(inn("single_indent_level = ' ' * 2", src), 'C18.python-format', 'field_to_string|indent', f.site(),
            'indentation is two spaces per level', '')
    chain = [s for s in f.node.body if isinstance(s, ast.If)]
    if len(chain) != 1:
        raise AnalysisError('field_to_string: type ladder not found')
    br = templ.if_chain(chain[0])
    tests = [unparse(b.guards[-1][0]) if b.guards[-1][1] else 'else' for b in br]
    want_tests = ['issubclass(type_, base_array)', 'issubclass(type_, (struct, union))', 'issubclass(type_, bytes)',
                  'issubclass(type_, enum)', 'else']
    L.check(tests == want_tests, 'C18.python-format', 'field_to_string|ladder', f.site(chain[0]),
            'type ladder must be array, composite, bytes, enum, scalar (in this order: an enum is an int, bytes is not '
            'an array)', str(tests))
    if tests == want_tests:
        bodies = [unparse(b.body) for b in br]
        L.check(bodies[0] == "return ''.join((field_to_string(name, type_._TYPE, elem) for elem in value))",
                'C18.python-format', 'field_to_string|array', f.site(), 'array elements repeat under the field name', bodies[0])
        L.check(bodies[1] == "return '%s {\\n%s}\\n' % (name, indent(str(value)))", 'C18.python-format',
                'field_to_string|composite', f.site(), 'composite renders as `name {\\n<indented>}\\n`', bodies[1])
        L.check(bodies[2] == "return '%s: %s\\n' % (name, repr_bytes(value))", 'C18.python-format',
                'field_to_string|bytes', f.site(), 'bytes render through repr_bytes', bodies[2])
        L.check(bodies[3] == "return '%s: %s\\n' % (name, type_._int_to_name[value])", 'C18.python-format',
                'field_to_string|enum', f.site(), 'enumerators render by name', bodies[3])
        L.check(bodies[4] == "return '%s: %s\\n' % (name, value)", 'C18.python-format', 'field_to_string|scalar',
                f.site(), 'scalars render as `name: value\\n`', bodies[4])
    ind = m.func('field_to_string.indent')
    L.check(unparse(ind.node.body[0]) == "return '\\n'.join((x and single_indent_level + x or '' for x in text.split('\\n')))",
            'C18.python-format', 'field_to_string.indent', ind.site(), 'every non-empty nested line gets one more level', '')
    six = ctx.py.mod('prophy.six')
    rb = six.func('repr_bytes')
    L.check(unparse(rb.node.body[0]) == 'return repr(x)[1:]', 'C18.python-format', 'repr_bytes', rb.site(),
            'bytes are rendered by CPython repr without the b prefix', unparse(rb.node.body))
    # omission rules
    s = m.func('struct.__str__.to_str')
    t = unparse(s.node)
    ok = inn('for field in self._descriptor:', t) and inn('value = getattr(self, field.name, None)', t) \
        and inn('if value is not None:', t) and inn('yield field_to_string(field.name, field.type, value)', t)
    L.check(ok, 'C18.omission-rules', 'struct.__str__', s.site(),
            'fields in declaration order; absent optionals and counters (whose attribute was deleted) are skipped', t)
    u = m.func('union.__str__')
    t = unparse(u.node)
    ok = inn('name = self._discriminated.name', t) and inn('return field_to_string(name, self._discriminated.type, value)', t)
    L.check(ok, 'C18.omission-rules', 'union.__str__', u.site(), 'only the discriminated arm is rendered', t)


def generator_print(ctx, L):
    m = ctx.py.mod('prophyc.generators.cpp_full')
    f = m.func('generate_struct_print')
    _, loop = templ.member_loop(f)
    chain = [s for s in loop.body if isinstance(s, ast.If)]
    if len(chain) != 1:
        raise AnalysisError('generate_struct_print: ladder not found')
    br = templ.if_chain(chain[0])
    tests = [unparse(b.guards[-1][0]) if b.guards[-1][1] else 'else' for b in br]
    L.check(tests == ['m.is_array', 'm.optional', 'm.name in bound', 'else'], 'C18.omission-rules',
            'generate_struct_print|ladder', f.site(chain[0]), 'ladder must be array / optional / counter / plain', str(tests))
    if tests == ['m.is_array', 'm.optional', 'm.name in bound', 'else']:
        L.check(unparse(br[2].body) == 'pass', 'C18.omission-rules', 'generate_struct_print|counter', f.site(),
                'array counters are not printed', unparse(br[2].body))
        em = br[1].emits()
        L.check(len(em) == 1 and em[0].text == 'if (x.{0}) do_print(out, indent, "{0}", *x.{0});\n' and em[0].args == ['m.name'],
                'C18.omission-rules', 'generate_struct_print|optional', f.site(), 'absent optionals are not printed', str(em))
        em = br[3].emits()
        L.check(len(em) == 1 and em[0].text == 'do_print(out, indent, "{0}", x.{0});\n' and em[0].args == ['m.name'],
                'C18.omission-rules', 'generate_struct_print|plain', f.site(), 'plain fields print under their own name', str(em))
        arr = unparse(br[0].body)
        L.check(inn("if m.type_name == 'byte':\n    inner = inner.join(('std::make_pair(', ')'))", arr),
                'C18.omission-rules', 'generate_struct_print|bytes', f.site(),
                'exactly byte arrays are wrapped in std::make_pair (printed as a quoted string)', arr[:200])
        L.check(inn('text += \'do_print(out, indent, "{0}", {1});\\n\'.format(m.name, inner)', arr), 'C18.omission-rules',
                'generate_struct_print|array', f.site(), 'arrays print under the field name', arr[-200:])
        L.check(inn("std::min(x.{0}.size(), size_t({1}))", arr), 'C18.omission-rules', 'generate_struct_print|limited',
                f.site(), 'a limited array prints at most its limit', '')
    u = m.func('generate_union_print')
    em = [e for e in templ.string_templates(u.node) if 'do_print' in e.text]
    L.check(len(em) == 1 and em[0].text.startswith('case {0}::discriminator_{1}: do_print(out, indent, "{1}", x.{1}); break;')
            and 'switch (x.discriminator)' in unparse(u.node), 'C18.omission-rules', 'generate_union_print', u.site(),
            'only the discriminated arm is printed, under its own name', str(em))
    e = m.func('_CppTranslator.translate_enum')
    t = unparse(e.node)
    ok = inn('\'case {0}: return "{0}";\\n\'.format(m.name) for m in node.members', t) and inn("'default: return 0;\\n'", t)
    L.check(ok, 'C18.enum-literals', '_CppTranslator.translate_enum', e.site(),
            'to_literal must name every enumerator (and return 0 only for unknown values)', '')
