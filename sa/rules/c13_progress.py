"""F12 PROGRESS (E5): every `while` loop and every recursive cycle reachable from prophyc.main is classified by the
progress argument visible in its shape; chain-walks and rotations additionally need an acyclicity establisher on the
path from the input to the loop."""
import ast
import re

from ..core import AnalysisError
from .shared_py import inn
from ..pyfront import unparse, norm_key, try_const
from .. import excflow


from ..pyfront import ws  # noqa: E402,F401  (whitespace-collapsed, rename/normal-form tolerant `in`)


def classify_while(f, w):
    """-> (kind, detail) or (None, why)"""
    test = ws(unparse(w.test))
    body = [ws(unparse(s)) for s in w.body]
    # queue-drain: while q: ... q.popleft()/pop()
    m = re.match(r'^(self\.\w+|\w+)$', test)
    if m and any(re.search(r'%s\.(popleft|pop)\(' % re.escape(m.group(1)), b) for b in body):
        return 'queue-drain', 'each iteration removes one element of %s' % m.group(1)
    # monotone counter: while pos < len(x): ...; pos += <positive>
    m = re.match(r'^(\w+) < len\((\w+)\)$', test)
    if m:
        incs = [s for s in w.body if isinstance(s, ast.AugAssign) and isinstance(s.op, ast.Add) and unparse(s.target) == m.group(1)]
        if len(incs) == 1:
            step = unparse(incs[0].value)
            return 'monotone-counter', '%s grows by %s towards len(%s) (progress needs %s > 0)' % (m.group(1), step, m.group(2), step)
    # chain-walk: while isinstance(x, T) [and x.attr]: x = x.attr    /    while getattr(x, 'attr', None): x = x.attr
    m = re.match(r'^isinstance\((\w+)(?:\.(\w+))?, (?:model\.)?(\w+)\)(?: and \1\.(\w+))?$', test)
    if m:
        var = m.group(1)
        nxt = [b for b in body if re.match(r'^%s = %s\.(\w+)$' % (var, var), b)]
        if len(body) == 1 and nxt:
            return 'chain-walk', 'follows %s along the definition chain' % nxt[0].split('.')[-1]
    m = re.match(r"^getattr\((\w+), '(\w+)', None\)$", test)
    if m and body == ['%s = %s.%s' % (m.group(1), m.group(1), m.group(2))]:
        return 'chain-walk', 'follows .%s along the definition chain' % m.group(2)
    # fixpoint rotation: while f(): pass
    if isinstance(w.test, ast.Call) and not w.test.args and body == ['pass']:
        return 'fixpoint-rotation', 'repeats %s() until it reports no change' % unparse(w.test.func)
    # lookup chain: while not isinstance(p[0], int): p[0] = self.vars[p[0]]
    m = re.match(r'^not isinstance\((.+), int\)$', test)
    if m and len(body) == 1 and re.match(r'^%s = self\.vars\[%s\]$' % (re.escape(m.group(1)), re.escape(m.group(1))), body[0]):
        return 'lookup-chain', 'follows names through the constants table until an integer (a missing name raises LookupError)'
    # consume-or-stop: while True: pos = s.find(tok); if pos == -1: break; ... s = rebuilt without that occurrence
    if test == 'True' and any(isinstance(s, ast.If) and any(isinstance(x, ast.Break) for x in s.body) for s in w.body):
        return 'consume-or-stop', 'leaves through break when no occurrence is left'
    return None, 'no recognised progress argument'


def run(ctx, L):
    from . import c13
    cg = excflow.CallGraph(ctx.py, c13.SCOPE, dispatch=c13.dispatch(ctx), families=c13.FAMILIES)
    main = ctx.py.func('prophyc:main')
    funcs = cg.reachable([main])
    n = 0
    establishers = acyclicity_establishers(ctx, L)
    # every while loop of the analysed modules, reachable through the call graph or not (properties, decorators and
    # generators are entered without a visible call)
    allf = [g for mn in c13.SCOPE for g in ctx.py.mod(mn).all_funcs()]
    for f in sorted(allf, key=lambda g: g.fq):
        for w in [x for x in f.walk() if isinstance(x, ast.While)]:
            n += 1
            kind, detail = classify_while(f, w)
            key = '%s|while %s' % (f.fq, norm_key(f, w.test))
            if kind is None:
                L.bad('F12.progress', key, f.site(w), 'loop without a visible progress argument (%s): termination for every input is '
                      'not evident from its shape' % detail, ws(unparse(w))[:160])
                continue
            if kind in ('chain-walk', 'fixpoint-rotation', 'lookup-chain'):
                # terminates only if the structure walked is acyclic: needs an establisher on every front-end path
                missing = [fe for fe, ok in establishers.items() if not ok]
                if kind == 'lookup-chain':
                    # names -> values in the constants table: values are ints/None or typedef targets, a cycle needs typedef cycles too
                    pass
                L.check(not missing, 'F12.acyclicity', key, f.site(w),
                        '%s loop (%s) terminates only on acyclic definitions; no acyclicity establisher (declared-before-use, a '
                        'visited set or a cycle check) exists on the %s path(s): a self-referential typedef, a typedef cycle or '
                        'mutually recursive structs make prophyc hang' % (kind, detail, ' / '.join(missing)), ws(unparse(w))[:160])
            else:
                L.ok('F12.progress', key, f.site(w), '%s: %s' % (kind, detail))
    L.floor('F12.progress', n, 11)
    recursion(ctx, L, cg, funcs, establishers)
    lexer_regexes(ctx, L)


def acyclicity_establishers(ctx, L):
    """Per front-end: is there something on the path from the input to the model that guarantees acyclic definitions?"""
    pp = ctx.py.mod('prophyc.parsers.prophy')
    ts = pp.func('Parser.p_type_spec_4')
    s = ws(unparse(ts.node))
    # prophy text: a type can only be referenced after its declaration (and a redefinition is an error that fails the parse)
    declared_before_use = inn('t[1] in self.typedecls', s) and inn("\"type '{}' was not declared\".format(t[1])", s)
    uid = pp.func('Parser.p_unique_id')
    redefinition_fails = 't[1] not in self.typedecls and t[1] not in self.constdecls' in ws(unparse(uid.node))
    L.check(declared_before_use and redefinition_fails, 'F12.establisher', 'prophy front-end|declared-before-use', ts.site(),
            'the prophy grammar must reject references to undeclared types and redefinitions (that is what makes definition chains acyclic)', s)
    # model level (serves isar, sack and patched models): a cycle check on the dependency graph that runs before the
    # rotation loop of topological_sort and fails with ModelError
    model = ctx.py.mod('prophyc.model')
    ts = model.func('topological_sort')
    model_guard = False
    loop_idx = [i for i, st in enumerate(ts.node.body) if isinstance(st, ast.For) and any(isinstance(x, ast.While) for x in ast.walk(st))]
    for i, st in enumerate(ts.node.body):
        if isinstance(st, ast.Expr) and isinstance(st.value, ast.Call) and isinstance(st.value.func, ast.Name) \
                and loop_idx and i < loop_idx[0] and model.has_func(st.value.func.id):
            g = model.func(st.value.func.id)
            gs = ws(unparse(g.node))
            raises = [r for r in g.walk() if isinstance(r, ast.Raise) and r.exc is not None and 'ModelError' in unparse(r.exc)]
            walks_deps = '.dependencies()' in gs
            membership = re.search(r'if \w+ in (on_path|visiting|seen|path|visited)\b', gs) is not None
            # the graph must hold the dependencies of *every* definition: two definitions may share a name (isar input
            # is not checked for redefinitions), so a store keyed by the name has to accumulate, not overwrite
            overwrites, accumulates = [], []
            for x in g.walk():
                def name_key(k):
                    return isinstance(k, ast.Attribute) and k.attr == 'name'
                if isinstance(x, ast.Call) and isinstance(x.func, ast.Attribute) and x.func.attr == 'setdefault' and x.args and name_key(x.args[0]):
                    accumulates.append(x)
                elif isinstance(x, ast.AugAssign) and isinstance(x.target, ast.Subscript) and name_key(x.target.slice):
                    accumulates.append(x)
                elif isinstance(x, ast.Assign) and any(isinstance(t, ast.Subscript) and name_key(t.slice) for t in x.targets):
                    overwrites.append(x)
                elif isinstance(x, ast.DictComp) and name_key(x.key):
                    overwrites.append(x)
                elif isinstance(x, ast.Call) and unparse(x.func) == 'dict' and x.args and isinstance(x.args[0], (ast.GeneratorExp, ast.ListComp)) \
                        and isinstance(x.args[0].elt, ast.Tuple) and x.args[0].elt.elts and name_key(x.args[0].elt.elts[0]):
                    overwrites.append(x)
            complete = bool(accumulates) and not overwrites
            L.check(complete, 'F12.establisher', 'model|cycle-check-graph-complete', g.site(overwrites[0] if overwrites else None),
                    'the dependency graph of the cycle check is keyed by definition name and must accumulate the dependencies of '
                    'same-named definitions (setdefault(...).update / |=): an overwriting store drops the edges of the earlier '
                    'definition, a cycle through it goes undetected and the rotation loop of topological_sort never ends',
                    ws(unparse(overwrites[0]))[:200] if overwrites else gs[:200])
            if raises and walks_deps and membership and complete:
                model_guard = True
    return {'prophy': declared_before_use and redefinition_fails, 'isar': model_guard, 'patch (rename)': model_guard}


def recursion(ctx, L, cg, funcs, establishers):
    """Recursive cycles of the call graph reachable from main, each with its progress argument."""
    ids = {id(f): f for f in funcs}
    edges = {id(f): set(id(g) for c, ts in cg.calls_of(f) for g in ts if id(g) in ids) for f in funcs}
    # Tarjan
    index, low, stack, on, sccs = {}, {}, [], set(), []

    def strong(v):
        work = [(v, iter(sorted(edges[v])))]
        index[v] = low[v] = len(index)
        stack.append(v)
        on.add(v)
        while work:
            node, it = work[-1]
            adv = False
            for w in it:
                if w not in index:
                    index[w] = low[w] = len(index)
                    stack.append(w)
                    on.add(w)
                    work.append((w, iter(sorted(edges[w]))))
                    adv = True
                    break
                elif w in on:
                    low[node] = min(low[node], index[w])
            if adv:
                continue
            work.pop()
            if work:
                low[work[-1][0]] = min(low[work[-1][0]], low[node])
            if low[node] == index[node]:
                comp = []
                while True:
                    x = stack.pop()
                    on.discard(x)
                    comp.append(x)
                    if x == node:
                        break
                sccs.append(comp)
    for v in sorted(edges):
        if v not in index:
            strong(v)
    rec = [c for c in sccs if len(c) > 1 or c[0] in edges[c[0]]]
    # progress arguments, confirmed by reading; keyed by a member function of the cycle
    TABLE = {
        'prophyc.model:_make_types_index': ('include-tree', 'descends into Include.members: the include tree is finite and acyclic because FileProcessor raises CyclicIncludeError'),
        'prophyc.model:_collect_constants': ('include-tree', 'descends into Include.members (acyclic include tree)'),
        'prophyc.model:evaluate_sizes': ('include-tree', 'descends into Include.members (acyclic include tree)'),
        'prophyc.model:Include.defined_symbols': ('include-tree', 'descends into nested Include members (acyclic include tree)'),
        'prophyc:flatten_included_defs.get_nodes_and_names': ('include-tree', 'descends into Include.members (acyclic include tree)'),
        'prophyc.file_processor:FileProcessor._process_file': ('include-tree', 'include recursion: the cycle marker (files[path] = None) turns a cyclic include into CyclicIncludeError'),
        'prophyc.model:_collect_constants.get_last_in_chain': ('chain-walk', 'follows typedef names through the constants table'),
        'prophyc.parsers.prophy:Parser._is_type_sizer_compatible': ('chain-walk', 'follows typedef type names through typedecls'),
        'prophyc.generators.word_wrap': ('structural', 'text helpers recurse on strictly shorter input'),
        'prophyc.model:_Container.dependencies': ('artefact', 'member.dependencies() resolves by name family to every dependencies(); members are '
                                                  'StructMember / UnionMember / EnumMember (see _member_type_restriction), never containers'),
        'prophyc.model:_SerializableContainer.calc_wire_stiffness': ('artefact', 'member.calc_wire_stiffness() is Typedef.calc_wire_stiffness: members are '
                                                                     'StructMember / UnionMember, never containers'),
        'prophyc.generators.base:TranslatorBase.__call__': ('static-depth', 'a translator runs its prerequisite_translators, which are literal class '
                                                            'attributes; the prerequisite classes declare no prerequisites themselves'),
    }
    n = 0
    for comp in rec:
        names = sorted(ids[i].fq for i in comp)
        key = 'recursion|' + names[0]
        n += 1
        entry = None
        for nm in names:
            for k, v in TABLE.items():
                if nm == k or nm.startswith(k + '.') or (k.endswith('word_wrap') and nm.startswith(k)):
                    entry = v
        if entry is None:
            L.bad('F12.recursion', key, ids[comp[0]].site(), 'recursive cycle without a recorded progress argument: %s' % ', '.join(names[:5]),
                  ', '.join(names))
            continue
        kind, why = entry
        if kind == 'artefact':
            model = ctx.py.mod('prophyc.model')
            restr = {c: unparse(model.assign_value('_member_type_restriction', c)) for c in ('Struct', 'Union', 'Enum')}
            okr = restr == {'Struct': 'StructMember', 'Union': 'UnionMember', 'Enum': 'EnumMember'}
            L.check(okr, 'F12.recursion', key, ids[comp[0]].site(), 'member types of containers changed: %s' % restr, str(restr))
            continue
        if kind == 'static-depth':
            deep = []
            for mn in ('prophyc.generators.cpp', 'prophyc.generators.cpp_full', 'prophyc.generators.python', 'prophyc.generators.prophy'):
                gm = ctx.py.mod(mn)
                for cname, cnode in gm.classes.items():
                    pre = [s_ for s_ in cnode.body if isinstance(s_, ast.Assign) and unparse(s_.targets[0]) == 'prerequisite_translators']
                    for a_ in pre:
                        for e in getattr(a_.value, 'elts', []):
                            sub = gm.classes.get(unparse(e))
                            if sub is not None and any(isinstance(s_, ast.Assign) and unparse(s_.targets[0]) == 'prerequisite_translators'
                                                       and getattr(s_.value, 'elts', []) for s_ in sub.body):
                                deep.append('%s -> %s' % (cname, unparse(e)))
            L.check(not deep, 'F12.recursion', key, ids[comp[0]].site(), 'nested prerequisite translators: %s' % deep, str(deep))
            continue
        if kind == 'chain-walk':
            if 'get_last_in_chain' in names[0] or any('get_last_in_chain' in x for x in names):
                missing = [fe for fe, ok in establishers.items() if not ok]
            else:
                # the prophy parser records a redefinition as an error but keeps parsing and overwrites typedecls[name]
                pp = ctx.py.mod('prophyc.parsers.prophy')
                td = ws(unparse(pp.func('Parser.p_typedef_def').node))
                overwrites = inn('self.typedecls[t[3]] = node', td)
                from . import shared_py as P
                scf = pp.func('Parser._is_type_sizer_compatible')
                SC = ['self', 'typename', 'seen']
                rec = [c for c in scf.walk() if isinstance(c, ast.Call) and unparse(c.func).endswith('._is_type_sizer_compatible')]
                # every recursive call extends the visited tuple by the name being left and is reached only for unvisited names
                visited = bool(rec) and len(scf.params) == 3 and all(
                    len(c.args) == 2 and P.sem_is(scf, c.args[1], 'seen + (typename,)', SC) and P.knows(scf, c, 'typename in seen', False, SC)
                    for c in rec)
                missing = ['prophy (a redefinition `typedef A A;` is only recorded as an error; parsing goes on and overwrites '
                           'typedecls[A] with a self-referential typedef)'] if overwrites and not visited else []
            L.check(not missing, 'F12.acyclicity', key, ids[comp[0]].site(),
                    'recursion (%s) terminates only on acyclic definitions; no establisher on: %s (RecursionError / hang)'
                    % (why, ' / '.join(missing)), ', '.join(names))
        else:
            L.ok('F12.recursion', key, ids[comp[0]].site(), '%s: %s' % (kind, why))
    L.floor('F12.recursion', n, 5)
    fp = ctx.py.mod('prophyc.file_processor').func('FileProcessor._process_file')
    s = ws(unparse(fp.node))
    from . import shared_py as P
    CP = ['self', 'path']
    marks = [a for a in fp.walk() if isinstance(a, ast.Assign) and P.sem_is(fp, a, 'self.files[os.path.abspath(path)] = None', CP)]
    raises = [r for r in fp.walk() if isinstance(r, ast.Raise) and 'CyclicIncludeError' in unparse(r.exc)
              and P.knows(fp, r, 'os.path.abspath(path) in self.files and self.files[os.path.abspath(path)] is None', True, CP)]
    procs = [c for c in fp.walk() if isinstance(c, ast.Call) and unparse(c.func) == 'self.process_content']
    def dfs(n):
        yield n
        for c in ast.iter_child_nodes(n):
            for x in dfs(c):
                yield x
    seq = dict((id(n), i) for i, n in enumerate(dfs(fp.node)))      # structural order (folded helpers carry the caller's line)
    L.check(len(marks) == 1 and len(raises) == 1 and len(procs) == 1 and seq[id(marks[0])] < seq[id(procs[0])]
            and P.knows(fp, procs[0], 'os.path.abspath(path) in self.files', False, CP), 'F12.establisher', 'include cycle marker', fp.site(),
            'the cycle marker must be stored before processing and tested (is None) before use', s[:300])


def lexer_regexes(ctx, L):
    """Token regexes of the two ply lexers: no quantified group one of whose alternatives is itself nothing but a
    quantified atom (`(X+|...)*`, `(a+)+`, `(.*)*`): a backtracking engine explores exponentially many splits of a run
    of X when the overall match fails (e.g. an unterminated comment), so lexing time is not bounded by the input size."""
    import re._parser as sre
    n = 0
    for modname, cls in (('prophyc.parsers.prophy', 'Parser'), ('prophyc.calc', 'Calc')):
        m = ctx.py.mod(modname)
        pats = []
        for f in m.all_funcs():
            if re.match(r'^%s\.t_(?!error)\w+$' % cls, f.qualname):
                doc = ast.get_docstring(f.node, clean=False)
                if doc:
                    pats.append((f.qualname, doc.strip(), f.site()))
        for st in m.cls(cls).body:
            if isinstance(st, ast.Assign) and unparse(st.targets[0]).startswith('t_') and isinstance(st.value, ast.Constant) \
                    and isinstance(st.value.value, str) and unparse(st.targets[0]) != 't_ignore':
                pats.append((cls + '.' + unparse(st.targets[0]), st.value.value, '%s:%d' % (m.rel, st.lineno)))
        for name, pat, site in pats:
            n += 1
            try:
                tree = sre.parse(pat)
            except Exception as e:
                L.bad('F12.lexer-regex', name, site, 'token regex does not parse: %s' % e, pat)
                continue
            bad = nested_bare_repeat(tree)
            L.check(not bad, 'F12.lexer-regex', name, site,
                    'token regex `%s` repeats a group that contains an alternative consisting only of a repeated atom (%s): '
                    'catastrophic backtracking on input where the token cannot be completed (e.g. an unterminated comment) - '
                    'lexing time grows exponentially with the input' % (pat, bad), pat)
    L.floor('F12.lexer-regex', n, 20)


def nested_bare_repeat(tree):
    import re._constants as C

    def unbounded(node):
        op, av = node
        return op in (C.MAX_REPEAT, C.MIN_REPEAT) and av[1] == C.MAXREPEAT

    def alternatives(sub):
        """The alternatives of a repeated body: each a list of nodes."""
        items = list(sub)
        if len(items) == 1 and items[0][0] is C.SUBPATTERN:
            return alternatives(items[0][1][3])
        if len(items) == 1 and items[0][0] is C.BRANCH:
            out = []
            for alt in items[0][1][1]:
                out.extend(alternatives(alt))
            return out
        return [items]

    UNIVERSE = set(chr(i) for i in range(128))
    CATS = {'CATEGORY_SPACE': set(' \t\n\r\f\v'), 'CATEGORY_DIGIT': set('0123456789'),
            'CATEGORY_WORD': set('abcdefghijklmnopqrstuvwxyzABCDEFGHIJKLMNOPQRSTUVWXYZ0123456789_')}

    def first_chars(node):
        """ASCII characters a single-character atom can match (None: not a single-character atom)."""
        op, av = node
        if op is C.LITERAL:
            return set([chr(av)]) if av < 128 else set()
        if op is C.NOT_LITERAL:
            return UNIVERSE - set([chr(av)])
        if op is C.ANY:
            return UNIVERSE - set('\n')
        if op is C.IN:
            out = set()
            neg = False
            for o, a in av:
                if o is C.NEGATE:
                    neg = True
                elif o is C.LITERAL and a < 128:
                    out.add(chr(a))
                elif o is C.RANGE:
                    out |= set(chr(i) for i in range(a[0], min(a[1], 127) + 1))
                elif o is C.CATEGORY:
                    nm = str(a)
                    if nm.startswith('CATEGORY_NOT_'):
                        out |= UNIVERSE - CATS.get('CATEGORY_' + nm[len('CATEGORY_NOT_'):], set())
                    else:
                        out |= CATS.get(nm, set())
            return UNIVERSE - out if neg else out
        return None

    def walk(sub):
        for node in sub:
            op, av = node
            if op in (C.MAX_REPEAT, C.MIN_REPEAT):
                body = av[2]
                if av[1] == C.MAXREPEAT:
                    alts = alternatives(body)
                    for alt in alts:
                        if len(alt) == 1 and unbounded(alt[0]):
                            return 'alternative is a bare repeat'
                    # two alternatives of a repeated group that can both consume the same single character make the number of
                    # ways to split a run of such characters exponential (`(.|\\s)*`: a blank is matched by either branch)
                    singles = [(alt, first_chars(alt[0])) for alt in alts if len(alt) == 1 and first_chars(alt[0]) is not None]
                    for i in range(len(singles)):
                        for j in range(i + 1, len(singles)):
                            common = singles[i][1] & singles[j][1]
                            if common:
                                return 'two single-character alternatives of a repeated group overlap on %r' % ''.join(sorted(common))[:12]
                r = walk(body)
                if r:
                    return r
            elif op is C.SUBPATTERN:
                r = walk(av[3])
                if r:
                    return r
            elif op is C.BRANCH:
                for alt in av[1]:
                    r = walk(alt)
                    if r:
                        return r
        return None
    return walk(tree)
