"""Rule families over prophyc/model.py (layout computation) shared by C03, C04, C08, C12."""
import ast
import re

from ..core import AnalysisError
from ..pyfront import unparse, try_const, norm_key
from .. import predabs
from .shared_py import inn,  has, stmt_srcs, contains, module_globals

FIXED, DYNAMIC, UNLIMITED = 0, 1, 2


from ..pyfront import ws  # noqa: E402,F401  (whitespace-collapsed, rename/normal-form tolerant `in`)


def stiffness(ctx, L):
    """(b) calc_wire_stiffness assigns the join of its parts: UNLIMITED if the last member is greedy, DYNAMIC if any
    member is an ext-sized array, and never less than the maximum member kind."""
    lowermost(ctx, L)
    m = ctx.py.mod('prophyc.model')
    f = m.func('_SerializableContainer.calc_wire_stiffness')
    ifs = [n for n in f.walk() if isinstance(n, ast.If) and 'greedy' in unparse(n.test)]
    if len(ifs) != 1:
        raise AnalysisError('calc_wire_stiffness: stiffness ladder not found')
    block = None
    for n in f.walk():
        for field in ('body', 'orelse'):
            b = getattr(n, field, None)
            if isinstance(b, list) and any(x is ifs[0] for x in b):
                block = b
    if block is None:
        block = f.node.body

    from . import shared_py as P_

    def cn(node_or_text):
        # rename-insensitive text (the comprehension variable may have any name)
        return P_._canon(node_or_text, P_.module_globals(m) | {'self'})

    def test_value(t, s):
        src = ws(unparse(t))
        if src == 'self.members[-1].greedy':
            return s['last_greedy']
        if cn(t) == cn('any((x.is_dynamic for x in self.members))'):
            return s['any_dyn']
        raise AnalysisError('calc_wire_stiffness: unrecognised test `%s`' % src)

    def eval_kind(v, s):
        src = ws(unparse(v))
        if src in ('Kind.UNLIMITED', 'Kind.DYNAMIC', 'Kind.FIXED'):
            return predabs.KIND_NAMES[src.split('.')[1]]
        if cn(v) == cn('max((x.kind for x in self.members))'):
            return s['max_kind']
        if src == 'self.kind':
            return s['_cur']
        if isinstance(v, ast.Name) and ('local:' + v.id) in s:
            return s['local:' + v.id]          # a local accumulator of the kind
        if src == 'self.members[-1].kind':
            return s['last_kind']
        if isinstance(v, ast.Call) and unparse(v.func) == 'max' and v.args:
            return max(eval_kind(a, s) for a in v.args)
        if isinstance(v, ast.IfExp):
            return eval_kind(v.body, s) if test_value(v.test, s) else eval_kind(v.orelse, s)
        raise AnalysisError('calc_wire_stiffness: unrecognised kind expression `%s`' % src)

    def run_block(stmts, s):
        for st in stmts:
            if isinstance(st, ast.Assign) and unparse(st.targets[0]) == 'self.kind':
                s['_cur'] = eval_kind(st.value, s)
            elif isinstance(st, ast.Assign) and len(st.targets) == 1 and isinstance(st.targets[0], ast.Name):
                s['local:' + st.targets[0].id] = eval_kind(st.value, s)
            elif isinstance(st, ast.If):
                run_block(st.body if test_value(st.test, s) else st.orelse, s)
            elif isinstance(st, (ast.For, ast.Expr, ast.Pass)):
                continue
            else:
                raise AnalysisError('calc_wire_stiffness: unrecognised statement `%s`' % ws(unparse(st))[:80])

    names = {0: 'FIXED', 1: 'DYNAMIC', 2: 'UNLIMITED'}
    n = 0
    for last_greedy in (False, True):
        for any_dyn in (False, True):
            for max_kind in (FIXED, DYNAMIC, UNLIMITED):
              for last_kind in (FIXED, DYNAMIC, UNLIMITED):
                if last_kind > max_kind or (last_kind != max_kind and max_kind == UNLIMITED):
                    continue        # an unlimited member can only be the last one (D3)
                s = {'last_greedy': last_greedy, 'any_dyn': any_dyn, 'max_kind': max_kind, 'last_kind': last_kind}
                s['_cur'] = FIXED
                run_block(block, s)
                got = s['_cur']
                join = max(UNLIMITED if last_greedy else FIXED, DYNAMIC if any_dyn else FIXED, max_kind)
                n += 1
                key = 'calc_wire_stiffness|last_greedy=%s any_ext_sized=%s max_member_kind=%s' % (last_greedy, any_dyn, names[max_kind]) \
                    + ('' if last_kind == max_kind else ' last_member_kind=%s' % names[last_kind])
                L.check(got == join, 'E6.stiffness-join', key, f.site(ifs[0]),
                        'a struct whose last member is %sgreedy, with %s ext-sized array and maximum member kind %s is classified '
                        '%s; the join of its parts is %s (a type containing an unlimited part must never be classified lower: it '
                        'could then be placed non-last or inside an array, which the runtime rejects at import)'
                        % ('' if last_greedy else 'not ', 'an' if any_dyn else 'no', names[max_kind], names.get(got), names[join]),
                        ws(unparse(ifs[0]))[:200])
    L.floor('E6.stiffness-join', n, 12)
    L.check('for member in self.members: member.calc_wire_stiffness()' in ws(unparse(f.node)), 'E6.stiffness-join',
            'calc_wire_stiffness|members-first', f.site(), 'member kinds are evaluated before the struct kind', '')
    t = m.func('Typedef.calc_wire_stiffness')
    src = ws(unparse(t.node))
    L.check(inn('self.kind = Kind.FIXED', src) and inn('if self.definition and isinstance(self.lowermost_typedef, Struct): self.kind = self.lowermost_typedef.kind', src),
            'E6.stiffness-join', 'Typedef.calc_wire_stiffness', t.site(),
            'a typedef / member takes the kind of the struct at the end of its definition chain, FIXED otherwise', src)
    es = m.func('evaluate_stiffness_kinds')
    L.check('if isinstance(node, Struct): node.calc_wire_stiffness()' in ws(unparse(es.node)), 'E6.stiffness-join',
            'evaluate_stiffness_kinds', es.site(), 'kinds are re-evaluated for every struct after cross-referencing', '')


def lowermost(ctx, L):
    """Typedef.lowermost_typedef (the kind of a member comes from the end of its alias chain): follows `.definition` while it is a
    Typedef - nothing else stops the walk (a member is a Typedef too: its own name is a *field* name, not a type name)."""
    m = ctx.py.mod('prophyc.model')
    f = m.func('Typedef.lowermost_typedef')
    from . import shared_py as P
    L.check(P.body_is(f, """
        lowermost = self.definition
        while isinstance(lowermost, Typedef):
            lowermost = lowermost.definition
        return lowermost
    """, params=['self']), 'E6.stiffness-join', 'Typedef.lowermost_typedef', f.site(),
            'the end of the alias chain is reached by following .definition through every Typedef, and only through Typedefs; got: %s'
            % P.sem_body(f), ws(unparse(f.node))[:300])


def dynamic_predicates(ctx, L):
    """(e) the three 'is this member a dynamic field' predicates of model.py agree on every non-last member."""
    m = ctx.py.mod('prophyc.model')
    props = predabs.model_props(ctx.py)
    pp = m.func('evaluate_sizes.evaluate_partial_padding_size')
    lambdas = [n for n in ast.walk(pp.node) if isinstance(n, ast.Lambda)]
    if len(lambdas) != 1:
        raise AnalysisError('evaluate_partial_padding_size: splitter lambda not found')
    lam = lambdas[0]
    part = m.func('partition')
    pifs = [n for n in part.walk() if isinstance(n, ast.If) and 'kind' in unparse(n.test)]
    if len(pifs) != 1:
        raise AnalysisError('partition: splitter test not found')
    # the struct-size pass asks "is this member a dynamic field" through a (nested, folded-in) helper: its body is what the
    # `any(... for m in node_.members)` of the end-padding decision evaluates per member
    ssf = m.func('evaluate_sizes.evaluate_struct_size')
    anys = [c for c in ssf.walk() if isinstance(c, ast.Call) and unparse(c.func) == 'any' and len(c.args) == 1
            and isinstance(c.args[0], ast.GeneratorExp) and len(c.args[0].generators) == 1
            and unparse(c.args[0].generators[0].iter) == '%s.members' % ssf.params[0] and isinstance(c.args[0].generators[0].target, ast.Name)]
    if len(anys) != 1:
        raise AnalysisError('evaluate_struct_size: the `any(<is dynamic>(m) for m in node_.members)` decision was not found')
    preds = {'evaluate_partial_padding_size': (lam.body, lam.args.args[0].arg),
             'partition': (pifs[0].test, [n.id for n in ast.walk(pifs[0].test) if isinstance(n, ast.Name) and n.id not in ('Kind', 'model')][0]),
             'is_member_dynamic': (anys[0].args[0].elt, anys[0].args[0].generators[0].target.id)}
    dom = [a for a in predabs.domain() if a.padding == 0]
    n = 0
    for a in dom:
        want = a.form in ('dynamic', 'greedy') or a.kind != FIXED      # documented: blocks end with dynamic fields
        for name, (expr, var) in sorted(preds.items()):
            if a.last and name != 'is_member_dynamic':
                continue        # the splitters never see the last member; is_member_dynamic also decides the end padding form
            try:
                got = bool(predabs.Evaluator(props, var).ev(expr, a))
            except predabs.Unknown as e:
                raise AnalysisError('%s: predicate term not recognised: %s' % (name, e))
            n += 1
            L.check(got == want, 'E6.dynamic-field-predicate', '%s|%s' % (name, a.label()), m.rel + ' (%s)' % name,
                    '`%s` says %s for a%s `%s` member; the documented rule ("blocks end with dynamic fields") and the '
                    'sibling predicates say %s' % (ws(unparse(expr)), got, ' last' if a.last else ' non-last', a.label(), want), ws(unparse(expr)))
    L.floor('E6.dynamic-field-predicate', n, 60)
    src = ws(unparse(part.node))
    for piece, why in (('for member in members[:-1]:', 'only non-last members can close a part'),
                       ('current.append(member)', 'members go to the current part in order'),
                       ('current = [] parts.append(current)', 'a dynamic field closes the part and opens a new one'),
                       ('if members: current.append(members[-1])', 'the last member stays in the last open part'),
                       ('return (main, parts)', 'returns main block and parts')):
        L.check(piece in src, 'E6.dynamic-field-predicate', 'partition|' + piece, part.site(), why, '')
    sa = m.func('split_after')
    L.check(ws(unparse(sa.node)).endswith("part = [] for x in nodes: part.append(x) if predicate(x): yield part part = [] if part: yield part"),
            'E6.dynamic-field-predicate', 'split_after', sa.site(), 'parts end right after each member satisfying the predicate', '')


REF_STRUCT_SIZE = """
    def is_member_dynamic(m):
        return m.is_dynamic or m.greedy or m.kind != Kind.FIXED

    alignment = node_.members and max(x.alignment for x in node_.members) or 1
    byte_size = 0
    prev_member = node_.members and node_.members[0] or None
    for member in node_.members:
        padding = (member.alignment - byte_size % member.alignment) % member.alignment
        byte_size += member.byte_size + padding
        if is_member_dynamic(prev_member) and (prev_member.alignment < member.alignment):
            prev_member.padding = -member.alignment
        else:
            prev_member.padding = padding
        prev_member = member
    if node_.members:
        padding = (alignment - byte_size % alignment) % alignment
        byte_size += padding
        if any(is_member_dynamic(m) for m in node_.members):
            last = node_.members[-1]
            prev_member.padding = (last.alignment < alignment or last.byte_size % alignment) and (-alignment) or 0
        else:
            prev_member.padding = padding
    node_.byte_size, node_.alignment = byte_size, alignment
"""


def anys_of(f):
    return [c for c in f.walk() if isinstance(c, ast.Call) and unparse(c.func) == 'any' and len(c.args) == 1
            and isinstance(c.args[0], ast.GeneratorExp)]


def size_formulas(ctx, L):
    """(d)(h) the model's size rules depend on the documented inputs through the documented aggregators."""
    definitions_follow_type_names(ctx, L)
    reevaluation(ctx, L)
    m = ctx.py.mod('prophyc.model')
    G = module_globals(m)
    ao = m.func('evaluate_sizes.evaluate_array_and_optional_size')
    src = ws(unparse(ao.node))
    L.check(contains(src, 'if member.is_array and member.byte_size is not None: member.byte_size = member.numeric_size and member.byte_size * member.numeric_size or 0', G),
            'F16.model-formula', 'array-size', ao.site(), 'array slot = element size x numeric size (0 for dynamic/greedy)', src)
    L.check(contains(src, 'if member.optional:\n    member.alignment = max(DISC_SIZE, member.alignment)\n    member.byte_size = member.byte_size + member.alignment', G)
            or contains(src, 'if member.optional:\n    member.alignment = max(member.alignment, DISC_SIZE)\n    member.byte_size = member.byte_size + member.alignment', G),
            'F16.model-formula', 'optional-size', ao.site(),
            'optional slot: alignment = max(DISC_SIZE, value alignment), size = value size + that alignment (flag padded to it)', src)
    us = m.func('evaluate_sizes.evaluate_union_size')
    src = ws(unparse(us.node))
    for k, piece, why in (
            ('alignment', 'node_.alignment = max(DISC_SIZE, node_.members and max((x.alignment for x in node_.members)) or 1)',
             'union alignment = max(DISC_SIZE, max arm alignment)'),
            ('size', 'node_.byte_size = (node_.members and max((x.byte_size for x in node_.members)) or 0) + node_.alignment',
             'union size = largest arm + one alignment unit for the discriminator slot'),
            ('round-up', ('node_.byte_size = int((node_.byte_size + node_.alignment - 1) / node_.alignment) * node_.alignment',
                          'node_.byte_size = (node_.byte_size + node_.alignment - 1) // node_.alignment * node_.alignment',
                          'node_.byte_size += (node_.alignment - node_.byte_size % node_.alignment) % node_.alignment'),
             'union size rounded up to its alignment (recognised round-up idioms with consistent operands)')):
        alts = piece if isinstance(piece, tuple) else (piece,)
        L.check(any(contains(src, a, G) for a in alts), 'F16.model-formula', 'union-' + k, us.site(), why + ' (expected `%s`)' % alts[0], src)
    ss = m.func('evaluate_sizes.evaluate_struct_size')
    src = ws(unparse(ss.node))
    from . import shared_py as P
    whole = P.body_is(ss, REF_STRUCT_SIZE, params=['node_'])
    L.check(True, 'F16.model-formula', 'struct-size|compared-with-reference', ss.site(), 'whole body equals the reference: %s' % whole, '')
    for k, piece, why in (
            ('alignment', ('alignment = node_.members and max((x.alignment for x in node_.members)) or 1',
                           'alignment = max((x.alignment for x in node_.members)) if node_.members else 1',
                           'alignment = max([x.alignment for x in node_.members] + [1])',
                           'alignment = max((x.alignment for x in node_.members), default=1)'), 'struct alignment = max member alignment'),
            ('pad', 'padding = (member.alignment - byte_size % member.alignment) % member.alignment',
             'padding before a member = distance of the running size to the member alignment'),
            ('acc', 'byte_size += member.byte_size + padding', 'running size adds padding and member size'),
            ('marker', 'if (prev_member.is_dynamic or prev_member.greedy or prev_member.kind != Kind.FIXED) and prev_member.alignment < member.alignment:\n    prev_member.padding = -member.alignment\nelse:\n    prev_member.padding = padding',
             'after a dynamic member of smaller alignment the padding is the marker -alignment, otherwise the static padding goes to the previous member'),
            ('end-pad', 'padding = (alignment - byte_size % alignment) % alignment\nbyte_size += padding', 'end padding up to the struct alignment'),
            ('result', 'node_.byte_size, node_.alignment = (byte_size, alignment)', 'publishes size and alignment')):
        alts = piece if isinstance(piece, tuple) else (piece,)
        L.check(whole or any(contains(src, a, G) for a in alts), 'F16.model-formula', 'struct-' + k, ss.site(), why + ' (expected `%s`)' % alts[0], '')
    # end padding of a dynamic struct must depend on the last member's size, not only on alignments
    endm = [n for n in ss.walk() if isinstance(n, ast.If) and any(c is x for c in anys_of(ss) for x in ast.walk(n.test))]
    endm = [n for n in endm if not any(n is not o and any(x is n for x in ast.walk(o)) and o in endm for o in endm)] or endm
    if len(endm) != 1:
        raise AnalysisError('evaluate_struct_size: end-padding branch of dynamic structs not found')
    dyn_branch = endm[0].body if not (isinstance(endm[0].test, ast.UnaryOp)) else endm[0].orelse
    wrap = ast.Module(body=dyn_branch, type_ignores=[])
    vals = [b.value for b in ast.walk(wrap) if isinstance(b, ast.Assign)
            and isinstance(b.targets[0], ast.Attribute) and b.targets[0].attr == 'padding']
    # what the marker depends on: the stored value(s) and the tests that select between them (a conditional expression and the
    # if statement it is in normal form are the same thing)
    sel = [n.test for n in ast.walk(wrap) if isinstance(n, (ast.If, ast.IfExp))]
    deps = set()
    for e in vals + sel:
        deps |= set(n.attr for n in ast.walk(e) if isinstance(n, ast.Attribute)) | set(n.id for n in ast.walk(e) if isinstance(n, ast.Name))
    val = vals[0] if vals else None
    L.check(bool(vals) and ('byte_size' in deps or all(ws(unparse(v)) == '-alignment' for v in vals)), 'F16.end-padding-depends-on-size',
            'evaluate_struct_size|dynamic-end-padding', ss.site(endm[0]),
            'the end padding marker of a dynamic struct is computed from alignments only (`%s`): a last member whose size is not a '
            'multiple of its alignment (an optional: flag 4 + value 1) leaves the struct end unaligned - {u8 x<>; u8* o}: the C++ '
            'codec emits 13 bytes where the documented layout has 16' % ws(unparse(val)), ws(unparse(endm[0])))
    pp = m.func('evaluate_sizes.evaluate_partial_padding_size')
    src = ws(unparse(pp.node))
    L.check(contains(src, 'for part in [x for x in parts][1:]:\n    part[0].alignment = max(part[0].alignment, max((x.alignment for x in part)))', G)
            or contains(src, 'for part in list(parts)[1:]:\n    part[0].alignment = max(part[0].alignment, max((x.alignment for x in part)))', G),
            'F16.model-formula', 'block-alignment', pp.site(),
            'the first member of every block after a dynamic field is aligned to the maximum alignment in that block', src)
    ns = m.func('evaluate_sizes.evaluate_node_size')
    src = ws(unparse(ns.node))
    for k, piece in (('typedef-chain', 'while isinstance(node_, Typedef) and node_.definition:\n    node_ = node_.definition'),
                     ('composite', 'if isinstance(node_, (Struct, Union)):\n    return (node_.byte_size, node_.alignment)'),
                     ('enum', 'if isinstance(node_, Enum):\n    return (ENUM_SIZE, ENUM_SIZE)'),
                     ('builtin', 'if node_.type_name in BUILTIN_SIZES:\n    byte_size = BUILTIN_SIZES[node_.type_name]\n    return (byte_size, byte_size)')):
        L.check(contains(src, piece, G), 'F16.model-formula', 'node-size-' + k, ns.site(), 'size/alignment of a referenced type (`%s`)' % piece, '')
    ms = m.func('evaluate_sizes.evaluate_member_size')
    src = ws(unparse(ms.node))
    L.check(contains(src, 'if member.type_name in BUILTIN_SIZES:\n    byte_size = BUILTIN_SIZES[member.type_name]\n    size_alignment = (byte_size, byte_size)', G)
            and contains(src, 'if member.definition:\n    size_alignment = evaluate_node_size(node_=member.definition, parent=node_, member=member)', G)
            and contains(src, 'member.byte_size, member.alignment = size_alignment', G), 'F16.model-formula', 'member-size', ms.site(),
            'a member takes the size/alignment of its definition or of its builtin type', '')
    # order of the passes
    es = m.func('evaluate_sizes')
    loop = [st for st in es.node.body if isinstance(st, ast.For)]
    if len(loop) != 1:
        raise AnalysisError('evaluate_sizes: node loop not found')

    def ordered_calls(stmts):
        out = []
        for st in stmts:
            for n in sorted((n for n in ast.walk(st) if isinstance(n, ast.Call) and isinstance(n.func, ast.Name)),
                            key=lambda n: (n.lineno, n.col_offset)):
                out.append(n.func.id)
        return out

    def branch(cls):
        for n in ast.walk(loop[0]):
            if isinstance(n, ast.If) and ws(unparse(n.test)) == 'isinstance(%s, %s)' % (unparse(loop[0].target), cls):
                return n
        raise AnalysisError('evaluate_sizes: branch for %s not found' % cls)
    sb = branch('Struct')
    guarded = [n for n in sb.body if isinstance(n, ast.If) and 'evaluate_members_sizes' in ordered_calls([ast.Expr(value=n.test)])]
    calls = [c for c in ordered_calls(guarded[0].body) if c.startswith('evaluate_')] if len(guarded) == 1 and len(sb.body) == 1 else None
    per_member = calls is not None and any(isinstance(n, (ast.For, ast.ListComp)) and 'evaluate_array_and_optional_size' in ordered_calls([n])
                                            and 'node.members' in ws(unparse(n)).replace(unparse(loop[0].target) + '.members', 'node.members')
                                            for st in guarded[0].body for n in ast.walk(st))
    L.check(calls == ['evaluate_array_and_optional_size', 'evaluate_partial_padding_size', 'evaluate_struct_size'] and per_member,
            'F16.pass-order', 'evaluate_sizes|struct', es.site(sb),
            'passes must run in this order, each only if every member has a size: member sizes, array/optional slot sizes (for every '
            'member), block alignment bump, struct size (the block bump must see slot alignments, the struct pass must see bumped '
            'alignments); found %s' % calls, ws(unparse(sb))[:300])
    ub = branch('Union')
    guarded = [n for n in ub.body if isinstance(n, ast.If) and 'evaluate_members_sizes' in ordered_calls([ast.Expr(value=n.test)])]
    calls = [c for c in ordered_calls(guarded[0].body) if c.startswith('evaluate_')] if len(guarded) == 1 and len(ub.body) == 1 else None
    L.check(calls == ['evaluate_union_size'], 'F16.pass-order', 'evaluate_sizes|union', es.site(ub), 'union size after member sizes', str(calls))
    em = m.func('evaluate_model')
    seq = [c for c in ordered_calls(em.node.body) if m.has_func(c)]
    L.check(seq == ['topological_sort', 'cross_reference', 'evaluate_stiffness_kinds', 'evaluate_sizes'], 'F16.pass-order', 'evaluate_model',
            em.site(), 'sort, cross-reference, kinds, sizes - in this order', str(seq))


def definitions_follow_type_names(ctx, L):
    """cross_reference re-binds every member's / typedef's `definition` from its *current* `type_name` (the patch step may have
    re-typed a member after the front-end bound it): every way out of cross_reference_types has assigned `.definition`, the
    assigned value comes from the builtin table / the types index, and no decision of the function reads the old definition."""
    m = ctx.py.mod('prophyc.model')
    f = m.func('cross_reference.cross_reference_types')
    p = f.params[0]
    reads_old = [n for n in f.walk() if isinstance(n, ast.Attribute) and n.attr == 'definition' and isinstance(n.ctx, ast.Load)
                 and unparse(n.value) == p]
    L.check(not reads_old, 'E6.definition-rebound', 'cross_reference_types|reads-old-definition', f.site(reads_old[0] if reads_old else None),
            'the cross-reference step consults the definition a member already carries: after a `type` patch (or any re-typing between '
            'parsing and evaluation) the member keeps the definition of its old type - layout and kind are computed from a type the '
            'generators no longer emit', ws(unparse(m.parent(reads_old[0]))) if reads_old else '')

    def assigns(st):
        return isinstance(st, ast.Assign) and any(isinstance(t, ast.Attribute) and t.attr == 'definition' and unparse(t.value) == p
                                                  for t in st.targets)

    def exits_ok(block, assigned):
        """every path through the block that leaves the function has assigned .definition; returns (ok, assigned at fall-through)"""
        for st in block:
            if assigns(st):
                assigned = True
            elif isinstance(st, ast.Return):
                return assigned, None
            elif isinstance(st, ast.Raise):
                return True, None
            elif isinstance(st, ast.If):
                ok1, a1 = exits_ok(st.body, assigned)
                ok2, a2 = exits_ok(st.orelse, assigned)
                if not (ok1 and ok2):
                    return False, None
                if a1 is None and a2 is None:
                    return True, None
                assigned = all(a for a in (a1, a2) if a is not None)
            elif isinstance(st, (ast.For, ast.While, ast.With, ast.Try)):
                ok1, a1 = exits_ok(getattr(st, 'body', []), assigned)
                if not ok1:
                    return False, None
        return True, assigned
    ok, at_end = exits_ok(f.node.body, False)
    L.check(ok and at_end is not False, 'E6.definition-rebound', 'cross_reference_types|every-exit-assigns', f.site(),
            'every way out of cross_reference_types must have (re)assigned the definition from the current type name', ws(unparse(f.node))[:300])
    vals = [ws(unparse(a.value)) for a in f.walk() if assigns(a)]
    srcs_ok = bool(vals) and all(v == 'None' or re.match(r'^types_index\.get\(%s\.type_name\)$' % re.escape(p), v) or
                                 re.match(r'^types_index\[%s\.type_name\]$' % re.escape(p), v) for v in vals)
    L.check(srcs_ok, 'E6.definition-rebound', 'cross_reference_types|source', f.site(),
            'the definition comes from the types index looked up by the current type name (None for builtins): %s' % vals, str(vals))
    cr = m.func('cross_reference')
    calls = [c for c in cr.walk() if (isinstance(c, ast.Call) and unparse(c.func) == 'cross_reference_types') or
             (isinstance(c, ast.Call) and unparse(c.func) == 'map' and c.args and unparse(c.args[0]) == 'cross_reference_types')]
    L.check(len(calls) >= 3, 'E6.definition-rebound', 'cross_reference|applied-to-all', cr.site(),
            'typedefs, struct members and union members are all cross-referenced (found %d applications)' % len(calls), '')


def reevaluation(ctx, L):
    """The definitions of an included file are shared by every includer and `evaluate_sizes` walks them again for each one
    (Include.members recursion). The slot-size and block-alignment steps rewrite a member's byte_size / alignment in terms of
    their previous value, so a second walk is only harmless if every walk first resets both from the member's type: every
    path through evaluate_member_size that reports success must have assigned both attributes from values that do not depend
    on them."""
    m = ctx.py.mod('prophyc.model')
    es = m.func('evaluate_sizes')
    recurses = any(isinstance(n, ast.Call) and unparse(n.func) == 'evaluate_sizes' for n in es.walk())
    selfupd = set()
    for q in ('evaluate_sizes.evaluate_array_and_optional_size', 'evaluate_sizes.evaluate_partial_padding_size'):
        g = m.func(q)
        for a in g.walk():
            if isinstance(a, (ast.Assign, ast.AugAssign)):
                tg = a.targets[0] if isinstance(a, ast.Assign) else a.target
                if isinstance(tg, ast.Attribute) and (isinstance(a, ast.AugAssign) or any(
                        isinstance(x, ast.Attribute) and x.attr == tg.attr for x in ast.walk(a.value))):
                    selfupd.add(tg.attr)
    L.check(recurses and selfupd == {'byte_size', 'alignment'}, 'C16e.reevaluation-reset', 'evaluate_sizes|self-updates', es.site(),
            'inventory: evaluate_sizes re-walks Include.members and the slot/block steps rewrite byte_size and alignment from their '
            'previous values (found: recursion %s, self-updated attributes %s)' % (recurses, sorted(selfupd)), '')
    f = m.func('evaluate_sizes.evaluate_member_size')
    mem = f.params[1]

    def resets(stmts, upto, need):
        """attributes of `mem` assigned afresh by the statements preceding `upto` in this block"""
        got = set()
        for st in stmts:
            if st is upto:
                break
            if isinstance(st, ast.Assign):
                tgs = []
                for t in st.targets:
                    tgs += list(t.elts) if isinstance(t, ast.Tuple) else [t]
                dep = any(isinstance(x, ast.Attribute) and x.attr in need and unparse(x.value) == mem for x in ast.walk(st.value))
                for t in tgs:
                    if isinstance(t, ast.Attribute) and unparse(t.value) == mem and t.attr in need and not dep:
                        got.add(t.attr)
        return got

    n = 0
    for r in [x for x in f.walk() if isinstance(x, ast.Return)]:
        if isinstance(r.value, ast.Constant) and not r.value.value:
            continue
        n += 1
        got = set()
        node = r
        while node is not f.node:
            par = m.parent(node)
            for field in ('body', 'orelse', 'finalbody'):
                blk = getattr(par, field, None)
                if isinstance(blk, list) and node in blk:
                    got |= resets(blk, node, selfupd)
            node = par
        L.check(selfupd <= got, 'C16e.reevaluation-reset', 'evaluate_member_size|%s' % norm_key(f, r), f.site(r),
                'evaluate_member_size reports success on a path that has not reset %s of the member: when the file is walked again '
                'for another includer, the array/optional slot step multiplies the already multiplied size (sizes of included structs '
                'grow with every inclusion and differ from the single-file compilation)' % sorted(selfupd - got), ws(unparse(r)))
    L.floor('C16e.reevaluation-reset', n, 1)
