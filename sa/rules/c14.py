"""C14 - constant expressions denote one integer, the same in every back-end (structural clauses)."""
import ast
import re

from ..core import AnalysisError
from .shared_py import inn
from . import shared_py as P
from ..pyfront import unparse, try_const, norm_key

INT_CLOSED = {'Add': '+', 'Sub': '-', 'Mult': '*', 'FloorDiv': '//', 'LShift': '<<', 'RShift': '>>', 'BitOr': '|', 'BitAnd': '&'}


from ..pyfront import ws  # noqa: E402,F401  (whitespace-collapsed, rename/normal-form tolerant `in`)


def run(ctx, L, tier):
    ladders(ctx, L)
    precedence(ctx, L)
    lexers(ctx, L)
    raw_expressions(ctx, L)
    to_literal(ctx, L)
    name_tables(ctx, L)
    evaluator_state(ctx, L)
    from . import c20
    c20.shared_state(ctx, L)        # no state that survives from one compiled file / call to the next (module, class, closure, default argument)
    from . import c16
    c16.cache_and_cycle(ctx, L)      # which file an include names decides which constants an expression sees
    c16.dir_stack(ctx, L)
    return sorted(set(o.rule for o in L.obligations))


def operator_ladder(f, res, a, b, op):
    """{token: ast operator class name} from `if p[2] == '+': p[0] = p[1] + p[3] elif ...`."""
    out = {}
    for n in f.walk():
        if isinstance(n, ast.If) and isinstance(n.test, ast.Compare) and ws(unparse(n.test.left)) == op \
                and isinstance(n.test.comparators[0], ast.Constant):
            tok = n.test.comparators[0].value
            assigns = [s for s in n.body if isinstance(s, ast.Assign) and ws(unparse(s.targets[0])) == res]
            if len(assigns) != 1:
                raise AnalysisError('%s: branch for %r does not assign the result once' % (f.fq, tok))
            v = assigns[0].value
            if not isinstance(v, ast.BinOp):
                out[tok] = 'not one integer operator on the two operands: ' + ws(unparse(v))
                continue
            if ws(unparse(v.left)) != a or ws(unparse(v.right)) != b:
                out[tok] = 'operands swapped or foreign: ' + ws(unparse(v))
            else:
                out[tok] = type(v.op).__name__
    return out


def ladders(ctx, L):
    pp = ctx.py.mod('prophyc.parsers.prophy')
    calc = ctx.py.mod('prophyc.calc')
    f1 = pp.func('Parser.p_expression_binop')
    f2 = calc.func('Calc._apply_binop') if calc.has_func('Calc._apply_binop') else calc.func('Calc.p_expression_binop')
    l1 = operator_ladder(f1, 't[0]', 't[1]', 't[3]', 't[2]')
    l2 = operator_ladder(f2, 'p[0]', 'p[1]', 'p[3]', 'p[2]')
    want = {'+': 'Add', '-': 'Sub', '*': 'Mult', '/': 'FloorDiv', '<<': 'LShift', '>>': 'RShift'}
    for tok, opn in sorted(want.items()):
        for name, lad, f in (('prophy grammar', l1, f1), ('calc', l2, f2)):
            got = lad.get(tok)
            L.check(got == opn, 'C14a.operator-ladder', '%s|%s' % (name, tok), f.site(),
                    'the %s evaluator applies %s for the token %r, the expression language means %s%s' % (
                        name, got, tok, opn, ' (true division would produce a float: not an integer, and int(str(float)) crashes)'
                        if tok == '/' else ''), str(got))
    L.check(l2.get('|') == 'BitOr', 'C14a.operator-ladder', 'calc||', f2.site(), 'calc must apply bit-or for `|` (isar bitMaskOr)', str(l2.get('|')))
    # grammar productions list exactly the operators of the ladder
    for f, lad, name in ((f1, l1, 'prophy'), (calc.func('Calc.p_expression_binop'), l2, 'calc')):
        doc = ast.get_docstring(f.node) or ''
        toks = set(re.findall(r"expression\s+(?:'(.)'|(LSHIFT|RSHIFT))\s+expression", doc))
        toks = set(a or {'LSHIFT': '<<', 'RSHIFT': '>>'}[b] for a, b in toks)
        L.check(toks == set(lad), 'C14a.operator-ladder', name + '|productions', f.site(),
                'every binary production must have an action branch and vice versa: productions %s, branches %s' % (sorted(toks), sorted(lad)), '')
    # integer closure of every operator applied by either evaluator (c)
    for f in (f1, f2, pp.func('Parser.p_expression_uminus'), calc.func('Calc.p_expression_uminus')):
        for n in f.walk():
            if isinstance(n, ast.BinOp) and not (isinstance(n.left, ast.Constant) and isinstance(n.left.value, str)):
                opn = type(n.op).__name__
                L.check(opn in INT_CLOSED, 'C14c.integer-closure', '%s|%s' % (f.fq, norm_key(f, n)), f.site(n),
                        'operator %s does not map integers to integers' % opn, unparse(n))
    # isar operator table -> calc branches
    isar = ctx.py.mod('prophyc.parsers.isar')
    ok, ops = try_const(isar.assign_value('operators'))
    L.check(ok and tuple(ops) == (('shiftLeft(', '<<'), ('bitMaskOr(', '|')), 'C14a.operator-ladder', 'isar.operators', isar.rel,
            'isar function-style operators must map shiftLeft -> << and bitMaskOr -> |', str(ops))
    eo = isar.func('expand_operators')
    loops = [lp for lp in eo.walk() if isinstance(lp, ast.For) and ws(unparse(lp.iter)) == 'operators']
    sym = None
    if len(loops) == 1:
        tg = loops[0].target
        # the table rows are (call prefix, infix symbol): read by index or unpacked in the loop header
        sym = '%s[1]' % tg.id if isinstance(tg, ast.Name) else tg.elts[1].id if isinstance(tg, ast.Tuple) and len(tg.elts) == 2 \
            and isinstance(tg.elts[1], ast.Name) else None
    L.check(sym is not None and ("string_ = string_[:open_pos] + '(({}) {} ({}))'.format(arg1, %s, arg2) + string_[close_pos:]" % sym) in ws(unparse(eo.node)),
            'C14a.operator-ladder', 'isar.expand_operators', eo.site(),
            'operator calls are rewritten to fully parenthesised infix: ((a) op (b))', ws(unparse(eo.node))[:300])


def precedence(ctx, L):
    pp = ctx.py.mod('prophyc.parsers.prophy')
    calc = ctx.py.mod('prophyc.calc')
    ok1, p1 = try_const(pp.assign_value('precedence', 'Parser'))
    ok2, p2 = try_const(calc.assign_value('precedence', 'Calc'))
    if not (ok1 and ok2):
        raise AnalysisError('precedence tables are not literal tuples')
    want = (('left', '+', '-'), ('left', '*', '/'), ('left', 'LSHIFT', 'RSHIFT'), ('right', 'UMINUS'))
    L.check(tuple(p1) == tuple(p2), 'C14b.precedence', 'prophy~calc', pp.rel,
            'the two evaluators disagree on precedence/associativity: prophy %s, calc %s' % (p1, p2), str(p1))
    for name, p, mod in (('prophy', p1, pp), ('calc', p2, calc)):
        L.check(tuple(p) == want, 'C14b.precedence', name, mod.rel,
                'precedence must be (low to high) + -, * /, << >>, unary minus (the meaning both the parse-time and the model-time '
                'evaluator have given to every constant already written; changing one table changes values silently): %s' % (p,), str(p))
    for mod, q in ((pp, 'Parser.p_expression_uminus'), (calc, 'Calc.p_expression_uminus')):
        f = mod.func(q)
        L.check('%prec UMINUS' in (ast.get_docstring(f.node) or ''), 'C14b.precedence', q, f.site(), 'unary minus binds tightest', '')


def lexers(ctx, L):
    pp = ctx.py.mod('prophyc.parsers.prophy')
    calc = ctx.py.mod('prophyc.calc')
    for q, rx, conv in (('Parser.t_CONST16', '0x[0-9a-fA-F]+', 't.value = int(t.value, 16)'), ('Parser.t_CONST8', '0[0-7]+', 't.value = int(t.value, 8)'),
                        ('Parser.t_CONST10', '(([1-9]\\d*)|0)', 't.value = int(t.value)')):
        f = pp.func(q)
        L.check((ast.get_docstring(f.node, clean=False) or '').strip() == rx and ws(unparse(f.node.body[1])) == conv, 'C14d.literals', q, f.site(),
                'literal token %s must be `%s` converted with `%s`' % (q, rx, conv), ws(unparse(f.node)))
    for q, rx, conv in (('Calc.t_CONST16', '0x[0-9a-fA-F]+', 't.value = int(t.value, 16)'), ('Calc.t_CONST10', '\\d+', 't.value = int(t.value)')):
        f = calc.func(q)
        L.check((ast.get_docstring(f.node, clean=False) or '').strip() == rx and ws(unparse(f.node.body[1])) == conv, 'C14d.literals', 'calc.' + q, f.site(),
                'literal token %s must be `%s` converted with `%s`' % (q, rx, conv), ws(unparse(f.node)))
    # hex before decimal in both (otherwise 0x10 lexes as 0, x10): function order in the class body
    for mod, cls, first, second in ((pp, 'Parser', 't_CONST16', 't_CONST10'), (calc, 'Calc', 't_CONST16', 't_CONST10')):
        order = [s.name for s in mod.cls(cls).body if isinstance(s, ast.FunctionDef) and s.name.startswith('t_CONST')]
        L.check(order.index(first) < order.index(second), 'C14d.literals', cls + '|hex-before-decimal', mod.rel,
                'ply tries function tokens in definition order: the hex literal must come before the decimal one', str(order))


def raw_expressions(ctx, L):
    """(e) values the generators emit verbatim must be str(<evaluated int>) - never the raw expression text, because
    Python / C++ read `1 << 2 * 3` with a different precedence than the schema language."""
    pp = ctx.py.mod('prophyc.parsers.prophy')
    for q, piece, what in (('Parser.p_constant_def', 'node = model.Constant(t[2], str(t[4]))', 'constant value'),
                           ('Parser.p_enum_member', 'member = model.EnumMember(t[1], str(t[3]))', 'enumerator value'),
                           ('Parser.p_struct_member_2', 'size=str(t[4])', 'array size'), ('Parser.p_struct_member_5', 'size=str(t[4])', 'limited array size'),
                           ('Parser.p_union_member', 'model.UnionMember(t[4], t[3][0], str(t[1]), definition=t[3][1])', 'discriminator')):
        f = pp.func(q)
        L.check(piece in ws(unparse(f.node)), 'C14e.no-raw-expression', 'prophy|' + what, f.site(),
                'the prophy front-end must store the %s as str(<evaluated integer>)' % what, ws(unparse(f.node))[-200:])
    isar = ctx.py.mod('prophyc.parsers.isar')
    for q, what, pat in (('make_constant', 'constant value', r'model\.Constant\(\s*xml_elem\.get\(.name.\), (.+?), docstring'),
                         ('make_enum', 'enumerator value', r'model\.EnumMember\(member\.get\(.name.\), (.+?), docstring'),
                         ('make_struct_members', 'array size', r'size=(size_?)\b'),
                         ('make_union', 'discriminator', r"member\.get\('type'\), (member\.get\('discriminatorValue'\))")):
        f = isar.func(q)
        src = ws(unparse(f.node))
        m = re.search(pat, src)
        if not m:
            raise AnalysisError('isar.%s: constructor of the %s not recognised' % (q, what))
        val = m.group(1)
        evaluated = re.search(r'\bstr\(|calc\.eval|to_int\(|eval_int', val) is not None
        L.check(evaluated, 'C14e.no-raw-expression', 'isar|' + what, f.site(),
                'the isar front-end stores the raw expression text `%s` as the %s and the generators emit it verbatim: Python and '
                'C++ then read it with *their* precedence (`1 << 2 * 3`: model 12, generated Python and C++ 64)' % (val, what), val)
    # the generators emit those attributes verbatim (the sink side of the taint)
    py = ctx.py.mod('prophyc.generators.python')
    for q, piece in (('_PythonTranslator.translate_constant', "content = '%s = %s' % (constant.name, constant.value)"),
                     ('_form_enum_member', "return \"('%s', %s)\" % (member.name, member.value)")):
        f = py.func(q)
        L.check(piece in re.sub(r"\bu(['\"])", r'\1', ws(unparse(f.node))), 'C14e.no-raw-expression', 'python sink|' + q, f.site(),
                'sink inventory: the Python generator emits the value text verbatim', '')


def to_literal(ctx, L):
    for modname in ('prophyc.generators.cpp', 'prophyc.generators.cpp_full'):
        f = ctx.py.mod(modname).func('_to_literal')
        from . import shared_py as P
        L.check(P.body_is(f, '''
                    try:
                        return '{}{}'.format(value, int(value, 0) > 0 and 'u' or '')
                    except ValueError:
                        return value
                ''', '''
                    try:
                        return '{}{}'.format(value, 'u' if int(value, 0) > 0 else '')
                    except ValueError:
                        return value
                ''', params=['value']),
                'C14f.to-literal', modname.split('.')[-1] + '._to_literal', f.site(),
                'the unsigned suffix is appended only to positive integer literals; anything else is passed through unchanged', ws(unparse(f.node)))


def name_tables(ctx, L):
    pp = ctx.py.mod('prophyc.parsers.prophy')
    f = pp.func('Parser.p_include_def')
    s = ws(unparse(f.node))
    from . import c16 as _c16
    from ..core import Ledger as _Ledger
    _c16.symbol_propagation(ctx, _Ledger('C16'))        # (scratch ledger: only the verdict on the constant tables is taken over)
    L.check(_c16.include_scope_ok.get('constants', False), 'C14g.name-tables',
            'p_include_def', f.site(), 'constants AND enumerators of an included file enter the expression scope', s[-400:])
    n = pp.func('Parser.p_expression_name')
    s = ws(unparse(n.node))
    L.check(inn('const = self.constdecls.get(t[1])', s) and inn('t[0] = const and int(const.value) or 0', s) and inn("\"constant '{}' was not declared\".format(t[1])", s),
            'C14g.name-tables', 'p_expression_name', n.site(), 'names resolve through constdecls (undeclared names are errors)', s)
    for q in ('Parser.p_constant_def', 'Parser.p_enum_member'):
        g = pp.func(q)
        L.check('self.constdecls[' in ws(unparse(g.node)), 'C14g.name-tables', q, g.site(), 'definitions enter the expression scope', '')
    model = ctx.py.mod('prophyc.model')
    cc = model.func('_collect_constants')
    s = ws(unparse(cc.node))
    L.check(inn('constants.update(_collect_constants(node_.members, constants))', s) and inn('constants[node_.name] = node_.eval_int(constants)', s)
            and inn('for member in node_.members: constants[member.name] = member.eval_int(constants)', s), 'C14g.name-tables',
            '_collect_constants', cc.site(), 'the model-time table holds constants and enumerators, including those of includes', s[:400])
    ei = model.func('Constant.eval_int')
    s = ws(unparse(ei.node))
    L.check(P.body_is(ei, """
        try:
            return int(self.value)
        except ValueError:
            try:
                return calc.eval(self.value, all_constants)
            except calc.ParseError:
                return None
        """), 'C14g.name-tables', 'Constant.eval_int', ei.site(), 'a constant is its literal integer or the calc evaluation under the table', s)
    ti = model.func('to_int')
    s = ws(unparse(ti.node))
    L.check(P.body_is(ti, """
        try:
            return int(x)
        except ValueError:
            val = constants.get(x)
            return val if val is not None else calc.eval(x, constants)
        """),
            'C14g.name-tables', 'to_int', ti.site(), 'array sizes evaluate through the same table and evaluator', s)
    pn = ctx.py.mod('prophyc.calc').func('Calc.p_expression_name')
    s = ws(unparse(pn.node))
    L.check(inn('while not isinstance(p[0], int): p[0] = self.vars[p[0]]', s) and inn('except LookupError: raise ParseError', s), 'C14g.name-tables',
            'calc.p_expression_name', pn.site(), 'names resolve through the table handed to eval (unknown names are errors)', s)


def evaluator_state(ctx, L):
    """The shared calc instance keeps no state between evaluations other than the variable table it is given."""
    calc = ctx.py.mod('prophyc.calc')
    ev = calc.func('Calc.eval')
    body = [ws(unparse(s)) for s in ev.node.body]
    L.check(body == ['self.vars = vars_', 'return self.parser.parse(expr, lexer=self.lexer)'], 'C14h.evaluator-stateless', 'Calc.eval', ev.site(),
            'every evaluation must install the caller\'s table and parse the expression anew (a result remembered by expression '
            'text alone would be returned for the same text under different constants of another file)', str(body))
    attrs = set()
    for f in calc.all_funcs():
        if f.cls == 'Calc':
            for n in f.walk():
                if isinstance(n, (ast.Assign, ast.AugAssign)):
                    for t in (n.targets if isinstance(n, ast.Assign) else [n.target]):
                        if isinstance(t, ast.Attribute) and unparse(t.value) == 'self':
                            attrs.add(t.attr)
                        if isinstance(t, ast.Subscript) and unparse(t.value).startswith('self.'):
                            attrs.add(unparse(t.value) + '[]')
    L.check(attrs == {'lexer', 'parser', 'vars'}, 'C14h.evaluator-stateless', 'Calc attributes', calc.rel,
            'the evaluator object may hold only lexer, parser and the current table: %s' % sorted(attrs), str(sorted(attrs)))
    mod_eval = calc.func('eval')
    L.check(ws(unparse(mod_eval.node.body[-1])) == 'return calc.eval(expr, vars_)', 'C14h.evaluator-stateless', 'calc.eval', mod_eval.site(),
            'module-level eval delegates to the shared instance', '')
