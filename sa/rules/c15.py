"""C15 - definition order does not matter: output is dependency-ordered and complete (structural clauses)."""
import ast
import re

from ..core import AnalysisError
from .shared_py import inn
from ..pyfront import path_conditions, unparse, try_const
from . import shared_gen as G
from . import c13_progress


from ..pyfront import ws  # noqa: E402,F401  (whitespace-collapsed, rename/normal-form tolerant `in`)


def run(ctx, L, tier):
    permutation(ctx, L)
    sort_protocol(ctx, L)
    dependencies(ctx, L)
    ordering(ctx, L)
    G.f4_tables(ctx, L)
    est = c13_progress.acyclicity_establishers(ctx, L)
    L.check(est['isar'], 'F12.acyclicity', 'prophyc.model:topological_sort|while model_sort_rotate()', 'prophyc/model.py (topological_sort)',
            'the rotation terminates only on acyclic dependency graphs and nothing establishes acyclicity before it', '')
    return sorted(set(o.rule for o in L.obligations))


def permutation(ctx, L):
    """(a) topological_sort changes `nodes` only by nodes.insert(i, nodes.pop(j)) pairs: the multiset is preserved."""
    f = ctx.py.mod('prophyc.model').func('topological_sort')
    n = 0
    for g in [f] + [h for h in ctx.py.mod('prophyc.model').all_funcs() if h.qualname.startswith('topological_sort.')]:
        for node in g.walk():
            mut = None
            if isinstance(node, ast.Call) and isinstance(node.func, ast.Attribute) and unparse(node.func.value) == 'nodes' and \
                    node.func.attr in ('insert', 'pop', 'append', 'remove', 'extend', 'sort', 'reverse', 'clear'):
                mut = node
            elif isinstance(node, (ast.Assign, ast.AugAssign, ast.Delete)):
                tg = node.targets if not isinstance(node, ast.AugAssign) else [node.target]
                if any(unparse(getattr(t, 'value', t)) == 'nodes' and isinstance(t, (ast.Subscript, ast.Name)) for t in tg):
                    mut = node
            if mut is None:
                continue
            n += 1
            src = ws(unparse(mut))
            if src.startswith('nodes.pop('):
                parent = g.module.parent(mut)
                ok = isinstance(parent, ast.Call) and ws(unparse(parent.func)) == 'nodes.insert' and parent.args[1] is mut
                L.check(ok, 'C15a.permutation', 'topological_sort|' + src, g.site(mut), 'a popped node must be re-inserted in the same statement', src)
            elif src.startswith('nodes.insert('):
                ok = len(mut.args) == 2 and ws(unparse(mut.args[1])).startswith('nodes.pop(')
                L.check(ok, 'C15a.permutation', 'topological_sort|' + src, g.site(mut), 'only popped nodes may be inserted (nothing added, nothing lost)', src)
            else:
                L.bad('C15a.permutation', 'topological_sort|' + src, g.site(mut), 'the node list is changed other than by insert(pop()) pairs: '
                      'definitions could be lost or duplicated', src)
    L.floor('C15a.permutation', n, 2)


def sort_protocol(ctx, L):
    m = ctx.py.mod('prophyc.model')
    f = m.func('topological_sort')
    s = ws(unparse(f.node))
    seeds = [n for n in f.walk() if isinstance(n, ast.Assign) and len(n.targets) == 1 and unparse(n.targets[0]) == 'known']
    okc, seedv = try_const(seeds[0].value) if len(seeds) == 1 else (False, None)
    L.check(okc and isinstance(seedv, set) and seedv == set(a + b for a in 'uir' for b in ('8', '16', '32', '64')), 'C15.sort-protocol', 'known-seed', f.site(),
            'initially only the builtin types are known: anything else a node depends on must first be placed in front of it (a name '
            'delivered by an include can be shadowed by a local definition that still has to be ordered)', '')
    muts = []
    for g in [f] + [h for h in m.all_funcs() if h.qualname.startswith('topological_sort.')]:
        for n_ in g.walk():
            if isinstance(n_, ast.Call) and isinstance(n_.func, ast.Attribute) and unparse(n_.func.value) in ('known', 'available') \
                    and n_.func.attr in ('add', 'update', 'discard', 'remove', 'clear', 'pop', 'difference_update', 'intersection_update'):
                muts.append(ws(unparse(n_)))
            if isinstance(n_, (ast.AugAssign,)) and unparse(n_.target) in ('known', 'available'):
                muts.append(ws(unparse(n_)))
    L.check(muts == ['known.add(node.name)'], 'C15.sort-protocol', 'known-mutations', f.site(),
            'a name may become known only when its own node is settled (`known.add(node.name)`); names added wholesale (e.g. everything '
            'an include delivers) are treated as already defined although a local definition of the same name may still sit behind '
            'its user: %s' % muts, str(muts))
    L.check(inn('available = set((node.name for node in nodes))', s), 'C15.sort-protocol', 'available', f.site(),
            'exactly the names defined in this list can be moved', '')
    L.check(inn('for index in range(len(nodes)): while model_sort_rotate(): pass', s), 'C15.sort-protocol', 'outer-loop', f.site(),
            'every position is settled in order', '')
    r = m.func('topological_sort.model_sort_rotate')
    rs = ws(unparse(r.node))
    L.check(inn('node = nodes[index] for dep in node.dependencies(): if dep not in known and dep in available: found_index = find_first_dep(dep, index + 1) '
            'if found_index: nodes.insert(index, nodes.pop(found_index)) return True known.add(node.name)', rs), 'C15.sort-protocol',
            'model_sort_rotate', r.site(), 'a node is settled (known) only when none of its available dependencies is still behind it; '
            'otherwise the first such dependency is moved in front of it', rs)
    fd = m.func('topological_sort.find_first_dep')
    from . import shared_py as P
    L.check(P.body_is(fd, '''
                for i, n in enumerate(islice(nodes, start_index, None), start_index):
                    if n.name == dependency:
                        return i
            ''', '''
                for i in range(start_index, len(nodes)):
                    if nodes[i].name == dependency:
                        return i
            ''', '''
                for i, n in enumerate(nodes[start_index:], start_index):
                    if n.name == dependency:
                        return i
            ''', params=['dependency', 'start_index']),
            'C15.sort-protocol', 'find_first_dep', fd.site(), 'dependencies are searched behind the current position, by name: the '
            'index of the first node at or after start_index whose name is the dependency (None if there is none)', P.sem_body(fd))


def dependencies(ctx, L):
    """(b) dependencies() of each node class covers the identifiers the generators emit for it."""
    m = ctx.py.mod('prophyc.model')
    c = m.func('Constant.dependencies')
    s = ws(unparse(c.node))
    # the separators: the one string of punctuation the value is split on (normal form: `for y in '<separators>': acc = acc.replace(y, ' ')`)
    alph = [n for n in c.walk() if isinstance(n, ast.Constant) and isinstance(n.value, str) and len(n.value) >= 3
            and not any(ch.isalnum() or ch.isspace() for ch in n.value)]
    iterated = [n for n in alph if any(isinstance(lp, ast.For) and lp.iter is n for lp in c.walk())]
    if len(iterated) == 1:
        alph = iterated
    if len(alph) != 1:
        raise AnalysisError('Constant.dependencies: separator alphabet not found')
    red = re.match(r'.*', repr(alph[0].value))
    seps = set(alph[0].value)
    repl = [n for n in c.walk() if isinstance(n, ast.Call) and isinstance(n.func, ast.Attribute) and n.func.attr == 'replace' and len(n.args) == 2
            and isinstance(n.args[1], ast.Constant) and n.args[1].value == ' ']
    L.check(len(repl) == 1 and any(isinstance(lp, ast.For) and lp.iter is alph[0] and any(x is repl[0] for x in ast.walk(lp)) and
                                   isinstance(lp.target, ast.Name) and unparse(repl[0].args[0]) == lp.target.id for lp in c.walk()),
            'C15b.separator-alphabet', 'Constant.dependencies|replaced', c.site(), 'every separator is replaced by a blank before the value is split',
            ws(unparse(c.node)))
    calc = ctx.py.mod('prophyc.calc')
    ok, lits = try_const(calc.assign_value('literals', 'Calc'))
    ops = set(''.join(lits)) | set('<>')        # LSHIFT / RSHIFT tokens
    L.check(ops <= seps, 'C15b.separator-alphabet', 'Constant.dependencies', c.site(),
            'Constant.dependencies splits the expression on `%s` only; calc also has the operators `%s`: in `C = A*B` the token `A*B` is '
            'one unknown symbol, C is not ordered after A and B and the generated Python module fails with NameError'
            % (''.join(sorted(seps)), ''.join(sorted(ops - seps))), red.group(0))
    body = [b for b in c.node.body if not isinstance(b, ast.FunctionDef)][-1:]
    L.check(len(body) == 1 and isinstance(body[0], ast.For) and isinstance(body[0].target, ast.Name) and
            ws(unparse(body[0].body)) == 'if not {0}.isdigit(): yield {0}'.format(body[0].target.id) and ws(unparse(body[0].iter)).endswith('.split()')
            and not any(isinstance(x, (ast.Return, ast.Yield, ast.YieldFrom)) for b in c.node.body[:-1] for x in ast.walk(b)
                        if not isinstance(b, ast.FunctionDef)),
            'C15b.dependency-complete', 'Constant.dependencies|every-symbol', c.site(),
            'every non-numeric symbol of the value must be yielded - unconditionally, also for a bare alias `A = B` (no shortcut for '
            'values without operators)', s)
    t = m.func('Typedef.dependencies')
    L.check(ws(unparse(t.node.body[-1])) == 'yield self.type_name', 'C15b.dependency-complete', 'Typedef.dependencies', t.site(),
            'a typedef / member depends on its type name', '')
    # a member class may refine dependencies() (sizes, discriminators) but must keep the dependency on its type for every member:
    # optional, array or plain alike (the generated Python references the type by name in all of them)
    for q in ('StructMember.dependencies', 'UnionMember.dependencies'):
        if q not in m.funcs:
            continue
        g = m.func(q)
        keeps = False
        for y in g.walk():
            if isinstance(y, (ast.Yield, ast.YieldFrom)) and y.value is not None:
                src = ws(unparse(y.value))
                if src == 'self.type_name' or 'super(' in src or 'Typedef.dependencies(self)' in src:
                    if not path_conditions(g.module, g, y):
                        keeps = True
        L.check(keeps, 'C15b.dependency-complete', q + '|type-name', g.site(),
                '%s overrides Typedef.dependencies and does not yield the type name on every path: a member whose type is defined later '
                '(e.g. an optional member, "it is only a pointer") is no longer moved behind its type - NameError at import of the '
                'generated module, unknown sizes in the model' % q, ws(unparse(g.node))[:300])
    k = m.func('_Container.dependencies')
    L.check('for member in self.members: for dependency in member.dependencies(): yield dependency' in ws(unparse(k.node)),
            'C15b.dependency-complete', '_Container.dependencies', k.site(), 'a struct / union depends on what its members depend on', '')
    i = m.func('Include.dependencies')
    L.check(ws(unparse(i.node.body[-1])) == 'return []', 'C15b.dependency-complete', 'Include.dependencies', i.site(), 'includes are never moved', '')
    # identifiers the Python generator emits for a struct member / union member that dependencies() does not yield
    py = ctx.py.mod('prophyc.generators.python')
    fm = py.func('_form_struct_member')
    emits_size = "'size=%s' % member.size" in ws(unparse(fm.node)).replace("u'", "'")
    sm = [q for q in m.funcs if q == 'StructMember.dependencies']
    covers = bool(sm) and 'size' in ws(unparse(m.func('StructMember.dependencies').node))
    L.check(not emits_size or covers, 'C15b.dependency-complete', 'StructMember|size', fm.site(),
            'the generators emit member.size verbatim (it may name a constant or an enumerator) but a struct member only depends on its '
            'type name: a struct whose array size names a constant / enumerator defined later is not moved behind it (NameError at import)',
            "size=%s % member.size")
    fu = py.func('_form_union_member')
    emits_disc = 'member.discriminator' in ws(unparse(fu.node))
    um = [q for q in m.funcs if q == 'UnionMember.dependencies']
    L.check(not emits_disc or bool(um), 'C15b.dependency-complete', 'UnionMember|discriminator', fu.site(),
            'the generators emit member.discriminator verbatim (it may name an enumerator) but a union member only depends on its type name',
            'member.discriminator')


def ordering(ctx, L):
    m = ctx.py.mod('prophyc.model')
    mp = m.func('ModelParser.__call__')
    body = [ws(unparse(s)) for s in mp.node.body]
    L.check(body == ['nodes = self.parser.parse(*parse_args)', 'if self.patcher: self.patcher(nodes)', 'nodes, _ = evaluate_model(nodes, self.emit.warn)', 'return nodes'],
            'C15e.ordering', 'ModelParser.__call__', mp.site(), 'parse, then patch, then evaluate (sort, cross-reference, sizes) the patched model', str(body))
    em = m.func('evaluate_model')
    L.check(ws(unparse(em.node.body[0])) == 'topological_sort(nodes)', 'C15e.ordering', 'evaluate_model|sort-first', em.site(),
            'the sort must run before cross-referencing and size evaluation (both resolve names in list order)', '')
    isar = ctx.py.mod('prophyc.parsers.isar').func('IsarParser.parse')
    s = ws(unparse(isar.node))
    L.check(s.rstrip().endswith('return [element for element in collect() if element]'), 'C15e.ordering', 'IsarParser.parse', isar.site(),
            'the isar front-end returns definitions grouped by kind (not by dependency): everything relies on the sort', '')
