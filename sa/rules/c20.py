"""C20 - prophyc output is a deterministic function of its inputs (structural clauses, F11)."""
import ast
import re

from ..core import AnalysisError
from .shared_py import inn
from ..pyfront import unparse, norm_key, try_const

MODULES = ('prophyc', 'prophyc.__main__', 'prophyc.options', 'prophyc.file_processor', 'prophyc.model', 'prophyc.calc', 'prophyc.patch',
           'prophyc.six', 'prophyc.parsers.prophy', 'prophyc.parsers.isar', 'prophyc.parsers.sack', 'prophyc.generators.base',
           'prophyc.generators.python', 'prophyc.generators.cpp', 'prophyc.generators.cpp_full', 'prophyc.generators.prophy',
           'prophyc.generators.word_wrap')

ORDER_FREE = ('add', 'update', 'discard', 'remove', 'clear', 'copy', 'issubset', 'issuperset', 'isdisjoint', 'union', 'intersection',
              'difference', 'symmetric_difference', 'difference_update', 'intersection_update')


from ..pyfront import ws  # noqa: E402,F401  (whitespace-collapsed, rename/normal-form tolerant `in`)


def run(ctx, L, tier):
    set_order(ctx, L)
    sources(ctx, L)
    paths(ctx, L)
    explicit_encoding(ctx, L)
    shared_state(ctx, L)
    output_names(ctx, L)
    from . import c16
    c16.cache_and_cycle(ctx, L)      # cross-file state: results cached per absolute path only
    c16.dir_stack(ctx, L)
    c16.one_processor(ctx, L)
    from . import shared_gen as _G
    _G.generators_read_only(ctx, L)
    return sorted(set(o.rule for o in L.obligations))


def explicit_encoding(ctx, L):
    """(d) every text file prophyc reads or writes is opened with an explicit encoding: without one the bytes read from an
    input or written to an output depend on the locale of the process (LANG / LC_ALL / PYTHONUTF8), which is not an input."""
    n = 0
    for modname in MODULES:
        m = ctx.py.mod(modname)
        for node in ast.walk(m.tree):
            if not isinstance(node, ast.Call):
                continue
            fn = ws(unparse(node.func))
            if fn not in ('open', 'io.open', 'codecs.open', 'os.fdopen') and not fn.endswith('.open_text'):
                continue
            n += 1
            f = m.func_of.get(id(node))
            mode = node.args[1] if len(node.args) > 1 else next((k.value for k in node.keywords if k.arg == 'mode'), None)
            okm, mv = try_const(mode) if mode is not None else (True, 'r')
            binary = okm and isinstance(mv, str) and 'b' in mv
            enc = next((k.value for k in node.keywords if k.arg == 'encoding'), None)
            if enc is None and fn == 'codecs.open' and len(node.args) > 2:
                enc = node.args[2]
            oke, ev = try_const(enc) if enc is not None else (False, None)
            L.check(binary or (oke and isinstance(ev, str) and ev.lower().replace('_', '-') in ('utf-8', 'utf8', 'ascii', 'latin-1', 'iso-8859-1')),
                    'F11.locale-dependence', '%s|%s' % (modname, norm_key(f, node) if f else ws(unparse(node))), f.site(node) if f else m.rel,
                    'a text file is opened without an explicit encoding: what is read / written then depends on the locale of the '
                    'process (LC_ALL=C turns a UTF-8 comment into an error or into different bytes)', ws(unparse(node)))
    L.floor('F11.locale-dependence', n, 3)


def is_set_expr(v):
    if isinstance(v, (ast.Set, ast.SetComp)):
        return True
    if isinstance(v, ast.Call) and unparse(v.func) in ('set', 'frozenset'):
        return True
    return False


def set_order(ctx, L):
    """(a) sets are used for membership only: their iteration order (hash-seed dependent for str) never reaches a
    list, a string or emitted text. `sorted(s)` is fine."""
    n = 0
    for modname in MODULES:
        m = ctx.py.mod(modname)
        for f in m.all_funcs():
            setvars = set()
            for node in f.walk():
                if isinstance(node, ast.Assign) and is_set_expr(node.value):
                    for t in node.targets:
                        setvars.add(unparse(t))
            # set-typed attributes assigned in __init__/__call__ of the same class are set-typed in every method
            if f.cls:
                for g in m.all_funcs():
                    if g.cls == f.cls:
                        for node in g.walk():
                            if isinstance(node, ast.Assign) and is_set_expr(node.value) and unparse(node.targets[0]).startswith('self.'):
                                setvars.add(unparse(node.targets[0]))
            # closures: set-typed locals of the enclosing function
            p = f.parent
            while p is not None:
                for node in p.walk():
                    if isinstance(node, ast.Assign) and is_set_expr(node.value):
                        for t in node.targets:
                            setvars.add(unparse(t))
                p = p.parent
            # anonymous set expressions used directly
            for node in f.walk():
                uses = []
                if isinstance(node, (ast.Name, ast.Attribute)) and isinstance(node.ctx, ast.Load) and unparse(node) in setvars:
                    uses.append(node)
                elif is_set_expr(node) and not isinstance(m.parent(node), ast.Assign):
                    uses.append(node)
                for u in uses:
                    n += 1
                    par = m.parent(u)
                    key = '%s|%s' % (f.fq, norm_key(f, par if isinstance(par, ast.AST) and not isinstance(par, ast.stmt) else u))
                    verdict = set_use(u, par, m)
                    L.check(verdict is None, 'F11.set-order', key, f.site(u),
                            'the iteration order of the set `%s` (hash-seed dependent) flows into an ordered result: %s'
                            % (unparse(u)[:40], verdict), ws(unparse(par))[:160] if isinstance(par, ast.AST) else '')
    L.floor('F11.set-order', n, 25)


def set_use(u, par, m):
    """None if the use is order-insensitive, else a description."""
    if isinstance(par, ast.Compare) and any(isinstance(op, (ast.In, ast.NotIn)) for op in par.ops) and u in par.comparators:
        return None
    if isinstance(par, ast.Compare):
        return None                                     # == / <= on sets
    if isinstance(par, ast.Attribute) and par.value is u:
        if par.attr in ORDER_FREE:
            return None
        if par.attr == 'pop':
            # sizes.pop() on a proven singleton
            fn = m.func_of.get(id(u))
            src = ws(unparse(fn.node)) if fn else ''
            if re.search(r'if len\(%s\) != 1: .*raise' % re.escape(unparse(u)), src):
                return None
            return '.pop() takes an arbitrary element'
        return 'method .%s()' % par.attr
    if isinstance(par, ast.Call):
        fn = unparse(par.func)
        if fn in ('sorted', 'len', 'bool', 'set', 'frozenset', 'any', 'all', 'min', 'max', 'sum', 'isinstance') and u in par.args:
            return None
        if fn.startswith('collections.Counter') and u in par.args:
            return None
        if isinstance(par.func, ast.Attribute) and par.func.attr in ('setdefault', 'get') and u in par.args[1:]:
            return None                                 # stored as a mapping value / default
        if u in par.args and isinstance(par.func, ast.Name) and par.func.id in m.funcs:
            # interprocedural: the callee may only use the corresponding parameter order-insensitively
            g = m.funcs[par.func.id][0]
            idx = par.args.index(u)
            if idx < len(g.params):
                pname = g.params[idx]
                for x in g.walk(into_nested=True):
                    if isinstance(x, ast.Name) and x.id == pname and isinstance(x.ctx, ast.Load):
                        v = set_use(x, m.parent(x), m)
                        if v is not None:
                            return 'passed to %s(), where it is %s' % (fn, v)
                return None
        if u in par.args or any(k.value is u for k in par.keywords):
            return 'passed to %s(), which may iterate it' % fn
    if isinstance(par, ast.BinOp) and isinstance(par.op, (ast.Sub, ast.BitOr, ast.BitAnd, ast.BitXor)):
        return None
    if isinstance(par, ast.UnaryOp) and isinstance(par.op, ast.Not):
        return None
    if isinstance(par, (ast.If, ast.While, ast.IfExp, ast.BoolOp)):
        return None                                     # truthiness
    if isinstance(par, (ast.For, ast.comprehension)) and par.iter is u:
        return 'iterated'
    if isinstance(par, ast.Assign) and par.value is u:
        return None                                     # aliasing: the alias is tracked by name where it matters
    if isinstance(par, ast.Return):
        return 'returned to the caller'
    if isinstance(par, ast.Starred):
        return 'unpacked'
    if isinstance(par, ast.Expr):
        return None
    if isinstance(par, ast.Subscript):
        return 'indexed'
    if isinstance(par, (ast.AugAssign,)):
        return None
    if isinstance(par, (ast.Tuple, ast.List, ast.Dict)):
        return None                                     # stored as an element / value: not iterated here
    return 'used in %s' % type(par).__name__


def sources(ctx, L):
    """(b) no environment / time / identity source in prophyc."""
    bad_calls = ('hash', 'id', 'time.time', 'time.clock', 'random.random', 'random.choice', 'random.shuffle', 'uuid.uuid4', 'uuid.uuid1',
                 'os.getpid', 'os.urandom', 'datetime.now', 'datetime.datetime.now', 'os.getenv', 'os.environ.get', 'os.listdir',
                 'os.walk', 'glob.glob', 'getpass.getuser', 'socket.gethostname', 'platform.node')
    n = 0
    for modname in MODULES:
        m = ctx.py.mod(modname)
        if modname == 'prophyc.parsers.sack':
            continue       # libclang front-end: absent on this image; environment probing (library search) is its job
        for node in ast.walk(m.tree):
            if isinstance(node, ast.Call):
                n += 1
                fn = unparse(node.func)
                f = m.func_of.get(id(node))
                L.check(fn not in bad_calls, 'F11.nondeterminism-source', '%s|%s' % (modname, fn), f.site(node) if f else m.rel,
                        'call of %s: the result differs between runs / processes / machines and can reach generated output' % fn,
                        ws(unparse(node)))
            if isinstance(node, ast.Attribute) and unparse(node) in ('os.environ', 'sys.argv') and modname not in ('prophyc.__main__',):
                f = m.func_of.get(id(node))
                L.bad('F11.nondeterminism-source', '%s|%s' % (modname, unparse(node)), f.site(node) if f else m.rel,
                      'reads %s' % unparse(node), unparse(node))
        for imp in [x for x in ast.walk(m.tree) if isinstance(x, (ast.Import, ast.ImportFrom))]:
            names = [a.name for a in imp.names] + ([imp.module] if isinstance(imp, ast.ImportFrom) and imp.module else [])
            for nm in names:
                L.check(nm.split('.')[0] not in ('random', 'time', 'uuid', 'datetime', 'socket', 'getpass', 'platform', 'threading', 'multiprocessing'),
                        'F11.nondeterminism-source', '%s|import %s' % (modname, nm), m.rel, 'imports %s' % nm, nm)
    L.floor('F11.nondeterminism-source', n, 300)


def paths(ctx, L):
    """(c) no absolute or working-directory dependent path reaches a translator; the include search path is exactly the -I list."""
    n = 0
    for modname in MODULES:
        if modname == 'prophyc.parsers.sack':
            continue
        m = ctx.py.mod(modname)
        for node in ast.walk(m.tree):
            src = unparse(node) if isinstance(node, (ast.Attribute, ast.Call)) else ''
            f = m.func_of.get(id(node))
            if isinstance(node, ast.Attribute) and src in ('os.curdir', 'os.getcwd', 'os.pardir', 'os.path.realpath', 'os.path.expanduser', 'os.getcwdu',
                                                           'os.path.relpath', 'os.path.expandvars', 'os.environ', 'os.getenv', 'os.getpid',
                                                           'os.getlogin', 'os.uname', 'os.path.getmtime', 'os.path.getctime', 'os.stat',
                                                           'locale.getpreferredencoding', 'locale.getlocale', 'sys.getfilesystemencoding',
                                                           'tempfile.mkdtemp', 'tempfile.mkstemp'):
                n += 1
                L.bad('F11.cwd-dependence', '%s|%s' % (modname, src), f.site(node) if f else m.rel,
                      '%s makes a result depend on the working directory / user environment of the invocation' % src, src)
            if isinstance(node, ast.Call) and src.startswith('os.path.abspath('):
                n += 1
                # allowed only as the cache key of FileProcessor._process_file
                ok = f is not None and f.fq == 'prophyc.file_processor:FileProcessor._process_file'
                if ok:
                    par = m.parent(node)
                    # the value itself, or the local it is bound to, is used only as key of self.files (subscript / membership)
                    uses = [node]
                    if isinstance(par, ast.Assign) and isinstance(par.targets[0], ast.Name) and par.value is node:
                        keyname = par.targets[0].id
                        uses = [x for x in f.walk() if isinstance(x, ast.Name) and x.id == keyname and isinstance(x.ctx, ast.Load)]
                    for u in uses:
                        p = m.parent(u)
                        key_only = (isinstance(p, ast.Subscript) and p.slice is u and unparse(p.value) == 'self.files') or \
                                   (isinstance(p, ast.Compare) and p.left is u and len(p.ops) == 1 and isinstance(p.ops[0], (ast.In, ast.NotIn))
                                    and unparse(p.comparators[0]) == 'self.files')
                        ok = ok and key_only
                L.check(ok, 'F11.cwd-dependence', '%s|os.path.abspath' % modname, f.site(node) if f else m.rel,
                        'an absolute path may only key the file cache; anywhere else it makes output depend on where the tree is checked out',
                        ws(unparse(m.parent(node))))
    L.count('path-sensitive constructs', n)
    main = ctx.py.func('prophyc:main')
    s = ws(unparse(main.node))
    L.check(inn('FileProcessor(model_parser, opts.include_dirs)', s), 'F11.cwd-dependence', 'main|include-dirs', main.site(),
            'the include search path must be exactly the -I directories (plus the including file\'s own directory): an implicit entry such as '
            'the working directory makes the result depend on where prophyc is run', '')
    cs = ctx.py.func('prophyc:create_supplements')
    L.check('FileProcessor(model_parser, include_dirs)' in ws(unparse(cs.node)), 'F11.cwd-dependence', 'create_supplements|include-dirs', cs.site(),
            'supplements use the same search path', '')


def shared_state(ctx, L):
    """(d) module-level mutable objects are never mutated inside functions; reused instances reset their state at
    the start of each use; default mutable arguments are never mutated."""
    n = 0
    for modname in MODULES:
        if modname == 'prophyc.parsers.sack':
            continue
        m = ctx.py.mod(modname)
        glob = {}
        for st in m.tree.body:
            if isinstance(st, ast.Assign) and isinstance(st.targets[0], ast.Name):
                v = st.value
                if isinstance(v, (ast.Dict, ast.List, ast.Set, ast.DictComp, ast.ListComp, ast.SetComp)) or \
                        (isinstance(v, ast.Call) and unparse(v.func) in ('dict', 'list', 'set', 'defaultdict', 'deque')):
                    glob[st.targets[0].id] = st
        for f in m.all_funcs():
            local = set(f.params)
            for x in f.walk():
                if isinstance(x, ast.Name) and isinstance(x.ctx, ast.Store):
                    local.add(x.id)
            for node in f.walk():
                tgt = None
                if isinstance(node, ast.Call) and isinstance(node.func, ast.Attribute) and isinstance(node.func.value, ast.Name) and \
                        node.func.attr in ('append', 'extend', 'insert', 'pop', 'remove', 'clear', 'update', 'setdefault', 'add', 'discard', 'sort', 'reverse', 'popitem'):
                    tgt = node.func.value.id
                elif isinstance(node, (ast.Assign, ast.AugAssign, ast.Delete)):
                    for t in (node.targets if not isinstance(node, ast.AugAssign) else [node.target]):
                        if isinstance(t, ast.Subscript) and isinstance(t.value, ast.Name):
                            tgt = t.value.id
                if tgt is None:
                    continue
                if tgt in glob and tgt not in local:
                    n += 1
                    L.bad('F11.shared-state', '%s|%s' % (f.fq, norm_key(f, node)), f.site(node),
                          'module-level object `%s` is mutated inside a function: what is generated for one file can depend on which files '
                          'were compiled before it in the same process' % tgt, ws(unparse(node)))
                # default mutable arguments
                defaults = {}
                args = f.node.args
                pos = args.posonlyargs + args.args
                for a, d in zip(pos[len(pos) - len(args.defaults):], args.defaults):
                    if isinstance(d, (ast.List, ast.Dict, ast.Set)):
                        defaults[a.arg] = d
                if tgt in defaults:
                    n += 1
                    L.bad('F11.shared-state', '%s|default %s' % (f.fq, tgt), f.site(node), 'a mutable default argument is mutated: state leaks '
                          'from one call to the next', ws(unparse(node)))
        L.ok('F11.shared-state', modname + '|module-level mutables', m.rel, 'never mutated inside functions: %s' % sorted(glob))
        MUT = ('append', 'extend', 'insert', 'pop', 'remove', 'clear', 'update', 'setdefault', 'add', 'discard', 'sort', 'reverse', 'popitem')

        def is_container(v):
            return isinstance(v, (ast.Dict, ast.List, ast.Set, ast.DictComp, ast.ListComp, ast.SetComp)) or \
                (isinstance(v, ast.Call) and unparse(v.func) in ('dict', 'list', 'set', 'defaultdict', 'deque', 'collections.defaultdict', 'OrderedDict'))
        # (e) state held in a closure that outlives the call: a nested function that escapes (is returned) mutates a container of
        #     its enclosing function - the usual shape of a memoising decorator
        for f in m.all_funcs():
            if f.parent is None:
                continue
            outer = f.parent
            conts = set(unparse(a.targets[0]) for a in outer.walk() if isinstance(a, ast.Assign) and isinstance(a.targets[0], ast.Name) and is_container(a.value))
            escapes = any(isinstance(r, ast.Return) and isinstance(r.value, ast.Name) and r.value.id == f.node.name for r in outer.walk())
            if not conts or not escapes:
                continue
            own = set(f.params) | set(x.id for x in f.walk() if isinstance(x, ast.Name) and isinstance(x.ctx, ast.Store))
            for node in f.walk():
                tgt = None
                if isinstance(node, ast.Call) and isinstance(node.func, ast.Attribute) and isinstance(node.func.value, ast.Name) and node.func.attr in MUT:
                    tgt = node.func.value.id
                elif isinstance(node, (ast.Assign, ast.AugAssign, ast.Delete)):
                    for t in (node.targets if not isinstance(node, ast.AugAssign) else [node.target]):
                        if isinstance(t, ast.Subscript) and isinstance(t.value, ast.Name):
                            tgt = t.value.id
                if tgt in conts and tgt not in own:
                    n += 1
                    L.bad('F11.shared-state', '%s|closure %s' % (f.fq, tgt), f.site(node),
                          '`%s` of %s lives as long as the returned function `%s` and is mutated by it (a memo / cache that survives the '
                          'call): what is computed for one input can depend on what was compiled before it in the same process'
                          % (tgt, outer.qualname, f.node.name), ws(unparse(node)))
        # (f) class-level mutable attributes mutated through an instance: shared by every instance for the life of the process
        for cq, c in m.classes.items():
            cattrs = set(t.id for st in c.body if isinstance(st, ast.Assign) and is_container(st.value) for t in st.targets if isinstance(t, ast.Name))
            if not cattrs:
                continue
            for f in m.all_funcs():
                if f.cls != cq:
                    continue
                reset = set(unparse(t)[5:] for a in f.walk() if isinstance(a, ast.Assign) for t in a.targets
                            if isinstance(t, ast.Attribute) and unparse(t.value) == 'self')
                for node in f.walk():
                    if isinstance(node, ast.Call) and isinstance(node.func, ast.Attribute) and node.func.attr in MUT and \
                            isinstance(node.func.value, ast.Attribute) and unparse(node.func.value.value) in ('self', 'cls', cq) \
                            and node.func.value.attr in cattrs and node.func.value.attr not in reset:
                        n += 1
                        L.bad('F11.shared-state', '%s|class attribute %s' % (f.fq, node.func.value.attr), f.site(node),
                              'the class-level container `%s.%s` is mutated through an instance: every instance (one parser per file / '
                              'include) shares it for the whole process, so what is accepted for one file depends on the files seen before'
                              % (cq, node.func.value.attr), ws(unparse(node)))
    # reused instances: must-reset at the start of each use
    pp = ctx.py.mod('prophyc.parsers.prophy')
    parse = pp.func('Parser.parse')
    body = [ws(unparse(s)) for s in parse.node.body]
    L.check(body[:4] == ['self._init_parse_data(parse_error_prefix)', 'self.parse_file = parse_file', 'self.lexer.lineno = 1',
                         'self.yacc.parse(input_, lexer=self.lexer)'], 'F11.must-reset', 'prophy.Parser.parse', parse.site(),
            'a reused parser must reset nodes / declarations / errors and the lexer line counter before every parse', str(body))
    ini = pp.func('Parser._init_parse_data')
    s = ws(unparse(ini.node))
    state = set()
    for g in pp.all_funcs():
        if g.cls == 'Parser':
            for x in g.walk():
                if isinstance(x, ast.Attribute) and unparse(x.value) == 'self' and isinstance(x.ctx, ast.Store):
                    state.add(x.attr)
    per_parse = state - {'lexer', 'yacc', 'parse_file'}
    missing = [a for a in sorted(per_parse) if ('self.%s = ' % a) not in s]
    L.check(not missing, 'F11.must-reset', 'prophy.Parser._init_parse_data', ini.site(),
            'every per-parse attribute of the parser must be re-initialised by _init_parse_data: missing %s' % missing, s)
    ap = pp.func('ProphyParser.parse')
    L.check('parsers_stack = []' in ws(unparse(ap.node)), 'F11.must-reset', 'ProphyParser.parse|parser-stack', ap.site(),
            'the parser pool is local to one parse call', '')
    pt = ctx.py.mod('prophyc.generators.python').func('_PythonTranslator.__call__')
    L.check(ws(unparse(pt.node.body[0])) == 'self.included_symbols = set()', 'F11.must-reset', '_PythonTranslator.__call__', pt.site(),
            'the set of already imported symbols is reset for every generated file', '')
    ww = ctx.py.mod('prophyc.generators.word_wrap')
    sg = ww.func('BreakLinesByWidth.__call__.sub_generator')
    first = [b for b in sg.node.body if not (isinstance(b, ast.Expr) and isinstance(b.value, ast.Constant))][0]
    L.check(ws(unparse(first)) == "self._init(k.pop('indent_level', 0))", 'F11.must-reset', 'BreakLinesByWidth', sg.site(),
            'the shared line breaker resets its position / queue state at the start of every use', ws(unparse(first)))
    wi = ww.func('BreakLinesByWidth._init')
    s = ws(unparse(wi.node))
    mut = set()
    for g in ww.all_funcs():
        if g.cls == 'BreakLinesByWidth' and not g.qualname.endswith('__init__'):
            for x in g.walk():
                if isinstance(x, (ast.Assign, ast.AugAssign)):
                    for t in (x.targets if isinstance(x, ast.Assign) else [x.target]):
                        if isinstance(t, ast.Attribute) and unparse(t.value) == 'self':
                            mut.add(t.attr)
    missing = [a for a in sorted(mut) if ('self.%s = ' % a) not in s]
    L.check(not missing, 'F11.must-reset', 'BreakLinesByWidth._init', wi.site(), 'every mutable attribute is reset by _init: missing %s' % missing, s)
    L.count('shared-state findings', n)


def output_names(ctx, L):
    g = ctx.py.func('prophyc:get_basename')
    L.check(ws(unparse(g.node.body[-1])) == 'return os.path.splitext(os.path.basename(path))[0]', 'F11.output-names', 'get_basename', g.site(),
            'output names derive from the input file\'s base name only', '')
    s = ctx.py.mod('prophyc.generators.base').func('GeneratorBase.serialize')
    src = ws(unparse(s.node))
    L.check(inn('for extension, translator_type in self.top_level_translators.items(): file_path = _make_path(self.output_dir, base_name, extension) '
            'translator = translator_type() file_content = translator(nodes, base_name) _write_file(file_path, file_content)', src),
            'F11.output-names', 'GeneratorBase.serialize', s.site(),
            'one fresh translator per output file; the path is output_dir / base_name + extension', src)
    mp = ctx.py.mod('prophyc.generators.base').func('_make_path')
    L.check(ws(unparse(mp.node.body[-1])) == 'return os.path.join(output_dir, base_name + extension)', 'F11.output-names', '_make_path', mp.site(), 'path shape', '')
    m = ctx.py.func('prophyc:main')
    src = ws(unparse(m.node))
    L.check(inn('basename = get_basename(input_file) model_nodes[basename] = nodes', src) and inn('generate_target_files(emit, serializers, model_nodes)', src),
            'F11.output-names', 'main|per-file-outputs', m.site(), 'each input file\'s nodes are generated under its own base name, in input order '
            '(dict insertion order)', '')
    py = ctx.py.mod('prophyc.generators.python').func('_PythonTranslator.translate_include')
    srt = set(a.targets[0].id for a in py.walk() if isinstance(a, ast.Assign) and isinstance(a.targets[0], ast.Name)
              and isinstance(a.value, ast.Call) and isinstance(a.value.func, ast.Name) and a.value.func.id == 'sorted')
    joins = [c for c in py.walk(into_nested=True) if isinstance(c, ast.Call) and isinstance(c.func, ast.Attribute) and c.func.attr == 'join'
             and isinstance(c.func.value, ast.Constant) and c.func.value.value == u', ']
    L.check(bool(joins) and all(len(c.args) == 1 and isinstance(c.args[0], ast.Name) and c.args[0].id in srt for c in joins),
            'F11.set-order', 'translate_include|sorted', py.site(), 'imported names are emitted in sorted order',
            '; '.join(ws(unparse(c)) for c in joins))
