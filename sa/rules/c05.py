"""C05 - C++ full codec: get_byte_size equals bytes written; encode stays in bounds (structural clauses)."""
import ast
import re

from ..core import AnalysisError
from .shared_py import inn
from ..pyfront import unparse
from ..pyfront import ws  # noqa: E402,F401
from .. import templ, predabs
from . import shared_gen as G
from . import shared_cxx as X
from . import shared_model as M
from . import shared_py as P


def run(ctx, L, tier):
    n = G.f9_arithmetic(ctx, L, 'prophyc.generators.cpp_full',
                        ['generate_struct_get_byte_size', 'generate_struct_encode', 'generate_struct_decode'])
    L.floor('F9.marker-arithmetic', n + 1, 1)
    G.cppfull_ladder(ctx, L, 'generate_struct_encode', G.ENC, 'F10.encode')
    G.padding_tail(ctx, L, 'generate_struct_encode', G.PAD_ENC)
    size_ladder(ctx, L)
    G.union_templates(ctx, L)
    union_size(ctx, L)
    X.f2_cxx_zero_vector(ctx, L)
    X.f5b_encoder(ctx, L)
    X.optional_codec_cxx(ctx, L)
    byte_size_header(ctx, L)
    M.size_formulas(ctx, L)
    M.dynamic_predicates(ctx, L)
    from . import c20
    c20.shared_state(ctx, L)        # no state that survives from one compiled file / call to the next (module, class, closure, default argument)
    from . import shared_gen as _G
    _G.generators_read_only(ctx, L)
    from . import c14 as _c14
    _c14.ladders(ctx, L)               # sizes that stay symbolic in the generated C++ are evaluated by the compiler: integer operators only
    _c14.precedence(ctx, L)
    return sorted(set(o.rule for o in L.obligations))


REF_GET_BYTE_SIZE = """
    bytes_ = 0
    elems = []
    for m in node.members:
        if m.kind == model.Kind.FIXED:
            if m.is_dynamic or m.greedy:
                elems += ['{0}.size() * {1}'.format(m.name, _get_byte_size(m))]
            else:
                bytes_ += m.byte_size + max(m.padding, 0)
        else:
            if m.is_dynamic or m.greedy:
                elems += ['std::accumulate({0}.begin(), {0}.end(), size_t(), prophy::detail::byte_size())'.format(m.name)]
            else:
                elems += ['{0}.get_byte_size()'.format(m.name)]
        if m.padding < 0:
            if bytes_:
                elems += [str(bytes_)]
                bytes_ = 0
            elems = ['prophy::detail::nearest<{0}>(\\n'.format(abs(m.padding)) + _indent(' + '.join(elems)) + '\\n)']
    if bytes_:
        elems += [str(bytes_)]
    return 'return {0};\\n'.format(' + '.join(elems))
"""


def size_ladder(ctx, L):
    """generate_struct_get_byte_size: for every abstract member (kind x form x padding sign) the statements on the member's own
    path through the loop body are, at meaning level, those of the reference above - exactly one size term matching what the
    member's encode statement advances by (static slot + positive padding / count x element size / accumulate / nested
    get_byte_size) and, for any member carrying a negative marker whatever its kind, the flush of the static bytes and the
    nearest<|padding|>( sum so far ) group that is the counterpart of `pos = align<N>(pos)` in encode."""
    m = ctx.py.mod('prophyc.generators.cpp_full')
    f = m.func('generate_struct_get_byte_size')
    var, loop = templ.member_loop(f)
    props = predabs.model_props(ctx.py)
    ref = P._FakeFunc(REF_GET_BYTE_SIZE, ['node'], m)
    rloop = [st for st in ref.node.body if isinstance(st, ast.For)][0]
    g = P.module_globals(m) | P.ALL_GLOBALS

    def around(fn, lp):
        order = {}
        pre = [P._sem(st, list(fn.params), {}, g, order) for st in P._body(fn.node) if st is not lp and P._body(fn.node).index(st) < P._body(fn.node).index(lp)]
        pre_order = dict(order)
        P._sem(lp.target, list(fn.params), {}, g, order)
        post = [P._sem(st, list(fn.params), {}, g, order) for st in P._body(fn.node) if st is not lp and P._body(fn.node).index(st) > P._body(fn.node).index(lp)]
        return sorted(pre), post, pre_order
    pre, post, order_f = around(f, loop)
    rpre, rpost, order_r = around(ref, rloop)
    L.check(pre == rpre and post == rpost and ws(unparse(loop.iter)) == '%s.members' % f.params[0], 'F10.size-align-group', 'get_byte_size|frame', f.site(),
            'around the member loop: the running static size and the term list start empty, the loop visits node.members in order, '
            'remaining static bytes are added and all terms summed; expected %s ... %s, got %s ... %s' % (rpre, rpost, pre, post), '')
    n = 0
    for a in predabs.domain(paddings=(0, 3, -8)):
        n += 1
        got = P.trace(f, a, var, props, body=loop.body, pre_order=order_f)
        want = P.trace(ref, a, 'm', props, body=rloop.body, pre_order=order_r)
        L.check(got == want, 'F10.size-term', 'get_byte_size|%s|pad%+d' % (a.label(), a.padding), f.site(loop),
                'for a `%s` member with padding %+d the size generator must do %s (its size term = what the member\'s encode statement '
                'advances by; a negative marker closes a nearest<N> group whatever the kind of the member); it does %s'
                % (a.label(), a.padding, want, got), str(got)[:300])
    L.floor('F10.size-term', n, 120)
    gb = m.func('_get_byte_size')
    s = ws(unparse(gb.node))
    L.check(inn('if isinstance(node, model.Enum): return DISC_SIZE', s) and inn('return BUILTIN_SIZES.get(node.type_name)', s)
            and inn('return node.byte_size', s) and inn('node = _get_leaf(node)', s), 'F10.size-term', '_get_byte_size', gb.site(),
            'element size: enums 4, builtins by table, composites by byte_size, through typedef chains', s[:200])


def union_size(ctx, L):
    m = ctx.py.mod('prophyc.generators.cpp_full')
    for q, want in (('generate_union_get_byte_size', "return 'return {0};\\n'.format(node.byte_size)"),
                    ('generate_union_encoded_byte_size', 'return str(node.byte_size)')):
        f = m.func(q)
        L.check(P.body_is(f, want, params=['node']), 'F10.size-term', q, f.site(), 'a union has its static byte_size', P.sem_body(f))
    f = m.func('generate_struct_encoded_byte_size')
    L.check(P.body_is(f, "return node.kind == model.Kind.FIXED and str(node.byte_size) or '-1'",
                      "if node.kind != model.Kind.FIXED:\n    return '-1'\nreturn str(node.byte_size)", params=['node']),
            'C04c.encoded-byte-size-fixed-only', 'generate_struct_encoded_byte_size', f.site(),
            'encoded_byte_size publishes byte_size only for FIXED structs, -1 otherwise', P.sem_body(f))


def byte_size_header(ctx, L):
    cx = ctx.cxx
    fs = cx.functions('nearest')
    if len(fs) != 1:
        raise AnalysisError('anchor vanished: prophy::detail::nearest')
    f = fs[0]
    from ..cxxlib import nows
    L.check(nows(f.body.text) == '{return(x+N-1)&~T(N-1);}', 'F16.align-idiom', 'nearest<N>', f.site(),
            'nearest<N>(x) must be the round-up idiom (x + N - 1) & ~(N - 1) with consistent operands', f.body.text)
    fs = [g for g in cx.functions('operator()') if (g.owner or '') == 'byte_size']
    if len(fs) != 1:
        raise AnalysisError('anchor vanished: byte_size::operator()')
    g = fs[0]
    L.check(nows(g.body.text) == '{returnx+y.get_byte_size();}', 'F10.size-term', 'byte_size::operator()', g.site(),
            'the accumulator adds get_byte_size() of each element', g.body.text)
    for name in ('align',):
        for a in cx.functions(name, file_suffix='detail/align.hpp'):
            if a.params and a.params[0][1] == 'uint8_t *':
                L.check(nows(a.body.text) == '{enum{mask=Alignment-1};returnreinterpret_cast<uint8_t*>((reinterpret_cast<uintptr_t>(ptr)+mask)&~uintptr_t(mask));}',
                        'F16.align-idiom', 'align<A>(uint8_t*)', a.site(), 'align<A> must round the pointer up to a multiple of A', a.body.text)
