"""C05 - C++ full codec: get_byte_size equals bytes written; encode stays in bounds (structural clauses)."""
import ast
import re

from ..core import AnalysisError
from .shared_py import inn
from ..pyfront import unparse
from ..pyfront import ws  # noqa: E402,F401
from .. import templ, predabs
from . import shared_gen as G
from . import shared_cxx as X
from . import shared_model as M


def run(ctx, L, tier):
    n = G.f9_arithmetic(ctx, L, 'prophyc.generators.cpp_full',
                        ['generate_struct_get_byte_size', 'generate_struct_encode', 'generate_struct_decode'])
    L.floor('F9.marker-arithmetic', n + 1, 1)
    G.cppfull_ladder(ctx, L, 'generate_struct_encode', G.ENC, 'F10.encode')
    G.padding_tail(ctx, L, 'generate_struct_encode', G.PAD_ENC)
    size_ladder(ctx, L)
    G.union_templates(ctx, L)
    union_size(ctx, L)
    X.f2_cxx_zero_vector(ctx, L)
    X.f5b_encoder(ctx, L)
    X.optional_codec_cxx(ctx, L)
    byte_size_header(ctx, L)
    M.size_formulas(ctx, L)
    M.dynamic_predicates(ctx, L)
    return sorted(set(o.rule for o in L.obligations))


def size_ladder(ctx, L):
    """generate_struct_get_byte_size vs generate_struct_encode: every abstract member contributes exactly one size term
    matching what its encode statement advances by, and every align<N> of encode has a nearest<N> group closing at the
    same member."""
    m = ctx.py.mod('prophyc.generators.cpp_full')
    f = m.func('generate_struct_get_byte_size')
    var, loop = templ.member_loop(f)
    props = predabs.model_props(ctx.py)
    ev = predabs.Evaluator(props, var)
    want = {
        'static': "bytes_ += m.byte_size + max(m.padding, 0)",
        'count*size': "elems += ['{0}.size() * {1}'.format(m.name, _get_byte_size(m))]",
        'accumulate': "elems += ['std::accumulate({0}.begin(), {0}.end(), size_t(), prophy::detail::byte_size())'.format(m.name)]",
        'nested': "elems += ['{0}.get_byte_size()'.format(m.name)]",
    }
    static_alt = ["bytes_ += m.byte_size + max(m.padding, 0)", "bytes_ += m.byte_size + (m.padding if m.padding > 0 else 0)",
                  "bytes_ += m.byte_size + max(0, m.padding)"]
    group = ("elems = ['prophy::detail::nearest<{0}>(\\n'.format(abs(m.padding)) + _indent(' + '.join(elems)) + '\\n)']")

    def mentions_member(e):
        return any(isinstance(x, ast.Name) and x.id == var for x in ast.walk(e))

    def execute(stmts, am, maybe, out):
        """Abstract execution of the loop body for one abstract member: the simple statements it runs, in order; a guard
        over the member is decided by the predicate abstraction, a guard over generator state (`if bytes_:`) forks as
        'maybe'. Returns False when the iteration ended with `continue`."""
        for st in stmts:
            if isinstance(st, ast.If):
                if mentions_member(st.test):
                    try:
                        t = bool(ev.ev(st.test, am))
                    except predabs.Unknown as e:
                        raise AnalysisError('generate_struct_get_byte_size: guard term not recognised: %s' % e)
                    if not execute(st.body if t else st.orelse, am, maybe, out):
                        return False
                else:
                    g = ws(unparse(st.test))
                    r1 = execute(st.body, am, maybe + [g], out)
                    r2 = execute(st.orelse, am, maybe + ['not ' + g], out)
                    if r1 != r2:
                        raise AnalysisError('generate_struct_get_byte_size: `continue` under a state guard')
                    if not r1:
                        return False
            elif isinstance(st, ast.Continue):
                return False
            elif isinstance(st, (ast.Assign, ast.AugAssign, ast.Expr)):
                out.append((ws(unparse(st)), tuple(maybe), st))
            else:
                raise AnalysisError('generate_struct_get_byte_size: statement kind %s not modelled' % type(st).__name__)
        return True

    def expected(a):
        dyn_elem = a.kind != predabs.FIXED
        if a.form in ('dynamic', 'greedy'):
            return 'accumulate' if dyn_elem else 'count*size'
        if dyn_elem:
            return 'nested'
        return 'static'     # plain, optional, sizer, fixed and limited arrays of fixed elements: static slot
    flush = [('elems += [str(bytes_)]', ('bytes_',)), ('bytes_ = 0', ('bytes_',))]
    n = 0
    for a in predabs.domain(paddings=(0, 3, -8)):
        eff = []
        execute(loop.body, a, [], eff)
        terms = [(t, mb, st) for t, mb, st in eff if t in set(want.values()) | set(static_alt)]
        exp = expected(a)
        got = terms[0][0] if len(terms) == 1 and not terms[0][1] else ' ; '.join(t for t, _, _ in terms)
        good = len(terms) == 1 and not terms[0][1] and (got in static_alt if exp == 'static' else got == want[exp])
        n += 1
        L.check(good, 'F10.size-term', 'get_byte_size|%s|pad%+d' % (a.label(), a.padding), f.site(terms[0][2] if terms else loop),
                'a `%s` member (padding %+d) must contribute exactly the size term `%s` (what its encode statement advances by); it gets `%s`'
                % (a.label(), a.padding, want[exp], got), got)
        rest = [(t, mb) for t, mb, st in eff if (t, mb, st) not in terms]
        if a.padding < 0:
            # after the member's own term: flush the static bytes (if any), then wrap everything so far in nearest<|padding|>
            okg = rest == flush + [(group, ())] and eff[0][0] == terms[0][0] if terms else False
            why = ('a member carrying the negative marker %d must close a prophy::detail::nearest<%d>( sum so far ) group after its own '
                   'term, whatever its kind - the counterpart of `pos = align<N>(pos)` in encode; executed: %s' % (a.padding, -a.padding, [t for t, _ in rest]))
        else:
            okg = rest == []
            why = 'a member without a negative marker runs nothing but its size term; executed: %s' % [t for t, _ in rest]
        L.check(okg, 'F10.size-align-group', 'get_byte_size|%s|pad%+d' % (a.label(), a.padding), f.site(loop), why, str(rest)[:300])
    L.floor('F10.size-term', n, 120)
    pre = [ws(unparse(s)) for s in f.node.body if s is not loop and f.node.body.index(s) < f.node.body.index(loop)]
    L.check(sorted(pre) == ['bytes_ = 0', 'elems = []'], 'F10.size-align-group', 'get_byte_size|init', f.site(),
            'the running static size and the term list start empty', str(pre))
    tail = [ws(unparse(s)) for s in f.node.body[-2:]]
    L.check(tail == ['if bytes_: elems += [str(bytes_)]', "return 'return {0};\\n'.format(' + '.join(elems))"], 'F10.size-align-group',
            'get_byte_size|tail', f.site(), 'remaining static bytes are added and all terms summed', str(tail))
    gb = m.func('_get_byte_size')
    s = ws(unparse(gb.node))
    L.check(inn('if isinstance(node, model.Enum): return DISC_SIZE', s) and inn('return BUILTIN_SIZES.get(node.type_name)', s)
            and inn('return node.byte_size', s) and inn('node = _get_leaf(node)', s), 'F10.size-term', '_get_byte_size', gb.site(),
            'element size: enums 4, builtins by table, composites by byte_size, through typedef chains', s[:200])


def union_size(ctx, L):
    m = ctx.py.mod('prophyc.generators.cpp_full')
    for q, want in (('generate_union_get_byte_size', "return 'return {0};\\n'.format(node.byte_size)"),
                    ('generate_union_encoded_byte_size', 'return str(node.byte_size)')):
        f = m.func(q)
        L.check(unparse(f.node.body[-1]) == want, 'F10.size-term', q, f.site(), 'a union has its static byte_size', unparse(f.node.body[-1]))
    f = m.func('generate_struct_encoded_byte_size')
    L.check(re.sub(r'\s+', '', unparse(f.node.body[-1])) == "returnnode.kind==model.Kind.FIXEDandstr(node.byte_size)or'-1'",
            'C04c.encoded-byte-size-fixed-only', 'generate_struct_encoded_byte_size', f.site(),
            'encoded_byte_size publishes byte_size only for FIXED structs, -1 otherwise', unparse(f.node.body[-1]))


def byte_size_header(ctx, L):
    cx = ctx.cxx
    fs = cx.functions('nearest')
    if len(fs) != 1:
        raise AnalysisError('anchor vanished: prophy::detail::nearest')
    f = fs[0]
    from ..cxxlib import nows
    L.check(nows(f.body.text) == '{return(x+N-1)&~T(N-1);}', 'F16.align-idiom', 'nearest<N>', f.site(),
            'nearest<N>(x) must be the round-up idiom (x + N - 1) & ~(N - 1) with consistent operands', f.body.text)
    fs = [g for g in cx.functions('operator()') if (g.owner or '') == 'byte_size']
    if len(fs) != 1:
        raise AnalysisError('anchor vanished: byte_size::operator()')
    g = fs[0]
    L.check(nows(g.body.text) == '{returnx+y.get_byte_size();}', 'F10.size-term', 'byte_size::operator()', g.site(),
            'the accumulator adds get_byte_size() of each element', g.body.text)
    for name in ('align',):
        for a in cx.functions(name, file_suffix='detail/align.hpp'):
            if a.params and a.params[0][1] == 'uint8_t *':
                L.check(nows(a.body.text) == '{enum{mask=Alignment-1};returnreinterpret_cast<uint8_t*>((reinterpret_cast<uintptr_t>(ptr)+mask)&~uintptr_t(mask));}',
                        'F16.align-idiom', 'align<A>(uint8_t*)', a.site(), 'align<A> must round the pointer up to a multiple of A', a.body.text)
