"""C03 - Python and generated C++ full codec are wire-compatible (structural clauses)."""
from . import shared_py as P
from . import shared_cxx as X
from . import shared_gen as G
from . import c07
from . import shared_model as M


def run(ctx, L, tier):
    G.f4_tables(ctx, L)
    P_scalars(ctx, L)
    X.f5_lane_tables(ctx, L)
    X.f5b_encoder(ctx, L)
    c07.decoder_guards(ctx, L)
    c07.cursor_passing(ctx.cxx, L)
    X.optional_codec_cxx(ctx, L)
    X.f3_cxx(ctx, L)
    X.f2_cxx_zero_vector(ctx, L)
    G.cppfull_ladder(ctx, L, 'generate_struct_encode', G.ENC, 'F10.encode')
    G.cppfull_ladder(ctx, L, 'generate_struct_decode', G.DEC, 'F10.decode')
    G.cppfull_ladder(ctx, L, 'generate_struct_fields', G.FIELDS, 'F10.fields')
    G.padding_tail(ctx, L, 'generate_struct_encode', G.PAD_ENC)
    G.padding_tail(ctx, L, 'generate_struct_decode', G.PAD_DEC)
    G.f9_arithmetic(ctx, L, 'prophyc.generators.cpp_full',
                    ['generate_struct_get_byte_size', 'generate_struct_encode', 'generate_struct_decode'])
    G.union_templates(ctx, L)
    from . import c05
    c05.size_ladder(ctx, L)      # encode<E>() sizes its vector with get_byte_size(): a size that disagrees with encode changes the bytes
    c07.generated_decode(ctx, L)
    M.size_formulas(ctx, L)
    M.dynamic_predicates(ctx, L)
    M.stiffness(ctx, L)
    # the Python side of the same wire steps
    P.f1_struct_walkers(ctx, L, sides=('encode', 'decode'))
    P.f1_union_encode(ctx, L)
    P.f1_optional_encode(ctx, L)
    P.f15_optional_aware(ctx, L)
    P.f16_runtime_layout(ctx, L)
    P.f3_endianness(ctx, L)
    from . import c20
    c20.shared_state(ctx, L)        # no state that survives from one compiled file / call to the next (module, class, closure, default argument)
    from . import shared_gen as _G
    _G.generators_read_only(ctx, L)
    return sorted(set(o.rule for o in L.obligations))


def P_scalars(ctx, L):
    from . import c01
    c01.scalar_pack(ctx, L)
