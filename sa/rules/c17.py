"""C17 - front-ends agree: isar (+patch) and prophy text give the same wire layout (structural clauses)."""
import ast
import re

from ..core import AnalysisError
from .shared_py import inn
from ..pyfront import unparse, try_const, norm_key
from . import shared_gen as G
from . import shared_py as P

FORMS = {frozenset(): 'plain', frozenset(['size']): 'fixed', frozenset(['bound']): 'dynamic', frozenset(['bound', 'size']): 'limited',
         frozenset(['greedy']): 'greedy', frozenset(['optional']): 'optional'}


from ..pyfront import ws  # noqa: E402,F401  (whitespace-collapsed, rename/normal-form tolerant `in`)


def run(ctx, L, tier):
    constructor_shapes(ctx, L)
    implicit_sizers(ctx, L)
    isar_forms(ctx, L)
    G.f4_tables(ctx, L)
    ordering(ctx, L)
    patch_actions(ctx, L)
    from . import c20
    c20.shared_state(ctx, L)        # no state that survives from one compiled file / call to the next (module, class, closure, default argument)
    from . import c14
    c14.evaluator_state(ctx, L)      # isar sizes go through the model-time evaluator: no state between evaluations
    isar_value_conversions(ctx, L)
    return sorted(set(o.rule for o in L.obligations))


def member_calls(mod):
    out = []
    for f in mod.all_funcs():
        for c in f.walk():
            if isinstance(c, ast.Call) and unparse(c.func) in ('model.StructMember', 'StructMember'):
                out.append((f, c))
    return out


def constructor_shapes(ctx, L):
    """(a) every StructMember(...) call site uses the shared keyword vocabulary in one of the legal combinations."""
    n = 0
    seen = {}
    for modname in ('prophyc.parsers.prophy', 'prophyc.parsers.isar', 'prophyc.patch'):
        mod = ctx.py.mod(modname)
        for f, c in member_calls(mod):
            n += 1
            kws = {k.arg: k.value for k in c.keywords}
            form_kws = frozenset(k for k in kws if k in ('bound', 'size', 'greedy', 'optional'))
            key = '%s|%s' % (f.fq, norm_key(f, c))
            extra = set(kws) - {'bound', 'size', 'greedy', 'optional', 'definition', 'docstring', 'name', 'type_name'}
            ok = form_kws in FORMS and not extra and len(c.args) <= 2 + (0 if 'name' not in kws else -2)
            if 'greedy' in kws:
                okc, v = try_const(kws['greedy'])
                ok = ok and okc and v is True
            if 'optional' in kws:
                okc, v = try_const(kws['optional'])
                # a bool-typed local (isar: `optional = bool(optional) and optional.lower() == "true"`) or the literal True
                ok = ok and ((okc and v is True) or unparse(kws['optional']) == 'optional')
            L.check(ok, 'C17a.constructor-shape', key, f.site(c),
                    'StructMember is built with keywords %s: not one of the legal forms (none, size, bound, bound+size, greedy, optional) '
                    'with literal booleans' % sorted(kws), unparse(c))
            seen.setdefault(modname.split('.')[-1], set()).add(FORMS.get(form_kws, '?'))
    L.floor('C17a.constructor-shape', n, 14)
    want_prophy = {'plain', 'fixed', 'dynamic', 'limited', 'greedy', 'optional'}
    L.check(seen.get('prophy') == want_prophy, 'C17a.constructor-shape', 'prophy|forms', 'prophyc/parsers/prophy.py',
            'the prophy grammar must be able to build every member form: %s' % sorted(seen.get('prophy', [])), '')
    L.check(seen.get('isar', set()) >= {'plain', 'fixed', 'dynamic', 'limited', 'optional'} or
            seen.get('isar', set()) >= {'plain', 'fixed', 'dynamic', 'optional'}, 'C17a.constructor-shape', 'isar|forms',
            'prophyc/parsers/isar.py', 'isar must build plain, optional, fixed, ext-sized and limited members (greedy comes from a patch): %s'
            % sorted(seen.get('isar', [])), '')
    isar = ctx.py.mod('prophyc.parsers.isar').func('make_struct_members')
    s = ws(unparse(isar.node))
    L.check(inn("optional = xml_elem.get('optional') optional = bool(optional) and optional.lower() == 'true'", s), 'C17a.constructor-shape',
            'isar|optional-is-bool', isar.site(), 'the optional flag is normalised to a bool', '')


def implicit_sizers(ctx, L):
    pp = ctx.py.mod('prophyc.parsers.prophy')
    for q in ('Parser.p_struct_member_4', 'Parser.p_struct_member_5'):
        f = pp.func(q)
        s = ws(unparse(f.node))
        first = "(model.StructMember('num_of_' + t[2], 'u32', definition=None), t.lineno(2), t.lexpos(2))"
        i1 = s.find(first)
        i2 = s.find("bound='num_of_' + t[2]")
        L.check(0 <= i1 < i2, 'C17a.implicit-sizer', q, f.site(),
                'an array without an explicit sizer gets a u32 counter `num_of_<name>` emitted *before* the array and bound to it', s[-300:])
    isar = ctx.py.mod('prophyc.parsers.isar').func('make_struct_members.collect')
    calls = [c for c in isar.walk() if isinstance(c, ast.Call) and unparse(c.func) == 'model.StructMember' and len(c.args) >= 2
             and any(k.arg == 'bound' for k in c.keywords) and any(k.arg == 'size' for k in c.keywords)]
    ok = len(calls) == 1
    order_ok = False
    if ok:
        # the limited/ext-sized array and, in the same branch before it, the counter it is bound to
        arr = calls[0]
        blk = isar.module.parent(isar.module.parent(isar.module.parent(arr)))        # Call -> Yield -> Expr -> block owner
        stmts = [st for st in ast.walk(blk) if isinstance(st, ast.Expr) and isinstance(st.value, ast.Yield)]
        mine = [st for st in stmts if st.value.value is arr]
        sib = None
        for field in ('body', 'orelse'):
            b = getattr(blk, field, [])
            if mine and mine[0] in b:
                sib = b[:b.index(mine[0])]
        bound = [k.value for k in arr.keywords if k.arg == 'bound'][0]
        counters = [st.value.value for st in (sib or []) if isinstance(st, ast.Expr) and isinstance(st.value, ast.Yield)
                    and isinstance(st.value.value, ast.Call) and unparse(st.value.value.func) == 'model.StructMember']
        order_ok = len(counters) == 1 and P.sem_text(isar, counters[0].args[0]) == P.sem_text(isar, bound)
        ok = order_ok and len(counters[0].args) >= 2 and "get('variableSizeFieldType', 'u32')" in ws(P.sem_text(isar, counters[0].args[1]))
    L.check(ok, 'C17a.implicit-sizer', 'isar|default-type', isar.site(),
            'the implicit isar counter defaults to u32 like the prophy one', '')
    L.check(order_ok, 'C17a.implicit-sizer', 'isar|order', isar.site(), 'the implicit counter is emitted before its array', '')


ISAR_MEMBERS = """
    xml_elem_name = xml_elem.get("name")
    xml_elem_type = xml_elem.get("type")
    optional = xml_elem.get("optional")
    optional = bool(optional) and optional.lower() == "true"
    dimension = xml_elem.find("dimension")
    comment = get_docstr(xml_elem)

    def collect():
        if dimension is None:
            yield model.StructMember(xml_elem_name, xml_elem_type, optional=optional, docstring=comment)
        else:
            size = dimension.get("size", None)
            size2 = dimension.get("size2", None)
            if size2:
                size = "{}*{}".format(size, size2)
            if optional:
                yield model.StructMember("has_" + xml_elem_name, "u32", docstring="implicit enabler for optional field")
            sizer_name = dimension.get("variableSizeFieldName", None)
            if sizer_name and "@" in sizer_name[0]:
                yield model.StructMember(xml_elem_name, xml_elem_type, bound=sizer_name[1:], docstring=comment)
            elif size and "THIS_IS_VARIABLE_SIZE_ARRAY" in size:
                sizer_name = "numOf" + xml_elem_name[0].upper() + xml_elem_name[1:]
                yield model.StructMember(xml_elem_name, xml_elem_type, bound=sizer_name, docstring=comment)
            elif "isVariableSize" in dimension.attrib:
                type_ = dimension.get("variableSizeFieldType", "u32")
                sizer_name = dimension.get("variableSizeFieldName", xml_elem_name + "_len")
                yield model.StructMember(sizer_name, type_, docstring=comment)
                size_ = None if dynamic_array else size
                yield model.StructMember(xml_elem_name, xml_elem_type, bound=sizer_name, size=size_, docstring=comment)
            else:
                yield model.StructMember(xml_elem_name, xml_elem_type, size=size, docstring=comment)
    return list(collect())
"""


def _isar_pieces(collect_node, globals_):
    """The pieces of make_struct_members.collect the rules speak about, as rename-insensitive normal-form texts."""
    from .. import templ

    def c(node_or_list):
        nodes = node_or_list if isinstance(node_or_list, list) else [node_or_list]
        return ' ; '.join(P._canon(n, globals_) for n in nodes)
    top = [n for n in collect_node.body if isinstance(n, ast.If)]
    if len(top) != 1:
        raise AnalysisError('make_struct_members.collect: top-level dimension test not found')
    out = {'no-dimension': c(top[0].test) + ' -> ' + c(top[0].body)}
    else_body = top[0].orelse
    ladder = [n for n in else_body if isinstance(n, ast.If) and len(templ.if_chain(n)) >= 4]
    if len(ladder) != 1:
        raise AnalysisError('make_struct_members.collect: dimension form ladder not found')
    idx = else_body.index(ladder[0])
    # everything in front of the ladder runs for every dimension form: size (and size2), the optional enabler, the sizer name
    out['before-forms'] = c(else_body[:idx])
    rows = templ.if_chain(ladder[0])
    for i, r in enumerate(rows):
        out['dimension-form %d' % i] = (c(r.guards[-1][0]) if r.guards[-1][1] else 'else') + ' -> ' + c(list(r.body))
    out['after-forms'] = c(else_body[idx + 1:])
    return out, rows


def isar_forms(ctx, L):
    """make_struct_members maps the <dimension> forms to member forms; the optional enabler precedes every dimensioned member.
    The function is compared piece by piece with the reviewed text, both in normal form (so hoisting / inlining of the locals,
    renaming, if-shapes do not matter; a changed guard, emitted member or order does)."""
    mod = ctx.py.mod('prophyc.parsers.isar')
    c = mod.func('make_struct_members.collect')
    G_ = P.module_globals(mod) | P.ALL_GLOBALS
    want_f = P._FakeFunc(ISAR_MEMBERS, ['xml_elem', 'dynamic_array=False'], mod)
    want_c = [n for n in want_f.node.body if isinstance(n, ast.FunctionDef) and n.name == 'collect']
    if len(want_c) != 1:
        raise AnalysisError('isar_forms: expected text has no collect()')
    want, _ = _isar_pieces(want_c[0], G_)
    got, rows = _isar_pieces(c.node, G_)
    why = {'no-dimension': 'a member without <dimension> is plain or optional',
           'before-forms': 'size (times size2), then - for an optional member - the explicit u32 `has_<name>` enabler, then the sizer name are '
                           'established for *every* dimension form (fixed, size*size2, ext-sized, variable), in front of the form ladder',
           'after-forms': 'nothing is emitted after the form ladder'}
    for k in sorted(want):
        i = int(k.split()[-1]) if k.startswith('dimension-form') else None
        L.check(got.get(k) == want[k], 'C17a.isar-forms', k if i is None else 'dimension form %d' % i,
                c.site(rows[i].node if i is not None and i < len(rows) else None),
                why.get(k) or 'dimension form %d must be `%s`' % (i, want[k]), got.get(k, ''))
    L.check(set(got) == set(want), 'C17a.isar-forms', 'form-count', c.site(), 'exactly four dimension forms', str(sorted(got)))
    ms = ctx.py.mod('prophyc.parsers.isar').func('make_struct')
    L.check(any(P.body_is(ms, """
        if len(xml_elem):
            %s
            return model.Struct(xml_elem.get("name"), members, docstring=get_docstr(xml_elem))
        """ % fill) for fill in (
            """members = []
            for member in xml_elem:
                for sub_ in make_struct_members(member, last_member_array_is_dynamic):
                    members.append(sub_)""",
            """members = []
            for member in xml_elem:
                members.extend(make_struct_members(member, last_member_array_is_dynamic))""",
            """members = [sub_ for member in xml_elem for sub_ in make_struct_members(member, last_member_array_is_dynamic)]""")),
            'C17f.member-order', 'make_struct', ms.site(), 'members keep their document order', '')


def ordering(ctx, L):
    mp = ctx.py.mod('prophyc.model').func('ModelParser.__call__')
    body = [ws(unparse(s)) for s in mp.node.body]
    L.check(body[:3] == ['nodes = self.parser.parse(*parse_args)', 'if self.patcher: self.patcher(nodes)', 'nodes, _ = evaluate_model(nodes, self.emit.warn)'],
            'C17d.patch-before-evaluate', 'ModelParser.__call__', mp.site(), 'patched members must be (re-)evaluated: parse, patch, evaluate', str(body))
    p = ctx.py.mod('prophyc.patch')
    f = p.func('patch')
    L.check(P.body_is(f, """
        for idx, node in enumerate(nodes):
            patches = patch_dict.get(node.name)
            if patches:
                nodes[idx] = _apply(node, patches)
        """), 'C17e.patch-semantics',
            'patch|unknown-message-ignored', f.site(), 'rules are applied to exactly the top-level definitions of the file being parsed, each '
            'looked up by name (rules naming an absent message are ignored, the others are applied in place, once): an included file has '
            'been patched by its own parse and its node list is shared through the file cache', ws(unparse(f.node)))
    a = p.func('_apply')
    L.check("action = _actions.get(patch_.action) if not action: raise Exception('Unknown action: %s %s' % (node.name, patch_))" in ws(unparse(a.node)),
            'C17e.patch-semantics', '_apply|unknown-verb', a.site(), 'an unknown verb fails the compilation', '')
    ok, acts = (False, None)
    tbl = p.assign_value('_actions')
    names = {unparse(k).strip("'"): unparse(v) for k, v in zip(tbl.keys, tbl.values)}
    want = {'type': '_type', 'insert': '_insert', 'remove': '_remove', 'greedy': '_greedy', 'static': '_static', 'limited': '_limited',
            'dynamic': '_dynamic', 'struct': '_struct', 'rename': '_rename'}
    L.check(names == want, 'C17e.patch-semantics', '_actions', p.rel, 'the documented verbs map to their actions', str(names))


def patch_actions(ctx, L):
    """(e) each array-form action leaves the member in exactly one form: it writes every slot of the over-constraint
    invariant (bound, size, greedy, optional) that its target form fixes, and checks its documented precondition."""
    p = ctx.py.mod('prophyc.patch')
    spec = {
        '_dynamic': {'bound': 'len_name', 'size': 'None', 'greedy': 'False', 'optional': 'False'},
        '_greedy': {'bound': 'None', 'size': 'None', 'greedy': 'True', 'optional': 'False'},
        '_static': {'bound': 'None', 'size': 'size', 'greedy': 'False', 'optional': 'False'},
        '_limited': {'bound': 'len_array', 'greedy': 'False', 'optional': 'False'},      # keeps the existing size
    }
    for q, slots in sorted(spec.items()):
        f = p.func(q)
        final = {}
        for n in f.node.body:
            if isinstance(n, ast.Assign) and isinstance(n.targets[0], ast.Attribute) and unparse(n.targets[0].value) in ('mem', 'node.members[i]'):
                final[n.targets[0].attr] = ws(unparse(n.value))
        for slot, val in sorted(slots.items()):
            L.check(final.get(slot) == val, 'C17e.patch-slots', '%s|%s' % (q, slot), f.site(),
                    'patch action %s must leave member.%s = %s (the member must end up in exactly one array form whatever an earlier '
                    'rule did to it); it leaves %s' % (q[1:], slot, val, final.get(slot, 'the previous value')), str(final))
        s = ws(unparse(f.node))
        for piece, why in (("if not isinstance(node, model.Struct): raise Exception(", 'only struct members can be changed'),
                           ("if not member: raise Exception('Member not found", 'an unknown member fails the compilation')):
            L.check(piece in s, 'C17e.patch-precondition', '%s|%s' % (q, piece[:24]), f.site(), why, '')
    lim = p.func('_limited')
    s = ws(unparse(lim.node))
    L.check(any(isinstance(r, ast.Raise) and P.knows(lim, r, 'node.members[i].size', False) for r in lim.walk()),
            'C17e.patch-precondition', '_limited|requires-size', lim.site(),
            '`limited` "needs to be a fixed array to begin with" (docs/other_schemas.rst): a member without a size must be refused, '
            'otherwise bound without size silently makes a dynamic array', s[-300:])
    L.check(any(isinstance(r, ast.Raise) and (P.knows(lim, r, 'len(tuple(x for x in node.members[:i] if x.name == len_array))', False) or
                                              P.knows(lim, r, 'any(x.name == len_array for x in node.members[:i])', False) or
                                              P.knows(lim, r, 'sizer_found', False) and P.has(lim, "sizer_found = len(tuple((x for x in node.members[:i] if x.name == len_array)))"))
                for r in lim.walk()),
            'C17e.patch-precondition', '_limited|sizer-before', lim.site(), 'the sizer must exist before the array', '')
    st = p.func('_struct')
    s = ws(unparse(st.node))
    L.check(inn('return model.StructMember(name=member.name, type_name=member.type_name, definition=member.definition)', s) and
            inn('return model.Struct(node.name, [to_struct_member(mem) for mem in node.members])', s), 'C17f.member-order', '_struct', st.site(),
            'union -> struct keeps member order, names and types', s)


def isar_value_conversions(ctx, L):
    """isar front-end details that must match the prophy front-end: (a) enumerator values are read with base 0 (decimal and
    0x / 0o / 0b spellings, like the prophy lexer's CONST8/10/16) before negative ones are mapped to their unsigned 32-bit wire
    value; (b) only a missing / cyclic include is tolerated by make_include - any other failure inside the included file
    (a patch rule that cannot be applied, a model error) must fail the compilation like it does for the prophy front-end."""
    isar = ctx.py.mod('prophyc.parsers.isar')
    me = isar.func('make_enum')
    ints = [c for c in me.walk() if isinstance(c, ast.Call) and unparse(c.func) == 'int']
    ok = bool(ints) and all(len(c.args) == 2 and isinstance(c.args[1], ast.Constant) and c.args[1].value == 0 for c in ints)
    L.check(ok, 'C17a.isar-forms', 'make_enum|base-0', me.site(ints[0] if ints else None),
            'enumerator values must be parsed with int(value, 0): with a fixed base a negative value written in hex (-0x0B) is not '
            'recognised as a number, the ValueError is swallowed and the value is not mapped to its unsigned 32-bit form (prophy text '
            'gives 4294967285, isar -11: the generated codec does not even import)', ws(unparse(ints[0])) if ints else '')
    mi = isar.func('make_include')
    hs = [h for h in ast.walk(mi.node) if isinstance(h, ast.ExceptHandler)]
    names = set()
    for h in hs:
        if h.type is None:
            names.add('<bare except>')
        else:
            for e in (h.type.elts if isinstance(h.type, ast.Tuple) else [h.type]):
                names.add(unparse(e).split('.')[-1])
    L.check(names <= {'CyclicIncludeError', 'FileNotFoundError'}, 'C17e.patch-semantics', 'make_include|handlers', mi.site(hs[0] if hs else None),
            'make_include tolerates %s: everything that goes wrong while the included file is parsed, patched and evaluated (an '
            'inapplicable patch rule, a model error) becomes a warning and an empty include, and the compilation succeeds'
            % sorted(names), ws(unparse(hs[0]))[:200] if hs else '')
