"""E3 CallGraph + E4 ExcFlow: which exception classes may escape a root function, and from where.

Call resolution: lexical scope, module functions, imports, self/cls through the class hierarchy (up and
down), method-name families for receivers of unknown class (over-approximation, names confirmed by
reading), and the dispatch tables the repository declares (given per scope by the caller).
Exception sources: explicit `raise` + a fixed table of implicit raise sites (see IMPLICIT below).
"""
import ast

from .core import AnalysisError
from .pyfront import unparse, path_conditions, try_const, norm_key, terminates

BUILTIN_BASES = {
    'BaseException': None, 'Exception': 'BaseException', 'SystemExit': 'BaseException', 'KeyboardInterrupt': 'BaseException',
    'ArithmeticError': 'Exception', 'ZeroDivisionError': 'ArithmeticError', 'OverflowError': 'ArithmeticError',
    'LookupError': 'Exception', 'KeyError': 'LookupError', 'IndexError': 'LookupError',
    'ValueError': 'Exception', 'UnicodeError': 'ValueError', 'UnicodeDecodeError': 'UnicodeError',
    'UnicodeEncodeError': 'UnicodeError', 'TypeError': 'Exception', 'AttributeError': 'Exception',
    'AssertionError': 'Exception', 'OSError': 'Exception', 'IOError': 'Exception', 'EnvironmentError': 'Exception',
    'RuntimeError': 'Exception', 'RecursionError': 'RuntimeError', 'NotImplementedError': 'RuntimeError',
    'StopIteration': 'Exception', 'MemoryError': 'Exception', 'ImportError': 'Exception', 'NameError': 'Exception',
    'SyntaxError': 'Exception', 'struct.error': 'Exception', 'xml.ParseError': 'SyntaxError',
    'argparse.ArgumentTypeError': 'Exception',
}

# receivers whose methods never raise anything of interest / are not repository code
HARMLESS_METHODS = {
    'append', 'extend', 'insert', 'add', 'update', 'get', 'items', 'keys', 'values', 'join', 'format', 'split', 'strip',
    'startswith', 'endswith', 'replace', 'lower', 'upper', 'find', 'rfind', 'isdigit', 'count', 'setdefault', 'clear',
    'ljust', 'splitlines', 'readlines', 'write', 'sort', 'copy', 'encode_utf8', 'iterfind', 'findall', 'lineno', 'lexpos',
    'skip', 'pop', 'remove', 'index', 'union', 'isinstance', 'group', 'match', 'search', 'sub', 'title', 'rstrip', 'lstrip',
    'partition', 'rpartition', 'zfill', 'center', 'rjust', 'capitalize', 'expandtabs', 'difference', 'intersection',
    'popleft', 'appendleft', 'most_common', 'subtract', 'elements', 'fromkeys', 'isidentifier', 'isalpha', 'isalnum',
}


class CallGraph(object):
    def __init__(self, tree, scope_modules, dispatch=None, families=None):
        """scope_modules: module names analysed; dispatch: {callee source text or (func fq, callee text): [func specs]};
        families: set of method names resolved by name across the scope for receivers of unknown class."""
        self.tree = tree
        self.mods = [tree.mod(m) for m in scope_modules]
        self.dispatch = dispatch or {}
        self.families = families or set()
        self.funcs = [f for m in self.mods for f in m.all_funcs()]
        self.by_last = {}
        for f in self.funcs:
            self.by_last.setdefault(f.qualname.split('.')[-1], []).append(f)
        self.class_mod = {}
        for m in self.mods:
            for q in m.classes:
                self.class_mod.setdefault(q.split('.')[-1], []).append((m, q))
        self.unresolved = []
        self.edges = {}
        self._cache = {}

    # -- class hierarchy -------------------------------------------------------------------------
    def bases_of(self, cname):
        out = []
        for m, q in self.class_mod.get(cname, []):
            out.extend(b.split('.')[-1] for b in m.class_bases[q])
        return out

    def ancestors(self, cname, seen=None):
        seen = seen if seen is not None else set()
        for b in self.bases_of(cname):
            if b not in seen:
                seen.add(b)
                self.ancestors(b, seen)
        return seen

    def descendants(self, cname):
        out = set()
        for c in self.class_mod:
            if cname in self.ancestors(c):
                out.add(c)
        return out

    def methods(self, cname, mname):
        """Definitions of method mname visible on class cname: own, inherited, and overriding in subclasses."""
        out = []
        for c in [cname] + sorted(self.ancestors(cname)) + sorted(self.descendants(cname)):
            for m, q in self.class_mod.get(c, []):
                for f in m.funcs.get(q + '.' + mname, []):
                    out.append(f)
        return out

    # -- resolution ------------------------------------------------------------------------------
    def resolve(self, f, call):
        key = (id(f), id(call))
        if key in self._cache:
            return self._cache[key]
        out = self._resolve(f, call)
        self._cache[key] = out
        return out

    def spec(self, s):
        return self.tree.func(s) if isinstance(s, str) and ':' in s and '#' not in s else self._spec_idx(s)

    def _spec_idx(self, s):
        mod, rest = s.split(':')
        q, idx = rest.split('#')
        return self.tree.mod(mod).func(q, int(idx))

    def _resolve(self, f, call):
        func = call.func
        src = unparse(func)
        for k in ((f.fq, src), src):
            if k in self.dispatch:
                return [self.spec(s) if isinstance(s, str) else s for s in self.dispatch[k]]
        m = f.module
        if isinstance(func, ast.Name):
            name = func.id
            # lexical: nested functions of enclosing functions
            scope = f
            while scope is not None:
                for cand in m.funcs.get(scope.qualname + '.' + name, []):
                    return [cand]
                scope = scope.parent
            if f.cls:
                pass
            if name in m.funcs:
                return list(m.funcs[name])
            if name in m.classes:
                return list(m.funcs.get(name + '.__init__', [])) or self._inherited_init(name)
            tgt = m.imports.get(name)
            if tgt:
                mod, _, attr = tgt.rpartition('.')
                if mod in self.tree.modules:
                    tm = self.tree.modules[mod]
                    if attr in tm.funcs:
                        return list(tm.funcs[attr])
                    if attr in tm.classes:
                        return list(tm.funcs.get(attr + '.__init__', [])) or self._inherited_init(attr)
            return []
        if isinstance(func, ast.Attribute):
            recv, attr = func.value, func.attr
            rs = unparse(recv)
            if rs in ('self', 'cls') and f.cls:
                ms = self.methods(f.cls.split('.')[-1], attr)
                if ms:
                    return ms
            if isinstance(recv, ast.Call) and unparse(recv.func) == 'super':
                if f.cls:
                    out = []
                    for a in sorted(self.ancestors(f.cls.split('.')[-1])):
                        for mm, q in self.class_mod.get(a, []):
                            out.extend(mm.funcs.get(q + '.' + attr, []))
                    return out
            # module attribute: model.Struct(...), patch.parse(...)
            if isinstance(recv, ast.Name) and recv.id in m.imports:
                tgt = m.imports[recv.id]
                if tgt in self.tree.modules:
                    tm = self.tree.modules[tgt]
                    if attr in tm.funcs:
                        return list(tm.funcs[attr])
                    if attr in tm.classes:
                        return list(tm.funcs.get(attr + '.__init__', [])) or self._inherited_init(attr)
                    return []
                return []   # stdlib module
            # class attribute access  Cls.method(...)
            if isinstance(recv, ast.Name) and recv.id in self.class_mod:
                ms = self.methods(recv.id, attr)
                if ms:
                    return ms
            if attr in self.families:
                return [g for g in self.by_last.get(attr, []) if g.cls is not None or g.parent is not None]
            if attr not in HARMLESS_METHODS:
                self.unresolved.append((f.fq, src))
            return []
        return []

    def _defs_named(self, f, name):
        """Function definitions a bare name denotes in f's lexical scope or module (no dispatch table, no classes)."""
        m = f.module
        scope = f
        while scope is not None:
            if name in scope.params:
                return []
            c = m.funcs.get(scope.qualname + '.' + name)
            if c:
                return list(c)
            scope = scope.parent
        if name in m.funcs:
            return list(m.funcs[name])
        return []

    def mro(self, cname, seen=None):
        """Depth-first, left-to-right linearisation with later duplicates winning (close to C3 for this code base)."""
        out = [cname]
        for b in self.bases_of(cname):
            for x in self.mro(b):
                if x in out:
                    out.remove(x)
                out.append(x)
        return out

    def _inherited_init(self, cname):
        for a in self.mro(cname):
            for m, q in self.class_mod.get(a, []):
                if m.funcs.get(q + '.__init__'):
                    return list(m.funcs[q + '.__init__'])
        return []

    def calls_of(self, f):
        """[(node, [target Funcs])]: explicit calls plus the implicit dunder calls of `self[...] = v`,
        `del self[...]`, `x[:] = v` on repository array objects."""
        out = []
        for c in f.walk():
            if isinstance(c, ast.Call):
                out.append((c, self.resolve(f, c)))
                # functions passed as values (map(f, xs), _make_list(repr_fn, ...), reduce(f, ...)) are called by the callee
                for a in list(c.args) + [k.value for k in c.keywords]:
                    if isinstance(a, ast.Name):
                        t = self._defs_named(f, a.id)
                        if t:
                            out.append((c, t))
            elif isinstance(c, ast.Subscript) and isinstance(c.ctx, (ast.Store, ast.Del)):
                dunder = '__setitem__' if isinstance(c.ctx, ast.Store) else '__delitem__'
                recv = unparse(c.value)
                targets = []
                if recv in ('self',) and f.cls:
                    targets = self.methods(f.cls.split('.')[-1], dunder)
                elif (f.fq, recv + '[]') in self.dispatch or (recv + '[]') in self.dispatch:
                    k = (f.fq, recv + '[]') if (f.fq, recv + '[]') in self.dispatch else recv + '[]'
                    targets = [g for g in self.by_last.get(dunder, [])] if self.dispatch[k] == 'arrays' else []
                if targets:
                    out.append((c, targets))
        return out

    def reachable(self, roots):
        seen, stack = {}, list(roots)
        while stack:
            f = stack.pop()
            if id(f) in seen:
                continue
            seen[id(f)] = f
            for c, targets in self.calls_of(f):
                stack.extend(targets)
        return list(seen.values())


class Escape(object):
    __slots__ = ('cls', 'origin', 'key', 'via', 'text')

    def __init__(self, cls, origin, key, via, text):
        self.cls, self.origin, self.key, self.via, self.text = cls, origin, key, via, text


class ExcFlow(object):
    def __init__(self, cg, repo_exc_bases, implicit=True, none_sources=None, safe=None):
        """repo_exc_bases: {'ProphyError': 'Exception', ...} exception classes defined by the repository.
        safe: {(func fq, normalised construct): reason} suppressions, one named symbol each."""
        self.cg = cg
        self.bases = dict(BUILTIN_BASES)
        self.bases.update(repo_exc_bases)
        self.implicit = implicit
        # suppression keys are written as source text; they are compared in normal form (sa/canon.py) like the trees
        from . import canon as _cn
        self.safe = {}
        self.safe_divisors = {}      # fq -> [(regex over the divisor's source, why)]: one reason for every spelling of a division
        for (fq, text), why in (safe or {}).items():
            if text.startswith('ANY '):
                self.safe[(fq, text)] = why
                continue
            if text.startswith('DIVISOR ~ '):
                self.safe_divisors.setdefault(fq, []).append((text[len('DIVISOR ~ '):], why))
                continue
            nt = _cn.normal_text(text)
            self.safe[(fq, nt.strip() if nt else text)] = why
        self.used_safe = {}
        self.summaries = {}

    def is_sub(self, cls, sup):
        c = cls
        seen = 0
        while c is not None and seen < 20:
            if c == sup:
                return True
            c = self.bases.get(c)
            seen += 1
        return False

    def exc_name(self, f, node):
        """Class name of a raised/caught expression, qualified for repo classes that shadow builtins."""
        if node is None:
            return None
        if isinstance(node, ast.Call):
            node = node.func
        s = unparse(node)
        last = s.split('.')[-1]
        if s in ('struct.error',):
            return 'struct.error'
        tgt = f.module.imports.get(s.split('.')[0])
        if last in ('FileNotFoundError',):
            # prophyc.file_processor defines its own FileNotFoundError(Exception)
            if 'file_processor' in (tgt or '') or f.module.name.endswith('file_processor'):
                return 'file_processor.FileNotFoundError'
        if last == 'ParseError':
            if f.module.name.endswith('calc') or (tgt or '').endswith('calc'):
                return 'calc.ParseError'
            if (tgt or '').endswith('model') or f.module.name.endswith('model'):
                return 'model.ParseError'
            if 'ElementTree' in s:
                return 'xml.ParseError'
        if last == 'ArgumentTypeError':
            return 'argparse.ArgumentTypeError'
        return last

    # -- per-function local analysis -------------------------------------------------------------
    def local_sites(self, f):
        """[(stmt/expr node, exception class, description)] raised directly in f (not via callees)."""
        out = []
        for n in f.walk():
            if isinstance(n, ast.Raise):
                if n.exc is None:
                    out.append((n, '<reraise>', 'bare raise'))
                else:
                    out.append((n, self.exc_name(f, n.exc), 'raise ' + unparse(n.exc)[:60]))
            elif isinstance(n, ast.Assert):
                ok, v = try_const(n.test)
                if not (ok and v):
                    out.append((n, 'AssertionError', 'assert ' + unparse(n.test)[:60]))
            elif self.implicit:
                out.extend(self.implicit_sites(f, n))
        return out

    def implicit_sites(self, f, n):
        out = []
        if isinstance(n, ast.Call):
            fn = unparse(n.func)
            if fn == 'int' and n.args and not isinstance(n.args[0], ast.Constant):
                out.append((n, 'ValueError', 'int() of a non-literal'))
            elif fn in ('struct.unpack',):
                out.append((n, 'struct.error', 'struct.unpack'))
            elif fn in ('struct.pack',):
                out.append((n, 'struct.error', 'struct.pack'))
            elif fn == 'next' and len(n.args) == 1:
                out.append((n, 'StopIteration', 'next() without default'))
            elif fn.endswith('ElementTree.fromstring') or fn == 'ElementTree.fromstring':
                out.append((n, 'xml.ParseError', 'ElementTree.fromstring'))
            elif isinstance(n.func, ast.Attribute) and n.func.attr == 'format' and not self._literal_template(f, n.func.value):
                # the template is computed: a brace in the data that flows into it is read as a replacement field
                out.append((n, 'KeyError', 'str.format of a computed template'))
            elif fn in ('codecs.open', 'open'):
                out.append((n, 'OSError', 'open'))
            elif fn.endswith('.read') and isinstance(n.func.value, ast.Name) and any(
                    isinstance(w, ast.With) and any(it.optional_vars is not None and unparse(it.optional_vars) == n.func.value.id
                                                    and 'open' in unparse(it.context_expr) for it in w.items)
                    for w in ast.walk(f.node)):
                out.append((n, 'UnicodeDecodeError', 'read() of a utf-8 decoded file'))
        elif isinstance(n, ast.BinOp):
            if isinstance(n.op, (ast.Div, ast.FloorDiv, ast.Mod)):
                ok, v = try_const(n.right)
                stringy = isinstance(n.left, (ast.Constant, ast.JoinedStr)) and isinstance(getattr(n.left, 'value', ''), str)
                if not stringy and not (ok and v) and not self._is_format_mod(n):
                    out.append((n, 'ZeroDivisionError', 'division by a non-constant'))
            elif isinstance(n.op, (ast.LShift, ast.RShift)):
                ok, v = try_const(n.right)
                if not (ok and isinstance(v, int) and v >= 0):
                    out.append((n, 'ValueError', 'shift by a non-constant (negative count)'))
                if isinstance(n.op, ast.LShift) and not (ok and isinstance(v, int) and v < 4096):
                    out.append((n, 'MemoryError', 'left shift by an unbounded count'))
        elif isinstance(n, ast.Assign) and isinstance(n.targets[0], ast.Tuple) and \
                not any(isinstance(e, ast.Starred) for e in n.targets[0].elts):
            v = n.value
            if isinstance(v, (ast.Subscript, ast.Attribute, ast.Name)):
                out.append((n, 'ValueError', 'unpacking %d values from %s' % (len(n.targets[0].elts), unparse(v)[:40])))
        elif isinstance(n, ast.Subscript) and isinstance(n.ctx, ast.Load):
            kind = self._mapping_kind(f, n.value)
            if kind == 'dict':
                okc, key = try_const(n.slice)
                if not (okc and self._literal_has_key(f, n.value, key)):
                    out.append((n, 'KeyError', 'lookup in a dict: ' + unparse(n)[:50]))
        return out

    @staticmethod
    def _is_format_mod(n):
        # "..." % x   or   name % (...) where the left operand is a template string
        if not isinstance(n.op, ast.Mod):
            return False
        if isinstance(n.left, ast.Constant) and isinstance(n.left.value, str):
            return True
        if isinstance(n.right, (ast.Tuple, ast.Dict)):
            return True
        if isinstance(n.left, ast.Name) and (n.left.id.endswith(('template', 'msg', 'fmt', 'forbidden')) or
                                             n.left.id.isupper()):
            return True
        if isinstance(n.left, ast.BinOp) and isinstance(n.left.op, ast.Add):
            return True
        return False

    def _binding(self, f, name):
        """The unique assignment `name = <value>` visible from f (local, enclosing, module)."""
        scope = f
        while scope is not None:
            vals = [s.value for s in scope.walk() if isinstance(s, ast.Assign) and len(s.targets) == 1
                    and isinstance(s.targets[0], ast.Name) and s.targets[0].id == name]
            if vals:
                return vals
            if name in scope.params:
                return []
            scope = scope.parent
        vals = [s.value for s in f.module.tree.body if isinstance(s, ast.Assign) and len(s.targets) == 1
                and isinstance(s.targets[0], ast.Name) and s.targets[0].id == name]
        return vals

    def _mapping_kind(self, f, base):
        vals = []
        if isinstance(base, ast.Name):
            vals = self._binding(f, base.id)
        elif isinstance(base, ast.Attribute) and unparse(base.value) in ('self', 'cls') and f.cls:
            # attribute assigned a dict in __init__ / class body
            m = f.module
            for g in m.all_funcs():
                if g.cls == f.cls:
                    vals += [s.value for s in g.walk() if isinstance(s, ast.Assign) and unparse(s.targets[0]) == unparse(base)]
        elif isinstance(base, ast.Attribute) and isinstance(base.value, ast.Name):
            tgt = f.module.imports.get(base.value.id)
            if tgt in self.cg.tree.modules:
                tm = self.cg.tree.modules[tgt]
                vals = [s.value for s in tm.tree.body if isinstance(s, ast.Assign) and isinstance(s.targets[0], ast.Name)
                        and s.targets[0].id == base.attr]
        if vals and all(isinstance(v, (ast.Dict, ast.DictComp)) or (isinstance(v, ast.Call) and unparse(v.func) in ('dict', 'defaultdict'))
                        for v in vals):
            if any(isinstance(v, ast.Call) and unparse(v.func) == 'defaultdict' for v in vals):
                return None
            return 'dict'
        return None

    def _literal_has_key(self, f, base, key):
        if isinstance(base, ast.Name):
            for v in self._binding(f, base.id):
                if isinstance(v, ast.Dict):
                    ok, d = try_const(v)
                    if ok and key in d:
                        return True
        return False

    def _literal_template(self, f, e):
        """Is the receiver of .format() a string literal (directly, by concatenation / repetition of literals, or a module- /
        class-level name bound to one)?"""
        if isinstance(e, ast.Constant) and isinstance(e.value, str):
            return True
        if isinstance(e, ast.JoinedStr):
            return False
        if isinstance(e, ast.BinOp) and isinstance(e.op, (ast.Add, ast.Mult, ast.Mod)):
            return self._literal_template(f, e.left) and (isinstance(e.op, ast.Mult) or isinstance(e.op, ast.Mod) or self._literal_template(f, e.right))
        if isinstance(e, ast.Name):
            m = f.module
            vals = [st.value for st in m.tree.body if isinstance(st, ast.Assign) for t in st.targets if isinstance(t, ast.Name) and t.id == e.id]
            if vals and all(self._literal_template(f, v) for v in vals):
                return True
            # a local bound once to a literal
            loc = [a.value for a in f.walk() if isinstance(a, ast.Assign) and len(a.targets) == 1 and isinstance(a.targets[0], ast.Name)
                   and a.targets[0].id == e.id]
            return bool(loc) and all(self._literal_template(f, v) for v in loc)
        if isinstance(e, ast.Attribute) and isinstance(e.value, ast.Name) and e.value.id in ('self', 'cls') and f.cls:
            c = f.module.classes.get(f.cls)
            if c is not None:
                vals = [st.value for st in c.body if isinstance(st, ast.Assign) for t in st.targets if isinstance(t, ast.Name) and t.id == e.attr]
                return bool(vals) and all(self._literal_template(f, v) for v in vals)
        if isinstance(e, ast.Call) and isinstance(e.func, ast.Attribute) and e.func.attr in ('join', 'strip', 'lstrip', 'rstrip') \
                and self._literal_template(f, e.func.value) and all(self._literal_template(f, a) for a in e.args):
            return True
        return False

    # -- guards that discharge implicit sites ----------------------------------------------------
    def discharged(self, f, node, cls, desc):
        """Path conditions arrive in atomic normal form (pyfront.atomise): conjunctions split, `not` removed, a failed comparison
        turned into the opposite comparison that holds; only `<`, `<=`, `==`, `!=`, `in`, `not in`, `is`, `is not` occur."""
        import re

        def txt(e):
            return re.sub(r'[\s()]', '', unparse(e))
        conds = [(t, pol, how) for t, pol, how in path_conditions(f.module, f, node)]
        if cls == 'ValueError' and desc.startswith('int()') and isinstance(node, ast.Call) and node.args:
            arg = unparse(node.args[0])
            for t, pol, how in conds:
                if pol and unparse(t) == '_is_int(%s)' % arg:
                    return '_is_int guard'
        if cls == 'ValueError' and desc.startswith('unpacking'):
            n = len(node.targets[0].elts)
            v = unparse(node.value)
            base = v[:-len('[:%d]' % n)] if v.endswith('[:%d]' % n) else None
            for t, pol, how in conds:
                s = txt(t)
                if pol and s in (txt(ast.parse('len(%s)==%d' % (v, n)).body[0].value), txt(ast.parse('%d==len(%s)' % (n, v)).body[0].value)):
                    return 'len guard'
                # `a, b = words[:2]` after `if len(words) < 2: raise`  (fact: 2 <= len(words))
                if base and pol and how.startswith('early-exit') and s in (re.sub(r'[\s()]', '', '%d<=len%s' % (n, base)), re.sub(r'[\s()]', '', '%d<len%s' % (n - 1, base))):
                    return 'len guard'
            return None
        if cls == 'KeyError' and isinstance(node, ast.Subscript):
            base, key = unparse(node.value), unparse(node.slice)
            for t, pol, how in conds:
                if pol and unparse(t) == '%s in %s' % (key, base):
                    return 'membership guard'
            return None
        if cls == 'struct.error' and desc == 'struct.unpack' and len(node.args) == 2:
            sl = txt(node.args[1])
            mm = re.match(r'^(\w+)\[(\w+):\2\+(\w+)\]$', sl)
            if mm:
                data, pos, size = mm.groups()
                for t, pol, how in conds:
                    if how.startswith('early-exit:raise') and pol and txt(t) in ('%s<=len%s-%s' % (size, data, pos),
                                                                                 '%s+%s<=len%s' % (pos, size, data), '%s+%s<=len%s' % (size, pos, data)):
                        return 'remaining-length guard'
            return None
        return None

    # -- try/except ------------------------------------------------------------------------------
    def handlers_for(self, f, node):
        """Chain of (Try node, [handler class names], handler nodes) enclosing node's try *body*."""
        out = []
        m = f.module
        n = node
        while n is not f.node and n is not None:
            p = m.parent(n)
            if isinstance(p, ast.Try) and any(s is n for s in p.body):
                hs = []
                for h in p.handlers:
                    if h.type is None:
                        hs.append(('BaseException', h))
                    elif isinstance(h.type, ast.Tuple):
                        for e in h.type.elts:
                            hs.append((self.exc_name(f, e), h))
                    else:
                        hs.append((self.exc_name(f, h.type), h))
                out.append((p, hs))
            n = p
        return out

    def caught(self, f, node, cls):
        for tr, hs in self.handlers_for(f, node):
            for hc, h in hs:
                if self.is_sub(cls, hc):
                    return h
        return None

    def enclosing_handler(self, f, node):
        m = f.module
        n = node
        while n is not f.node and n is not None:
            p = m.parent(n)
            if isinstance(p, ast.ExceptHandler):
                return p
            n = p
        return None

    # -- fixpoint --------------------------------------------------------------------------------
    def analyse(self, roots):
        funcs = self.cg.reachable(roots)
        summ = {id(f): {} for f in funcs}     # id -> {(cls, key): Escape}
        by_id = {id(f): f for f in funcs}
        with_ctx = {}
        changed = True
        rounds = 0
        local = {id(f): self.local_sites(f) for f in funcs}
        # construct keys are alpha-normalised (stable under renaming of locals); when two *different* constructs of one
        # function collapse to the same normal form the original text is kept so that they stay distinct
        self._keytext = {}
        for f in funcs:
            groups = {}
            for node, cls, desc in local[id(f)]:
                tgt = node.exc if isinstance(node, ast.Raise) and node.exc is not None else node
                groups.setdefault((cls, norm_key(f, tgt)), set()).add(unparse(tgt))
            for node, cls, desc in local[id(f)]:
                tgt = node.exc if isinstance(node, ast.Raise) and node.exc is not None else node
                nk = norm_key(f, tgt)
                self._keytext[(id(f), id(node))] = nk if len(groups[(cls, nk)]) == 1 else ' '.join(unparse(tgt).split())
        calls = {id(f): self.cg.calls_of(f) for f in funcs}
        # `with cm(...)`: a generator context manager's except clauses guard the with-body
        while changed and rounds < 50:
            changed = False
            rounds += 1
            for f in funcs:
                cur = summ[id(f)]
                new = {}
                for node, cls, desc in local[id(f)]:
                    if cls == '<reraise>':
                        h = self.enclosing_handler(f, node)
                        if h is None:
                            continue
                        # re-raises whatever the handler caught: approximated by callee/explicit escapes of the try body
                        continue
                    kt = self._keytext[(id(f), id(node))]
                    key = '%s|%s' % (f.fq, kt)
                    sk = (f.fq, kt)
                    if sk in self.safe:
                        self.used_safe[sk] = self.safe[sk]
                        continue
                    anyk = (f.fq, 'ANY ' + cls)
                    if anyk in self.safe:      # one reason for every site of this class in the function (any spelling)
                        self.used_safe[anyk] = self.safe[anyk]
                        continue
                    if cls == 'ZeroDivisionError' and isinstance(node, ast.BinOp):
                        import re as _re
                        hit = [(rx, why) for rx, why in self.safe_divisors.get(f.fq, ()) if _re.search(rx, unparse(node.right))]
                        if hit:
                            self.used_safe[(f.fq, 'DIVISOR ~ ' + hit[0][0])] = hit[0][1]
                            continue
                    if not isinstance(node, (ast.Raise, ast.Assert)) and self.discharged(f, node, cls, desc):
                        continue
                    if self.caught(f, node, cls) is not None:
                        continue
                    if self._with_guard(f, node, cls):
                        continue
                    new[(cls, key)] = Escape(cls, f.site(node), key, [f.fq], desc)
                for c, targets in calls[id(f)]:
                    for g in targets:
                        for (cls, key), e in summ.get(id(g), {}).items():
                            if self.caught(f, c, cls) is not None:
                                continue
                            if self._with_guard(f, c, cls):
                                continue
                            if (cls, key) not in new:
                                new[(cls, key)] = Escape(cls, e.origin, key, [f.fq] + e.via[:6], e.text)
                if set(new) != set(cur):
                    summ[id(f)] = new
                    changed = True
        # for the roots: through which first-hop callees does each escape leave (all of them, not just the first found)
        self.root_routes = {}
        for f in roots:
            for c, targets in calls[id(f)]:
                for g in targets:
                    for (cls, key) in summ.get(id(g), {}):
                        if self.caught(f, c, cls) is None and not self._with_guard(f, c, cls):
                            self.root_routes.setdefault((cls, key), set()).add(g.fq)
        self.summaries = {by_id[i].fq: v for i, v in summ.items()}
        self.funcs = funcs
        return {f.fq: summ[id(f)] for f in roots}

    def _with_guard(self, f, node, cls):
        """Inside `with cm(...)` where cm is a @contextmanager generator whose try/except around the yield catches cls."""
        m = f.module
        n = node
        while n is not f.node and n is not None:
            p = m.parent(n)
            if isinstance(p, ast.With) and any(s is n for s in p.body):
                for item in p.items:
                    ce = item.context_expr
                    if isinstance(ce, ast.Call):
                        for g in self.cg.resolve(f, ce):
                            for tr in [x for x in g.walk() if isinstance(x, ast.Try)]:
                                if any(isinstance(y, (ast.Yield,)) for s in tr.body for y in ast.walk(s)):
                                    for h in tr.handlers:
                                        types = h.type.elts if isinstance(h.type, ast.Tuple) else [h.type]
                                        for t in types:
                                            hc = 'BaseException' if t is None else self.exc_name(g, t)
                                            if self.is_sub(cls, hc):
                                                return True
            n = p
        return False
