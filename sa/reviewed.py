"""Reference comparison (DESIGN 11.2): is the function an obligation looks at - in normal form - the function on which the
obligation was confirmed when the rule was written? `/verif/reference/src` holds those sources (tools/gen_baseline.py).

Used only for obligations that are *local* to the function named in their site: rules whose verdict depends on other code
(exception escape, progress, sibling comparison, cross-function predicate agreement, C++ rules) are excluded."""
import os
import re

from . import pyfront

HERE = os.path.dirname(os.path.dirname(os.path.abspath(__file__)))
REF_ROOT = os.path.join(HERE, 'reference', 'src')

# rule families whose verdict is not a function of the one function in the site
NOT_LOCAL = ('F7.', 'F12.', 'F6cxx.', 'F5', 'F13.', 'F1cxx.', 'F2cxx.', 'F3cxx.', 'SELFTEST.', 'F1.sibling-mirror', 'E6.dynamic-field-predicate',
             'C14b.precedence', 'C07.', 'F11.nondeterminism-source', 'F11.shared-state', 'C16e.', 'F16.pass-order', 'C09.swap',
             'C18.byte-operators', 'C18.escape-table', 'C18.format-pieces', 'F15.', 'C10c.', 'C10e.')

SITE = re.compile(r'^(\S+\.py):\d+ \((.+)\)$')


class Reviewed(object):
    def __init__(self, tree):
        self.tree = tree
        self._ref = None
        self._cache = {}

    def ref(self):
        if self._ref is None:
            self._ref = pyfront.Tree(REF_ROOT) if os.path.isdir(REF_ROOT) else False
        return self._ref

    def unchanged(self, rel, qualname):
        from .rules import shared_py as P
        k = (rel, qualname)
        if k not in self._cache:
            ok = False
            ref = self.ref()
            if ref:
                try:
                    cur = [m for m in self.tree.modules.values() if m.rel == rel]
                    old = [m for m in ref.modules.values() if m.rel == rel]
                    if cur and old and qualname in cur[0].funcs and qualname in old[0].funcs:
                        a = [P.sem_body(f) for f in cur[0].funcs[qualname]]
                        b = [P.sem_body(f) for f in old[0].funcs[qualname]]
                        ok = a == b
                except Exception:
                    ok = False
            self._cache[k] = ok
        return self._cache[k]

    def __call__(self, o):
        if os.environ.get('SA_NO_REFERENCE'):
            return False
        if any(o.rule.startswith(p) for p in NOT_LOCAL):
            return False
        m = SITE.match(o.site or '')
        if not m:
            return False
        for d in getattr(o, 'deps', ()) or ():
            if d is None or not self.unchanged(d.module.rel, d.qualname):
                return False
        return self.unchanged(m.group(1), m.group(2))
