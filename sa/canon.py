"""Normal form of Python source (E1b): the analysed trees and every expected fragment of the rules are rewritten by the
same semantics-preserving normaliser before they are compared, so that a rule states *what* a construct computes and not
how a maintainer happened to spell it. Behaviour-preserving edits that map to the same normal form:

  N1  `x = x + e`                         ==  `x += e`
  N2  `b > a`, `b >= a`                   ==  `a < b`, `a <= b`
  N3  `a <= v <= b`                       ==  `a <= v and v <= b`;  `not` is pushed inwards (De Morgan, negated comparison)
  N4  `if not c: A else: B`               ==  `if c: B else: A`
      `if c: A(ends in return/raise/continue/break) else: B`  ==  `if c: A` followed by B
      when both branches leave the block the smaller one becomes the guarded early exit
  N5  `[f(x) for x in xs]` as a statement ==  `for x in xs: f(x)`
  N6  `list()`, `dict()`, `tuple()`       ==  `[]`, `{}`, `()`
  N7  `isinstance(x, (B, A))`             ==  `isinstance(x, (A, B))`  (tuple members sorted)
  N8  parentheses, line breaks, comments, docstring-free (ast.unparse)
  N9  `max(b, a)`, `min(b, a)`            ==  `max(a, b)`, `min(a, b)`  (arguments sorted)

Assumption (stated in DESIGN): ordering comparisons are between totally ordered values (ints, strings), so that
`not a <= b` is `b < a`; none of the analysed code orders sets or floats that may be NaN.

Renaming of locals is handled at comparison time (shared_py._canon / piece_regex), not here.
"""
import ast
import copy
import os

TERMINATORS = (ast.Return, ast.Raise, ast.Continue, ast.Break)
NEG = {ast.Lt: ast.GtE, ast.LtE: ast.Gt, ast.Gt: ast.LtE, ast.GtE: ast.Lt, ast.Eq: ast.NotEq, ast.NotEq: ast.Eq,
       ast.In: ast.NotIn, ast.NotIn: ast.In, ast.Is: ast.IsNot, ast.IsNot: ast.Is}
SWAP = {ast.Gt: ast.Lt, ast.GtE: ast.LtE}
NEGATIVE_OPS = (ast.NotEq, ast.NotIn, ast.IsNot)


def terminates(stmts):
    """The statement list never falls through its end."""
    if not stmts:
        return False
    last = stmts[-1]
    if isinstance(last, TERMINATORS):
        return True
    if isinstance(last, ast.If):
        return terminates(last.body) and terminates(last.orelse)
    if isinstance(last, ast.With):
        return terminates(last.body)
    return False


def exit_rank(stmts):
    """error exits are the guarded branch before loop exits before returns (stable under edits of messages / values)"""
    last = stmts[-1]
    while isinstance(last, (ast.If, ast.With)) and last.body:
        last = last.body[-1]
    return 0 if isinstance(last, ast.Raise) else 1 if isinstance(last, (ast.Continue, ast.Break)) else 2


def size(stmts):
    return sum(1 for s in stmts for _ in ast.walk(s))


def loc(new, old):
    return ast.copy_location(new, old)


def negate(e):
    """A normalised expression equivalent to `not e`."""
    if isinstance(e, ast.UnaryOp) and isinstance(e.op, ast.Not):
        return e.operand
    if isinstance(e, ast.Compare) and len(e.ops) == 1:
        return norm_compare(loc(ast.Compare(left=e.left, ops=[NEG[type(e.ops[0])]()], comparators=e.comparators), e))
    if isinstance(e, ast.BoolOp):
        op = ast.Or() if isinstance(e.op, ast.And) else ast.And()
        return loc(ast.BoolOp(op=op, values=[negate(v) for v in e.values]), e)
    if isinstance(e, ast.Constant) and isinstance(e.value, bool):
        return loc(ast.Constant(value=not e.value), e)
    return loc(ast.UnaryOp(op=ast.Not(), operand=e), e)


def norm_compare(e):
    """single comparison: `b > a` -> `a < b`; the operands of == and != in a fixed order"""
    if len(e.ops) == 1 and type(e.ops[0]) in SWAP:
        return loc(ast.Compare(left=e.comparators[0], ops=[SWAP[type(e.ops[0])]()], comparators=[e.left]), e)
    if len(e.ops) == 1 and isinstance(e.ops[0], (ast.Eq, ast.NotEq)):
        a, b = e.left, e.comparators[0]
        ka, kb = (isinstance(a, ast.Constant), ast.unparse(a)), (isinstance(b, ast.Constant), ast.unparse(b))
        if kb < ka:
            return loc(ast.Compare(left=b, ops=[e.ops[0]], comparators=[a]), e)
    return e


def neg_score(e):
    """(negations, weak comparisons): `not a or c <= b` scores higher than its dual `a and b < c`."""
    nots = sum(1 for n in ast.walk(e) if (isinstance(n, ast.UnaryOp) and isinstance(n.op, ast.Not)) or
               (isinstance(n, ast.Compare) and any(isinstance(o, NEGATIVE_OPS) for o in n.ops)))
    weak = sum(1 for n in ast.walk(e) if isinstance(n, ast.Compare) and any(isinstance(o, (ast.LtE, ast.GtE)) for o in n.ops))
    ors = sum(1 for n in ast.walk(e) if isinstance(n, ast.BoolOp) and isinstance(n.op, ast.Or))
    return (nots, weak, ors)


def is_negative(e):
    return (isinstance(e, ast.UnaryOp) and isinstance(e.op, ast.Not)) or \
        (isinstance(e, ast.Compare) and len(e.ops) == 1 and isinstance(e.ops[0], NEGATIVE_OPS))


class Normaliser(ast.NodeTransformer):
    # ---------------------------------------------------------------- expressions
    def visit_Compare(self, node):
        self.generic_visit(node)
        if len(node.ops) > 1:
            parts = []
            left = node.left
            for op, right in zip(node.ops, node.comparators):
                parts.append(norm_compare(loc(ast.Compare(left=copy.deepcopy(left), ops=[op], comparators=[right]), node)))
                left = right
            return loc(ast.BoolOp(op=ast.And(), values=parts), node)
        return norm_compare(node)

    def visit_UnaryOp(self, node):
        if isinstance(node.op, ast.Not):
            node.operand = self._unbool(node.operand)
        self.generic_visit(node)
        if isinstance(node.op, ast.Not):
            node.operand = self._unbool(node.operand)
            inner = node.operand
            if isinstance(inner, (ast.Compare, ast.BoolOp)) or (isinstance(inner, ast.UnaryOp) and isinstance(inner.op, ast.Not)
                                                                 and self._boolean_operand(inner.operand)):
                return negate(inner)
        return node

    @staticmethod
    def _boolean_operand(e):
        return isinstance(e, (ast.Compare, ast.BoolOp)) or (isinstance(e, ast.UnaryOp) and isinstance(e.op, ast.Not)) or \
            (isinstance(e, ast.Call) and isinstance(e.func, ast.Name) and e.func.id in ('isinstance', 'issubclass', 'bool', 'any', 'all',
                                                                                       'hasattr', 'callable'))

    def visit_SetComp(self, node):
        self.generic_visit(node)
        # N19: a set comprehension is set(<generator expression>)
        return loc(ast.Call(func=loc(ast.Name(id='set', ctx=ast.Load()), node),
                            args=[loc(ast.GeneratorExp(elt=node.elt, generators=node.generators), node)], keywords=[]), node)

    def visit_BoolOp(self, node):
        self.generic_visit(node)
        # flatten nested same-operator chains: (a and b) and c
        vals = []
        for v in node.values:
            if isinstance(v, ast.BoolOp) and type(v.op) is type(node.op):
                vals.extend(v.values)
            else:
                vals.append(v)
        node.values = vals
        # N11: `A and B or C` is `B if A else C` whenever a falsy B gives the same result: C is the falsy value of B's kind
        # (`x and n or 0`, `s and t or ''`) or B cannot be falsy (a non-empty literal, str(...) of a number)
        if isinstance(node.op, ast.Or) and len(node.values) == 2 and isinstance(node.values[0], ast.BoolOp) \
                and isinstance(node.values[0].op, ast.And) and len(node.values[0].values) >= 2:
            conds, b, c = node.values[0].values[:-1], node.values[0].values[-1], node.values[1]
            falsy_c = isinstance(c, ast.Constant) and c.value in (0, '', b'') and not isinstance(c.value, bool)
            truthy_b = (isinstance(b, ast.Constant) and bool(b.value)) or \
                (isinstance(b, ast.Call) and isinstance(b.func, ast.Name) and b.func.id == 'str' and len(b.args) == 1) or \
                (isinstance(b, ast.Call) and isinstance(b.func, ast.Attribute) and b.func.attr == 'join' and isinstance(b.func.value, ast.Name)
                 and len(b.args) == 1 and isinstance(b.args[0], ast.Tuple) and len(b.args[0].elts) >= 1
                 and any(isinstance(x, ast.Constant) and x.value for x in b.args[0].elts))
            if falsy_c or truthy_b:
                test = conds[0] if len(conds) == 1 else loc(ast.BoolOp(op=ast.And(), values=conds), node)
                return loc(ast.IfExp(test=test, body=b, orelse=c), node)
        return node

    CONSUMERS = ('any', 'all', 'sum', 'max', 'min', 'sorted', 'tuple', 'set', 'frozenset', 'list', 'dict')

    def visit_Call(self, node):
        self.generic_visit(node)
        # N16: a list comprehension that is only consumed is the generator expression
        if len(node.args) == 1 and not node.keywords and isinstance(node.args[0], ast.ListComp) and (
                (isinstance(node.func, ast.Name) and node.func.id in self.CONSUMERS) or
                (isinstance(node.func, ast.Attribute) and node.func.attr == 'join')):
            lc = node.args[0]
            node.args[0] = loc(ast.GeneratorExp(elt=lc.elt, generators=lc.generators), lc)
        # `list(sorted(x))` is `sorted(x)`
        if isinstance(node.func, ast.Name) and node.func.id == 'list' and len(node.args) == 1 and not node.keywords \
                and isinstance(node.args[0], ast.Call) and isinstance(node.args[0].func, ast.Name) and node.args[0].func.id == 'sorted':
            return node.args[0]
        if isinstance(node.func, ast.Name) and not node.args and not node.keywords:
            if node.func.id == 'list':
                return loc(ast.List(elts=[], ctx=ast.Load()), node)
            if node.func.id == 'dict':
                return loc(ast.Dict(keys=[], values=[]), node)
            if node.func.id == 'tuple':
                return loc(ast.Tuple(elts=[], ctx=ast.Load()), node)
        if isinstance(node.func, ast.Name) and node.func.id in ('max', 'min') and len(node.args) >= 2 and not node.keywords \
                and not any(isinstance(a, ast.Starred) for a in node.args):
            node.args = sorted(node.args, key=ast.unparse)        # N9: max / min of numbers do not depend on argument order
        if isinstance(node.func, ast.Name) and node.func.id in ('isinstance', 'issubclass') and len(node.args) == 2 \
                and isinstance(node.args[1], ast.Tuple):
            node.args[1].elts = sorted(node.args[1].elts, key=ast.unparse)
        return node

    # ---------------------------------------------------------------- statements
    def visit_AugAssign(self, node):
        self.generic_visit(node)
        # N17: `xs += [e]` is `xs.append(e)`
        if isinstance(node.op, ast.Add) and isinstance(node.target, ast.Name) and isinstance(node.value, ast.List) and len(node.value.elts) == 1 \
                and not isinstance(node.value.elts[0], ast.Starred):
            call = ast.Call(func=ast.Attribute(value=ast.Name(id=node.target.id, ctx=ast.Load()), attr='append', ctx=ast.Load()),
                            args=[node.value.elts[0]], keywords=[])
            return loc(ast.Expr(value=loc(call, node)), node)
        return node

    @staticmethod
    def _value_used(node):
        return True

    @staticmethod
    def _unbool(e):
        """N18: bool(x) in a boolean position is x"""
        while isinstance(e, ast.Call) and isinstance(e.func, ast.Name) and e.func.id == 'bool' and len(e.args) == 1 and not e.keywords:
            e = e.args[0]
        # N36: `len(tuple(x for x in it if c))` in a boolean position is `any(c for x in it)`
        if isinstance(e, ast.Call) and isinstance(e.func, ast.Name) and e.func.id == 'len' and len(e.args) == 1 and not e.keywords:
            c = e.args[0]
            if isinstance(c, ast.Call) and isinstance(c.func, ast.Name) and c.func.id in ('tuple', 'list') and len(c.args) == 1 and not c.keywords:
                c = c.args[0]
            if isinstance(c, (ast.GeneratorExp, ast.ListComp)) and len(c.generators) == 1 and is_pure(c.elt):
                g = c.generators[0]
                cond = ast.Constant(value=True) if not g.ifs else g.ifs[0] if len(g.ifs) == 1 else ast.BoolOp(op=ast.And(), values=list(g.ifs))
                gen = ast.comprehension(target=g.target, iter=g.iter, ifs=[], is_async=0)
                return loc(ast.Call(func=loc(ast.Name(id='any', ctx=ast.Load()), e), args=[loc(ast.GeneratorExp(elt=loc(cond, e), generators=[gen]), e)],
                                    keywords=[]), e)
        return e

    def visit_Return(self, node):
        self.generic_visit(node)
        if isinstance(node.value, ast.Constant) and node.value.value is None:
            node.value = None           # `return None` is `return`
        return node

    def visit_If(self, node):
        node.test = self._unbool(node.test)
        self.generic_visit(node)
        node.test = self._unbool(node.test)
        return node

    def visit_While(self, node):
        node.test = self._unbool(node.test)
        self.generic_visit(node)
        return node

    def visit_IfExp(self, node):
        node.test = self._unbool(node.test)
        self.generic_visit(node)
        return node

    def visit_Assign(self, node):
        self.generic_visit(node)
        if len(node.targets) == 1 and isinstance(node.value, ast.BinOp) and isinstance(node.targets[0], (ast.Name, ast.Attribute, ast.Subscript)) \
                and ast.unparse(node.targets[0]) == ast.unparse(node.value.left):
            tgt = copy.deepcopy(node.targets[0])
            return loc(ast.AugAssign(target=tgt, op=node.value.op, value=node.value.right), node)
        return node

    def _block(self, stmts, exit_stmt=None):
        """Normalises a statement list (children first), then the If shapes that depend on what follows. `exit_stmt` is what
        falling off the end of this block means (`return` for a function body, `continue` for a loop body)."""
        out = []
        for s in stmts:
            r = self.visit(s)
            if r is None:
                continue
            out.extend(r if isinstance(r, list) else [r])
        out = self._ifs(out, exit_stmt)
        # an explicit exit at the very end of the block says nothing
        while exit_stmt is not None and len(out) > 1 and type(out[-1]) is type(exit_stmt) and getattr(out[-1], 'value', None) is None:
            out = out[:-1]
        return out

    def _ifs(self, stmts, exit_stmt=None):
        out = []
        i = 0
        while i < len(stmts):
            s = stmts[i]
            if isinstance(s, ast.If):
                rest = stmts[i + 1:]
                body, orelse, test = s.body, s.orelse, s.test
                if orelse and len(body) == 1 and isinstance(body[0], ast.Pass):
                    test, body, orelse = negate(test), orelse, []           # `if c: pass else: X` is `if not c: X`
                if len(orelse) == 1 and isinstance(orelse[0], ast.Pass):
                    orelse = []
                if exit_stmt is not None and not orelse and len(body) == 1 and type(body[0]) is type(exit_stmt) \
                        and getattr(body[0], 'value', None) is None and rest and not _defines(rest):
                    # N13: the guard `if c: <leave>` followed by R (to the end of a block whose end means <leave>) is `if not c: R`
                    inner = self._ifs(list(rest), exit_stmt)
                    while len(inner) > 1 and type(inner[-1]) is type(exit_stmt) and getattr(inner[-1], 'value', None) is None:
                        inner = inner[:-1]
                    out.append(loc(ast.If(test=negate(test), body=inner, orelse=[]), s))
                    return out
                if exit_stmt is not None and not _defines(rest):
                    # N13b: a body that ends in the bare exit of the block (`...; return` at function level, `...; continue` in a
                    # loop) only skips the rest: `if c: A; <leave>` followed by R  is  `if c: A else: R` (to the end of the block)
                    def bare(b):
                        return len(b) > 1 and type(b[-1]) is type(exit_stmt) and getattr(b[-1], 'value', None) is None
                    if bare(body) and (rest or orelse) and not (orelse and terminates(orelse) and not bare(orelse)):
                        s2 = loc(ast.If(test=test, body=body[:-1], orelse=list(orelse) + list(rest)), s)
                        out.extend(self._ifs([s2], exit_stmt))
                        return self._tail(out, exit_stmt)
                    if orelse and bare(orelse) and not terminates(body) and rest:
                        s2 = loc(ast.If(test=test, body=list(body) + list(rest), orelse=orelse[:-1]), s)
                        out.extend(self._ifs([s2], exit_stmt))
                        return self._tail(out, exit_stmt)
                # an else after a body that leaves the block is the rest of the block
                if orelse and terminates(body):
                    rest = orelse + rest
                    orelse = []
                elif orelse and terminates(orelse):
                    test, body, rest, orelse = negate(test), orelse, body + rest, []
                if not orelse and terminates(body) and rest and terminates(rest):
                    # both continuations leave the block: the smaller one is the guarded early exit
                    if (exit_rank(rest), size(rest)) < (exit_rank(body), size(body)):
                        test, body, rest = negate(test), rest, body
                if orelse and neg_score(negate(copy.deepcopy(test))) < neg_score(test):
                    test, body, orelse = negate(test), orelse, body     # the orientation with fewer negations / weak comparisons
                # N35: `if a: if b: S` without else branches is `if a and b: S`
                while not orelse and len(body) == 1 and isinstance(body[0], ast.If) and not body[0].orelse:
                    test = loc(ast.BoolOp(op=ast.And(), values=[test, body[0].test]), s)
                    body = body[0].body
                if isinstance(test, ast.BoolOp) and isinstance(test.op, ast.And):
                    vals = []
                    for v in test.values:
                        vals.extend(v.values if isinstance(v, ast.BoolOp) and isinstance(v.op, ast.And) else [v])
                    test.values = vals
                s = loc(ast.If(test=test, body=body, orelse=orelse), s)
                out.append(s)
                out.extend(self._ifs(rest, exit_stmt))
                return self._tail(out, exit_stmt)
            out.append(s)
            i += 1
        return out

    def _tail(self, out, exit_stmt):
        """The branches of an `if` that ends a block whose end means <leave> end there too: the same shapes apply inside."""
        if exit_stmt is None or not out or not isinstance(out[-1], ast.If):
            return out
        last = out[-1]
        for field in ('body', 'orelse'):
            b = getattr(last, field)
            if not b:
                continue
            b = self._ifs(list(b), exit_stmt)
            while len(b) > 1 and type(b[-1]) is type(exit_stmt) and getattr(b[-1], 'value', None) is None:
                b = b[:-1]
            setattr(last, field, b)
        def only_exit(b):
            return len(b) == 1 and type(b[0]) is type(exit_stmt) and getattr(b[0], 'value', None) is None
        if only_exit(last.orelse):
            last.orelse = []
        if only_exit(last.body) and last.orelse:
            last.test, last.body, last.orelse = negate(last.test), last.orelse, []
        return out

    def _retail(self, s, exit_stmt):
        s.body = self._ifs(list(s.body[:-1]), None) + [s.body[-1]] if s.body else s.body
        return s

    def generic_visit(self, node):
        for field in ('body', 'orelse', 'finalbody'):
            blk = getattr(node, field, None)
            if isinstance(blk, list) and blk and isinstance(blk[0], ast.stmt):
                exit_stmt = None
                if field == 'body' and isinstance(node, (ast.FunctionDef, ast.AsyncFunctionDef)) and not _is_generator(node):
                    exit_stmt = ast.Return(value=None)
                elif field == 'body' and isinstance(node, (ast.For, ast.While)):
                    exit_stmt = ast.Continue()
                setattr(node, field, self._block(blk, exit_stmt) or [loc(ast.Pass(), node)])
        for field, old in ast.iter_fields(node):
            if field in ('body', 'orelse', 'finalbody') and isinstance(old, list) and old and isinstance(old[0], ast.stmt):
                continue
            if isinstance(old, list):
                new = []
                for v in old:
                    if isinstance(v, ast.AST):
                        v = self.visit(v)
                        if v is None:
                            continue
                        if isinstance(v, list):
                            new.extend(v)
                            continue
                    new.append(v)
                old[:] = new
            elif isinstance(old, ast.AST):
                new = self.visit(old)
                if new is None:
                    delattr(node, field)
                else:
                    setattr(node, field, new)
        return node

    def visit_Expr(self, node):
        self.generic_visit(node)
        v = node.value
        if isinstance(v, ast.ListComp) and len(v.generators) == 1 and not v.generators[0].is_async:
            g = v.generators[0]
            body = [loc(ast.Expr(value=v.elt), node)]
            for cond in reversed(g.ifs):
                body = [loc(ast.If(test=cond, body=body, orelse=[]), node)]
            return loc(ast.For(target=g.target, iter=g.iter, body=body, orelse=[], type_comment=None), node)
        return node


def _is_generator(fn):
    for n in _own_nodes(fn):
        if isinstance(n, (ast.Yield, ast.YieldFrom)):
            return True
    return False


def _defines(stmts):
    return any(isinstance(n, (ast.FunctionDef, ast.ClassDef, ast.Lambda)) for s in stmts for n in ast.walk(s))


def normalise_light(tree):
    """Only the local rewrites (expression forms, comparison and if shapes): locals, helpers and statement order stay as written."""
    from . import canon2
    if not os.environ.get('SA_NO_CANON2'):
        tree = canon2.Expr().visit(tree)
    tree = Normaliser().visit(tree)
    ast.fix_missing_locations(tree)
    return tree


def normalise(tree, light=False):
    """In-place normal form of a module / statement tree."""
    if light:
        return normalise_light(tree)
    from . import canon2
    second = not os.environ.get('SA_NO_CANON2')
    if second:
        tree = canon2.pre(tree)
    tree = Normaliser().visit(tree)
    ast.fix_missing_locations(tree)
    if not os.environ.get('SA_NO_COPYPROP'):
        propagate_all(tree)
        if second:
            tree = canon2.pre(tree)
        tree = Normaliser().visit(tree)          # substitution can create shapes the first pass removes (`not (a < b)`)
        ast.fix_missing_locations(tree)
        if second:
            propagate_all(tree)                  # tail duplication / loop rewrites expose further single-use locals
            tree = Normaliser().visit(tree)
            ast.fix_missing_locations(tree)
    return tree


def normal_text(src, light=False):
    """Normal form of a source fragment (one or more statements, or an expression); fragments that do not parse on their
    own (a dangling block header) are completed with `pass` first. Returns None if the fragment cannot be parsed."""
    for cand in (src, src + ' pass', src + '\n    pass'):
        try:
            tree = ast.parse(cand)
        except SyntaxError:
            continue
        if tree.body and all(isinstance(x, ast.stmt) for x in tree.body) and not any(isinstance(x, (ast.FunctionDef, ast.ClassDef)) for x in tree.body):
            # statements of a function body: locals are propagated like in the analysed functions
            fn = ast.FunctionDef(name='_fragment', args=ast.arguments(posonlyargs=[], args=[], vararg=None, kwonlyargs=[], kw_defaults=[],
                                                                     kwarg=None, defaults=[]), body=tree.body, decorator_list=[], returns=None,
                                 type_comment=None, lineno=0, col_offset=0)
            mod = ast.Module(body=[fn], type_ignores=[])
            ast.fix_missing_locations(mod)
            mod = normalise(mod, light)
            out = '\n'.join(ast.unparse(x) for x in mod.body[0].body)
        else:
            tree = normalise(tree, light)
            out = ast.unparse(tree)
        if cand is not src and out.rstrip().endswith('pass'):
            out = out.rstrip()[:-4]
        return out
    return None


# ------------------------------------------------------------------------------------------------ N10 copy propagation
PURE_CALLS = ('len', 'max', 'min', 'abs', 'isinstance', 'issubclass', 'bool', 'int', 'sum', 'any', 'all', 'type', 'getattr',
              'hasattr', 'tuple', 'frozenset', 'str', 'repr', 'divmod', 'range', 'xrange', 'enumerate', 'zip', 'reversed',
              # one-expression accessors of the analysed code base (prophy/composite.py, prophy/generators.py)
              'wire_size', 'wire_alignment', 'distance_to_next_multiply')
PURE_METHODS = ('_types', 'get', 'format', 'join', 'split', 'ljust', 'rjust', 'strip', 'lstrip', 'rstrip', 'startswith', 'endswith', 'lower',
                'upper', 'keys', 'values', 'items', 'index', 'count', 'rfind', 'find', 'replace', 'splitlines', 'isdigit')
MUTATORS = ('append', 'extend', 'insert', 'pop', 'remove', 'clear', 'update', 'add', 'discard', 'sort', 'reverse', 'setdefault',
            'popitem', '__setitem__', '__delitem__')
SCOPES = (ast.FunctionDef, ast.AsyncFunctionDef, ast.Lambda, ast.ClassDef)


CONTAINER_CALLS = ('list', 'sorted', 'set', 'dict')


def is_pure(e, containers=False):
    """Evaluating the expression has no effect and yields a value (not a fresh mutable object that the name would stand for,
    unless `containers`: the caller has checked that the name is only read)."""
    if isinstance(e, ast.GeneratorExp):
        return False
    if not containers and isinstance(e, (ast.List, ast.Dict, ast.Set, ast.ListComp, ast.SetComp, ast.DictComp)):
        return False
    for n in ast.walk(e):
        if isinstance(n, ast.Call):
            if isinstance(n.func, ast.Name):
                if n.func.id not in PURE_CALLS and not (containers and n.func.id in CONTAINER_CALLS):
                    return False
            elif isinstance(n.func, ast.Attribute):
                fn = ast.unparse(n.func)
                if not (n.func.attr in PURE_METHODS or fn.startswith('os.path.')):
                    return False
            else:
                return False
        elif isinstance(n, (ast.Yield, ast.YieldFrom, ast.Await, ast.NamedExpr, ast.Lambda, ast.Starred)):
            return False
    return True


def _own_nodes(fn):
    """Nodes of the function body that belong to its own scope (nested function / class / lambda bodies excluded, their
    headers included)."""
    out = []
    stack = list(fn.body) if not isinstance(fn, ast.Lambda) else [fn.body]
    while stack:
        n = stack.pop()
        out.append(n)
        if isinstance(n, SCOPES):
            continue
        stack.extend(ast.iter_child_nodes(n))
    return out


def _bindings(fn):
    """{name: number of binding occurrences in the function's own scope}; names read in nested scopes; global/nonlocal names."""
    own = _own_nodes(fn)
    cnt = {}
    for n in own:
        if isinstance(n, ast.Name) and isinstance(n.ctx, (ast.Store, ast.Del)):
            cnt[n.id] = cnt.get(n.id, 0) + 1
        elif isinstance(n, ast.AugAssign) and isinstance(n.target, ast.Name):
            cnt[n.target.id] = cnt.get(n.target.id, 0) + 1
        elif isinstance(n, ast.ExceptHandler) and n.name:
            cnt[n.name] = cnt.get(n.name, 0) + 1
        elif isinstance(n, (ast.FunctionDef, ast.AsyncFunctionDef, ast.ClassDef)):
            cnt[n.name] = cnt.get(n.name, 0) + 1
        elif isinstance(n, (ast.Import, ast.ImportFrom)):
            for a in n.names:
                nm = (a.asname or a.name).split('.')[0]
                cnt[nm] = cnt.get(nm, 0) + 1
    nested_reads = set()
    declared = set()
    for n in own:
        if isinstance(n, SCOPES):
            for x in ast.walk(n):
                if isinstance(x, ast.Name):
                    nested_reads.add(x.id)
        elif isinstance(n, (ast.Global, ast.Nonlocal)):
            declared.update(n.names)
    return cnt, nested_reads, declared


def _blocks(fn):
    """[(statement list, owner node)] of the function's own scope."""
    out = []
    stack = [fn]
    while stack:
        n = stack.pop()
        for field in ('body', 'orelse', 'finalbody'):
            blk = getattr(n, field, None)
            if isinstance(blk, list) and blk and isinstance(blk[0], ast.stmt):
                out.append((blk, n))
                for s in blk:
                    if not isinstance(s, SCOPES):
                        stack.append(s)
        for h in getattr(n, 'handlers', []) or []:
            stack.append(h)
    return out


def propagate_copies(fn):
    """N10: a local with exactly one binding `x = <pure expression>` whose operands are not re-bound, whose attribute /
    subscript reads are not written between the definition and the last use, and all of whose uses follow the definition in
    the same block (or in statements nested in later siblings) is replaced by its definition; the assignment disappears.
    Hoisting a sub-expression into a named local and inlining one therefore give the same normal form."""
    params = set(a.arg for a in fn.args.posonlyargs + fn.args.args + fn.args.kwonlyargs)
    if fn.args.vararg:
        params.add(fn.args.vararg.arg)
    if fn.args.kwarg:
        params.add(fn.args.kwarg.arg)
    for _ in range(200):
        cnt, nested_reads, declared = _bindings(fn)
        done = False
        for blk, owner in _blocks(fn):
            for i, st in enumerate(blk):
                if not (isinstance(st, ast.Assign) and len(st.targets) == 1 and isinstance(st.targets[0], ast.Name)):
                    continue
                x = st.targets[0].id
                if cnt.get(x) != 1 or x in params or x in declared or x == '_':
                    continue
                e = st.value
                closure = x in nested_reads
                if closure and not (blk is fn.body and _closure_constant_ok(fn, x, e, cnt, params)):
                    continue
                if not is_pure(e):
                    # a fresh container that is only ever read (never mutated, never aliased into a store) is a value too
                    if not (is_pure(e, containers=True) and _only_read(fn, x)):
                        continue
                in_loop = _enclosing_loop_targets(fn, blk)
                ok = True
                # names bound by a comprehension inside a *value* (`any(c for x in xs)`) are local to it; a container built by a
                # comprehension keeps its name (substituting it into several readers would rebuild it per reader)
                comp_bound = set(t.id for c in ast.walk(e) if isinstance(c, ast.comprehension) for t in ast.walk(c.target)
                                 if isinstance(t, ast.Name)) if is_pure(e) else set()
                for n in ast.walk(e):
                    if isinstance(n, ast.Name) and n.id != x and n.id not in comp_bound:
                        c = cnt.get(n.id, 0)
                        if c == 0 or (c == 1 and n.id in in_loop):
                            continue
                        if c == 1 and _defined_before(fn, n.id, blk, i):
                            continue
                        ok = False
                        break
                if not ok:
                    continue
                later = blk[i + 1:]
                uses = [n for s in later for n in ast.walk(s) if isinstance(n, ast.Name) and n.id == x and isinstance(n.ctx, ast.Load)]
                all_uses = [n for n in (ast.walk(fn) if closure else _own_nodes(fn)) if isinstance(n, ast.Name) and n.id == x and isinstance(n.ctx, ast.Load)]
                if not uses or len(uses) != len(all_uses):
                    continue
                if len(uses) > 1 and any(isinstance(n, ast.comprehension) for n in ast.walk(e)):
                    continue        # an aggregate over a collection, read in several places, keeps its name
                if _reads_written_state(e, later, uses, fn if closure else owner, whole=closure):
                    continue
                for s in later:
                    _Subst(x, e).visit(s)
                del blk[i]
                if not blk:
                    blk.append(ast.copy_location(ast.Pass(), st))
                done = True
                break
            if done:
                break
        if not done:
            break


def _closure_constant_ok(fn, x, e, cnt, params):
    """N10c: a local of the enclosing function that nested functions only read is still its definition when the definition is a
    value (`is_pure`), its operands are never re-bound, nested scopes do not bind the name themselves, and - if it reads object
    state - the nested functions that use it are only ever *called* from this function (they do not outlive the state they
    would read later)."""
    if not (is_pure(e) or (is_pure(e, containers=True) and _only_read(fn, x))):
        return False
    for n in ast.walk(e):
        if isinstance(n, ast.Name) and n.id != x and cnt.get(n.id, 0) != 0 and n.id not in params:
            return False
        if isinstance(n, ast.Name) and n.id in params and cnt.get(n.id, 0) != 0:
            return False
    users = []
    for n in _own_nodes(fn):
        if isinstance(n, SCOPES):
            inner = [y for y in ast.walk(n) if y is not n]
            if any(isinstance(y, ast.Name) and y.id == x for y in inner):
                if isinstance(n, ast.ClassDef):
                    return False
                for y in inner:
                    if isinstance(y, ast.Name) and y.id == x and not isinstance(y.ctx, ast.Load):
                        return False
                    if isinstance(y, ast.arg) and y.arg == x:
                        return False
                    if isinstance(y, (ast.Global, ast.Nonlocal)) and x in y.names:
                        return False
                args = n.args
                if any(a.arg == x for a in args.posonlyargs + args.args + args.kwonlyargs):
                    return False
                users.append(n)
    reads_state = any(isinstance(n, (ast.Attribute, ast.Subscript)) and not (isinstance(n, ast.Attribute) and isinstance(n.value, ast.Constant))
                      for n in ast.walk(e))
    if reads_state:
        parents = {}
        for p in ast.walk(fn):
            for c in ast.iter_child_nodes(p):
                parents[id(c)] = p
        for u in users:
            if isinstance(u, ast.Lambda) or u.decorator_list:
                return False
            for n in ast.walk(fn):
                if isinstance(n, ast.Name) and n.id == u.name and isinstance(n.ctx, ast.Load):
                    p = parents.get(id(n))
                    if not (isinstance(p, ast.Call) and p.func is n):
                        return False
    return True


def _only_read(fn, name):
    """Every occurrence of the name is a plain read that cannot mutate or leak the object: iterated, indexed, sliced, passed to a
    pure consumer, tested for membership / length."""
    parents = {}
    for p in ast.walk(fn):
        for c in ast.iter_child_nodes(p):
            parents[id(c)] = p
    for n in ast.walk(fn):
        if not (isinstance(n, ast.Name) and n.id == name and isinstance(n.ctx, ast.Load)):
            continue
        p = parents.get(id(n))
        if isinstance(p, (ast.For, ast.comprehension)) and p.iter is n:
            continue
        if isinstance(p, ast.Subscript) and p.value is n and isinstance(p.ctx, ast.Load):
            continue
        if isinstance(p, ast.Compare):
            continue
        if isinstance(p, ast.Call) and n in p.args and isinstance(p.func, ast.Name) and p.func.id in PURE_CALLS + ('sorted', 'list', 'set', 'reversed'):
            continue
        if isinstance(p, ast.Call) and n in p.args and isinstance(p.func, ast.Attribute) and p.func.attr == 'join':
            continue
        if isinstance(p, (ast.If, ast.While, ast.IfExp, ast.BoolOp, ast.UnaryOp)):
            continue
        return False
    return True


class _Subst(ast.NodeTransformer):
    def __init__(self, name, expr):
        self.name, self.expr = name, expr

    def visit_Name(self, n):
        if n.id == self.name and isinstance(n.ctx, ast.Load):
            return ast.copy_location(copy.deepcopy(self.expr), n)
        return n


def _enclosing_loop_targets(fn, blk):
    """Names bound as loop variables by for-loops whose body (transitively) contains the block."""
    out = set()

    def rec(node, acc):
        for field in ('body', 'orelse', 'finalbody'):
            b = getattr(node, field, None)
            if isinstance(b, list):
                acc2 = set(acc)
                if isinstance(node, ast.For) and field == 'body':
                    acc2 |= set(t.id for t in ast.walk(node.target) if isinstance(t, ast.Name))
                if b is blk:
                    out.update(acc2)
                    return True
                for s in b:
                    if isinstance(s, ast.stmt) and not isinstance(s, SCOPES) and rec(s, acc2):
                        return True
        for h in getattr(node, 'handlers', []) or []:
            if rec(h, acc):
                return True
        return False
    rec(fn, set())
    return out


def _defined_before(fn, name, blk, idx):
    """The single binding of `name` is a statement that precedes position idx of blk or of an enclosing block."""
    for s in blk[:idx]:
        for n in ast.walk(s):
            if isinstance(n, ast.Name) and n.id == name and isinstance(n.ctx, ast.Store):
                return True
    # enclosing blocks: find the statement of the parent block that contains blk
    for pblk, owner in _blocks(fn):
        for j, s in enumerate(pblk):
            if any(getattr(s, f, None) is blk for f in ('body', 'orelse', 'finalbody')) or \
                    any(h.body is blk for h in getattr(s, 'handlers', []) or []):
                if isinstance(s, ast.For) and s.body is blk and any(isinstance(t, ast.Name) and t.id == name for t in ast.walk(s.target)):
                    return True
                if isinstance(s, ast.With) and any(it.optional_vars is not None and name in [t.id for t in ast.walk(it.optional_vars) if isinstance(t, ast.Name)]
                                                   for it in s.items):
                    return True
                return _defined_before(fn, name, pblk, j)
    return False


def _reads_written_state(e, later, uses, owner, whole=False):
    """Does the expression read an attribute / element that a statement between the definition and the last use may write?
    A name handed over as a whole object (`len(xs)`, `getattr(obj, n)`) reads everything reachable through it."""
    reads = set()
    bases = set()
    for n in ast.walk(e):
        if isinstance(n, (ast.Attribute, ast.Subscript)):
            reads.add(ast.unparse(n))
            bases.add(id(n.value))
    for n in ast.walk(e):
        if isinstance(n, ast.Name) and id(n) not in bases and not (isinstance(e, ast.Name)):
            reads.add(n.id)
    if not reads:
        return False

    def conflicts(written):
        """a store to the path `written` changes what a read of path r yields: the same path, a part of r, or a part of the
        object r names (writing `a.b` does not touch `a.c`)"""
        for r in reads:
            if r == written or r.startswith(written + '.') or r.startswith(written + '[') or \
                    written.startswith(r + '.') or written.startswith(r + '['):
                return True
        return False
    last = max((getattr(u, 'lineno', 0) for u in uses), default=0)
    span = list(later)
    if whole:
        last = 10 ** 9
    if isinstance(owner, (ast.For, ast.While)):
        span = span + list(owner.body)          # a write later in the loop body reaches the next iteration's use
        last = 10 ** 9
    for s in span:
        for n in ast.walk(s):
            if getattr(n, 'lineno', 0) > last:
                continue
            tg = []
            if isinstance(n, ast.Assign):
                tg = n.targets
            elif isinstance(n, (ast.AugAssign, ast.AnnAssign)):
                tg = [n.target]
            elif isinstance(n, ast.Delete):
                tg = n.targets
            for t in tg:
                for x in ast.walk(t):
                    if isinstance(x, (ast.Attribute, ast.Subscript)) and isinstance(x.ctx, (ast.Store, ast.Del)) and conflicts(ast.unparse(x)):
                        return True
            if isinstance(n, ast.Call) and isinstance(n.func, ast.Attribute) and n.func.attr in MUTATORS and conflicts(ast.unparse(n.func.value)):
                return True
            if isinstance(n, ast.Call) and isinstance(n.func, ast.Name) and n.func.id in ('setattr', 'delattr') and n.args:
                base = ast.unparse(n.args[0])
                if any(r == base or r.startswith(base + '.') or r.startswith(base + '[') for r in reads):
                    return True          # setattr(obj, <computed name>, ...) may write any attribute of obj
    return False


def split_live_ranges(fn):
    """N14b: a name bound in several places (`msg = ...` in each branch of an if) whose every read follows one of the bindings
    in that binding's own block - and so can only see that binding - is a separate local per binding: each is renamed apart, and
    being bound once it takes part in N10 / N15 like any other single-definition local."""
    cnt, nested_reads, declared = _bindings(fn)
    params = set(a.arg for a in fn.args.posonlyargs + fn.args.args + fn.args.kwonlyargs)
    if fn.args.vararg:
        params.add(fn.args.vararg.arg)
    if fn.args.kwarg:
        params.add(fn.args.kwarg.arg)
    own = _own_nodes(fn)
    serial = [0]
    for x in sorted(k for k, c in cnt.items() if c >= 2):
        if x in params or x in nested_reads or x in declared or x == '_' or x.startswith('__v'):
            continue
        stores = [n for n in own if (isinstance(n, ast.Name) and n.id == x and isinstance(n.ctx, (ast.Store, ast.Del))) or
                  (isinstance(n, ast.AugAssign) and isinstance(n.target, ast.Name) and n.target.id == x) or
                  (isinstance(n, ast.ExceptHandler) and n.name == x) or
                  (isinstance(n, (ast.FunctionDef, ast.ClassDef)) and n.name == x)]
        sites = []
        ok = True
        for blk, owner in _blocks(fn):
            for i, st in enumerate(blk):
                if isinstance(st, ast.Assign) and len(st.targets) == 1 and isinstance(st.targets[0], ast.Name) and st.targets[0].id == x:
                    sites.append((blk, i, st))
        plain = set(id(st.targets[0]) for _, _, st in sites)
        if len(sites) < 2 or any(id(n) not in plain for n in stores if isinstance(n, ast.Name)) or \
                any(not isinstance(n, ast.Name) for n in stores):
            continue
        loads = [n for n in own if isinstance(n, ast.Name) and n.id == x and isinstance(n.ctx, ast.Load)]
        claimed = {}
        regions = []
        for blk, i, st in sites:
            region = [n for s_ in blk[i + 1:] for n in ast.walk(s_)]
            ids = set(id(n) for n in region)
            # the definition may not read the name (`x = x + 1` continues an earlier range), no other binding inside the region
            if any(isinstance(n, ast.Name) and n.id == x for n in ast.walk(st.value)) or any(id(o.targets[0]) in ids for _, _, o in sites if o is not st):
                ok = False
                break
            regions.append((st, region))
            for n in region:
                if isinstance(n, ast.Name) and n.id == x and isinstance(n.ctx, ast.Load):
                    if id(n) in claimed:
                        ok = False
                    claimed[id(n)] = st
        if not ok or any(id(n) not in claimed for n in loads):
            continue
        for st, region in regions:
            serial[0] += 1
            new = '%s__r%d' % (x, serial[0])
            st.targets[0].id = new
            for n in region:
                if isinstance(n, ast.Name) and n.id == x and isinstance(n.ctx, ast.Load):
                    n.id = new


def propagate_all(tree):
    fns = [n for n in ast.walk(tree) if isinstance(n, (ast.FunctionDef, ast.AsyncFunctionDef))]
    for fn in fns:
        string_accumulators(fn)
        split_versions(fn)
        split_live_ranges(fn)
        propagate_copies(fn)
        forward_substitute(fn)
        propagate_copies(fn)
    return tree


# ------------------------------------------------------------------------------------------------ N14 block-level SSA
def _flows_to_merge(fn, blk):
    """Can control fall off the end of this block into code that is also reached without passing through the block?
    Not for the function body; not for a block that always leaves (return / raise / continue / break)."""
    return not (blk is fn.body or terminates(blk))


def split_versions(fn):
    """N14: a re-binding `x = e(x)` / `x += e` of a name that already has a value (a parameter, an earlier binding), made in
    the function body or in a block that always leaves, starts a new version of the name for everything that follows it:
    `value = check(value); use(value)` and `checked = check(value); use(checked)` become the same text."""
    params = set(a.arg for a in fn.args.posonlyargs + fn.args.args + fn.args.kwonlyargs)
    version = [0]
    for _ in range(50):
        cnt, nested_reads, declared = _bindings(fn)
        done = False
        for blk, owner in _blocks(fn):
            if _flows_to_merge(fn, blk) or _inside_loop(fn, blk):
                continue
            bound = set(params)
            for i, st in enumerate(blk):
                tgt = None
                if isinstance(st, ast.Assign) and len(st.targets) == 1 and isinstance(st.targets[0], ast.Name):
                    tgt = st.targets[0].id
                elif isinstance(st, ast.AugAssign) and isinstance(st.target, ast.Name):
                    tgt = st.target.id
                if tgt is not None and tgt not in nested_reads and tgt not in declared and \
                        (tgt in bound or _bound_before(fn, tgt, blk, i)) and cnt.get(tgt, 0) >= 1 and not tgt.startswith('__v'):
                    later = blk[i + 1:]
                    # every other binding of the name must not lie after this point (one forward chain only)
                    if any(isinstance(n, ast.Name) and n.id == tgt and isinstance(n.ctx, (ast.Store, ast.Del)) for s_ in later for n in ast.walk(s_)) or \
                            any(isinstance(n, ast.AugAssign) and isinstance(n.target, ast.Name) and n.target.id == tgt for s_ in later for n in ast.walk(s_)):
                        bound.add(tgt)
                        continue
                    version[0] += 1
                    new = '__v%d_%s' % (version[0], tgt)
                    if isinstance(st, ast.AugAssign):
                        blk[i] = ast.copy_location(ast.Assign(targets=[ast.copy_location(ast.Name(id=new, ctx=ast.Store()), st.target)],
                                                              value=ast.copy_location(ast.BinOp(left=ast.copy_location(ast.Name(id=tgt, ctx=ast.Load()), st.target),
                                                                                                op=st.op, right=st.value), st), type_comment=None), st)
                    else:
                        st.targets[0].id = new
                    for s_ in later:
                        for n in ast.walk(s_):
                            if isinstance(n, ast.Name) and n.id == tgt:
                                n.id = new
                    done = True
                    break
                if tgt is not None:
                    bound.add(tgt)
            if done:
                break
        if not done:
            break
    ast.fix_missing_locations(fn)


def _inside_loop(fn, blk):
    found = [False]

    def rec(node, in_loop):
        for field in ('body', 'orelse', 'finalbody'):
            b = getattr(node, field, None)
            if isinstance(b, list) and b and isinstance(b[0], ast.stmt):
                il = in_loop or (isinstance(node, (ast.For, ast.While)) and field == 'body')
                if b is blk:
                    found[0] = il
                    return True
                for s in b:
                    if not isinstance(s, SCOPES) and rec(s, il):
                        return True
        for h in getattr(node, 'handlers', []) or []:
            if rec(h, in_loop):
                return True
        return False
    rec(fn, False)
    return found[0]


def _bound_before(fn, name, blk, idx):
    for s in blk[:idx]:
        for n in ast.walk(s):
            if isinstance(n, ast.Name) and n.id == name and isinstance(n.ctx, ast.Store):
                return True
    for pblk, owner in _blocks(fn):
        for j, s in enumerate(pblk):
            if any(getattr(s, f, None) is blk for f in ('body', 'orelse', 'finalbody')):
                return _bound_before(fn, name, pblk, j)
    return False


# ------------------------------------------------------------------------------------------------ N15 ordered forward substitution
def forward_substitute(fn):
    """N15: `a = f(); b = g(); return a + b` is `return f() + g()`: a run of single-use locals whose definitions directly
    precede the statement that uses them, in the order in which that statement evaluates them and before anything else it
    evaluates that could have an effect, is substituted even though the definitions are not pure."""
    for _ in range(100):
        cnt, nested_reads, declared = _bindings(fn)
        done = False
        for blk, owner in _blocks(fn):
            for i in range(len(blk) - 1):
                run = []
                j = i
                while j < len(blk) - 1:
                    st = blk[j]
                    if isinstance(st, ast.Assign) and len(st.targets) == 1 and isinstance(st.targets[0], ast.Name) \
                            and cnt.get(st.targets[0].id) == 1 and st.targets[0].id not in nested_reads and st.targets[0].id not in declared \
                            and not isinstance(st.value, (ast.List, ast.Dict, ast.Set, ast.ListComp, ast.SetComp, ast.DictComp, ast.Yield, ast.YieldFrom, ast.Await)):
                        run.append(st)
                        j += 1
                    else:
                        break
                if not run:
                    continue
                user = blk[j]
                if isinstance(user, (ast.If, ast.While)):
                    scope_nodes = [user.test]
                elif isinstance(user, ast.For):
                    scope_nodes = [user.iter]
                elif isinstance(user, (ast.Assign, ast.AugAssign, ast.Return, ast.Expr, ast.Raise)):
                    scope_nodes = [user]
                else:
                    continue
                # take the longest suffix of the run that qualifies
                for k in range(len(run)):
                    cand = run[k:]
                    names = [c.targets[0].id for c in cand]
                    order = []
                    for root in scope_nodes:
                        for n in _eval_order(root):
                            if isinstance(n, ast.Name) and isinstance(n.ctx, ast.Load) and n.id in names:
                                order.append(n.id)
                    all_uses = [n.id for n in _own_nodes(fn) if isinstance(n, ast.Name) and isinstance(n.ctx, ast.Load) and n.id in names]
                    if order != names or sorted(all_uses) != sorted(names):
                        continue
                    # the use must be evaluated exactly once: not inside a comprehension / lambda of the using statement
                    # (a generator bound once and consumed across iterations is not a generator created per iteration)
                    multi = False
                    for root in scope_nodes:
                        for n in ast.walk(root):
                            if isinstance(n, (ast.ListComp, ast.SetComp, ast.DictComp, ast.GeneratorExp, ast.Lambda)):
                                # (the outermost iterable of a comprehension is evaluated once, where the comprehension stands)
                                eager = set(id(x) for x in ast.walk(n.generators[0].iter)) if not isinstance(n, ast.Lambda) else set()
                                if any(isinstance(x, ast.Name) and x.id in names and isinstance(x.ctx, ast.Load) and id(x) not in eager
                                       for x in ast.walk(n)):
                                    multi = True
                    if multi:
                        continue
                    # nothing with an effect may be evaluated by the user before the last substituted name
                    ok = True
                    seen = 0
                    for root in scope_nodes:
                        for n in _eval_order(root):
                            if seen == len(names):
                                break
                            if isinstance(n, ast.Name) and isinstance(n.ctx, ast.Load) and n.id in names:
                                seen += 1
                            elif isinstance(n, (ast.Call, ast.Await, ast.Yield, ast.YieldFrom)) and not is_pure(n) and \
                                    not any(isinstance(x, ast.Name) and x.id in names for x in ast.walk(n)):
                                ok = False
                    # a pure definition is left to N10 (it may have several uses); here at least one is impure
                    if not ok or all(is_pure(c.value) for c in cand):
                        continue
                    if isinstance(user, ast.AugAssign) and any(isinstance(x, ast.Name) and x.id in names for x in ast.walk(user.value)):
                        # the target of an augmented assignment is read before the value is evaluated
                        if not isinstance(user.target, ast.Name):
                            continue
                    for c in cand:
                        sub = _Subst(c.targets[0].id, c.value)
                        if isinstance(user, (ast.If, ast.While)):
                            user.test = sub.visit(user.test)        # (the test / iterable may be the bare name itself)
                        elif isinstance(user, ast.For):
                            user.iter = sub.visit(user.iter)
                        else:
                            sub.visit(user)
                    del blk[i + k:j]
                    done = True
                    break
                if done:
                    break
            if done:
                break
        if not done:
            break


def _eval_order(node):
    """Sub-expressions in (approximate) evaluation order: children left to right, a node after its operands."""
    if isinstance(node, ast.Call):
        seq = [node.func] + list(node.args) + [k.value for k in node.keywords]
    elif isinstance(node, ast.IfExp):
        seq = [node.test, node.body, node.orelse]
    elif isinstance(node, ast.Assign):
        seq = [node.value] + list(node.targets)
    elif isinstance(node, ast.AugAssign):
        seq = [node.target, node.value]
    elif isinstance(node, SCOPES):
        seq = []
    else:
        seq = list(ast.iter_child_nodes(node))
    for c in seq:
        for x in _eval_order(c):
            yield x
    yield node


# ------------------------------------------------------------------------------------------------ N20 string accumulation
def string_accumulators(fn):
    """N20: collecting pieces in a list that is only appended to and finally joined with '' is accumulating the string itself:
    `acc = []; acc.append(e); ...; ''.join(acc)`  ==  `acc = ''; acc += e; ...; acc`."""
    own = _own_nodes(fn)
    parents = {}
    for p in [fn] + own:
        for c in ast.iter_child_nodes(p):
            parents[id(c)] = p
    inits = {}
    for n in own:
        if isinstance(n, ast.Assign) and len(n.targets) == 1 and isinstance(n.targets[0], ast.Name) and isinstance(n.value, ast.List) and not n.value.elts:
            inits.setdefault(n.targets[0].id, []).append(n)
    for name, defs in inits.items():
        if len(defs) != 1:
            continue
        appends, joins, other = [], [], 0
        for n in own:
            if isinstance(n, ast.Name) and n.id == name:
                p = parents.get(id(n))
                if isinstance(n.ctx, ast.Store):
                    if p is not defs[0]:
                        other += 1
                    continue
                pp = parents.get(id(p))
                ppp = parents.get(id(pp))
                if isinstance(p, ast.Attribute) and p.attr == 'append' and isinstance(pp, ast.Call) and pp.func is p and len(pp.args) == 1 \
                        and isinstance(ppp, ast.Expr):
                    appends.append(ppp)
                elif isinstance(p, ast.Call) and isinstance(p.func, ast.Attribute) and p.func.attr == 'join' and isinstance(p.func.value, ast.Constant) \
                        and p.func.value.value == '' and p.args == [n]:
                    joins.append(p)
                else:
                    other += 1
        if other or not appends or not joins:
            continue
        defs[0].value = ast.copy_location(ast.Constant(value=''), defs[0].value)
        for ex in appends:
            call = ex.value
            new = ast.copy_location(ast.AugAssign(target=ast.Name(id=name, ctx=ast.Store()), op=ast.Add(), value=call.args[0]), ex)
            par = parents.get(id(ex))
            for field in ('body', 'orelse', 'finalbody'):
                blk = getattr(par, field, None)
                if isinstance(blk, list):
                    for i, s_ in enumerate(blk):
                        if s_ is ex:
                            blk[i] = new
        for j in joins:
            par = parents.get(id(j))
            repl = ast.copy_location(ast.Name(id=name, ctx=ast.Load()), j)
            for field, val in ast.iter_fields(par):
                if val is j:
                    setattr(par, field, repl)
                elif isinstance(val, list):
                    for i, v in enumerate(val):
                        if v is j:
                            val[i] = repl
    ast.fix_missing_locations(fn)
