"""Normal form of Python source (E1b): the analysed trees and every expected fragment of the rules are rewritten by the
same semantics-preserving normaliser before they are compared, so that a rule states *what* a construct computes and not
how a maintainer happened to spell it. Behaviour-preserving edits that map to the same normal form:

  N1  `x = x + e`                         ==  `x += e`
  N2  `b > a`, `b >= a`                   ==  `a < b`, `a <= b`
  N3  `a <= v <= b`                       ==  `a <= v and v <= b`;  `not` is pushed inwards (De Morgan, negated comparison)
  N4  `if not c: A else: B`               ==  `if c: B else: A`
      `if c: A(ends in return/raise/continue/break) else: B`  ==  `if c: A` followed by B
      when both branches leave the block the smaller one becomes the guarded early exit
  N5  `[f(x) for x in xs]` as a statement ==  `for x in xs: f(x)`
  N6  `list()`, `dict()`, `tuple()`       ==  `[]`, `{}`, `()`
  N7  `isinstance(x, (B, A))`             ==  `isinstance(x, (A, B))`  (tuple members sorted)
  N8  parentheses, line breaks, comments, docstring-free (ast.unparse)
  N9  `max(b, a)`, `min(b, a)`            ==  `max(a, b)`, `min(a, b)`  (arguments sorted)

Assumption (stated in DESIGN): ordering comparisons are between totally ordered values (ints, strings), so that
`not a <= b` is `b < a`; none of the analysed code orders sets or floats that may be NaN.

Renaming of locals is handled at comparison time (shared_py._canon / piece_regex), not here.
"""
import ast
import copy

TERMINATORS = (ast.Return, ast.Raise, ast.Continue, ast.Break)
NEG = {ast.Lt: ast.GtE, ast.LtE: ast.Gt, ast.Gt: ast.LtE, ast.GtE: ast.Lt, ast.Eq: ast.NotEq, ast.NotEq: ast.Eq,
       ast.In: ast.NotIn, ast.NotIn: ast.In, ast.Is: ast.IsNot, ast.IsNot: ast.Is}
SWAP = {ast.Gt: ast.Lt, ast.GtE: ast.LtE}
NEGATIVE_OPS = (ast.NotEq, ast.NotIn, ast.IsNot)


def terminates(stmts):
    """The statement list never falls through its end."""
    if not stmts:
        return False
    last = stmts[-1]
    if isinstance(last, TERMINATORS):
        return True
    if isinstance(last, ast.If):
        return terminates(last.body) and terminates(last.orelse)
    if isinstance(last, ast.With):
        return terminates(last.body)
    return False


def exit_rank(stmts):
    """error exits are the guarded branch before loop exits before returns (stable under edits of messages / values)"""
    last = stmts[-1]
    while isinstance(last, (ast.If, ast.With)) and last.body:
        last = last.body[-1]
    return 0 if isinstance(last, ast.Raise) else 1 if isinstance(last, (ast.Continue, ast.Break)) else 2


def size(stmts):
    return sum(1 for s in stmts for _ in ast.walk(s))


def loc(new, old):
    return ast.copy_location(new, old)


def negate(e):
    """A normalised expression equivalent to `not e`."""
    if isinstance(e, ast.UnaryOp) and isinstance(e.op, ast.Not):
        return e.operand
    if isinstance(e, ast.Compare) and len(e.ops) == 1:
        return norm_compare(loc(ast.Compare(left=e.left, ops=[NEG[type(e.ops[0])]()], comparators=e.comparators), e))
    if isinstance(e, ast.BoolOp):
        op = ast.Or() if isinstance(e.op, ast.And) else ast.And()
        return loc(ast.BoolOp(op=op, values=[negate(v) for v in e.values]), e)
    if isinstance(e, ast.Constant) and isinstance(e.value, bool):
        return loc(ast.Constant(value=not e.value), e)
    return loc(ast.UnaryOp(op=ast.Not(), operand=e), e)


def norm_compare(e):
    """single comparison: `b > a` -> `a < b`"""
    if len(e.ops) == 1 and type(e.ops[0]) in SWAP:
        return loc(ast.Compare(left=e.comparators[0], ops=[SWAP[type(e.ops[0])]()], comparators=[e.left]), e)
    return e


def is_negative(e):
    return (isinstance(e, ast.UnaryOp) and isinstance(e.op, ast.Not)) or \
        (isinstance(e, ast.Compare) and len(e.ops) == 1 and isinstance(e.ops[0], NEGATIVE_OPS))


class Normaliser(ast.NodeTransformer):
    # ---------------------------------------------------------------- expressions
    def visit_Compare(self, node):
        self.generic_visit(node)
        if len(node.ops) > 1:
            parts = []
            left = node.left
            for op, right in zip(node.ops, node.comparators):
                parts.append(norm_compare(loc(ast.Compare(left=copy.deepcopy(left), ops=[op], comparators=[right]), node)))
                left = right
            return loc(ast.BoolOp(op=ast.And(), values=parts), node)
        return norm_compare(node)

    def visit_UnaryOp(self, node):
        self.generic_visit(node)
        if isinstance(node.op, ast.Not):
            inner = node.operand
            if isinstance(inner, (ast.Compare, ast.BoolOp)) or (isinstance(inner, ast.UnaryOp) and isinstance(inner.op, ast.Not)
                                                                 and self._boolean_operand(inner.operand)):
                return negate(inner)
        return node

    @staticmethod
    def _boolean_operand(e):
        return isinstance(e, (ast.Compare, ast.BoolOp)) or (isinstance(e, ast.UnaryOp) and isinstance(e.op, ast.Not)) or \
            (isinstance(e, ast.Call) and isinstance(e.func, ast.Name) and e.func.id in ('isinstance', 'issubclass', 'bool', 'any', 'all',
                                                                                       'hasattr', 'callable'))

    def visit_BoolOp(self, node):
        self.generic_visit(node)
        # flatten nested same-operator chains: (a and b) and c
        vals = []
        for v in node.values:
            if isinstance(v, ast.BoolOp) and type(v.op) is type(node.op):
                vals.extend(v.values)
            else:
                vals.append(v)
        node.values = vals
        return node

    def visit_Call(self, node):
        self.generic_visit(node)
        if isinstance(node.func, ast.Name) and not node.args and not node.keywords:
            if node.func.id == 'list':
                return loc(ast.List(elts=[], ctx=ast.Load()), node)
            if node.func.id == 'dict':
                return loc(ast.Dict(keys=[], values=[]), node)
            if node.func.id == 'tuple':
                return loc(ast.Tuple(elts=[], ctx=ast.Load()), node)
        if isinstance(node.func, ast.Name) and node.func.id in ('max', 'min') and len(node.args) >= 2 and not node.keywords \
                and not any(isinstance(a, ast.Starred) for a in node.args):
            node.args = sorted(node.args, key=ast.unparse)        # N9: max / min of numbers do not depend on argument order
        if isinstance(node.func, ast.Name) and node.func.id in ('isinstance', 'issubclass') and len(node.args) == 2 \
                and isinstance(node.args[1], ast.Tuple):
            node.args[1].elts = sorted(node.args[1].elts, key=ast.unparse)
        return node

    # ---------------------------------------------------------------- statements
    def visit_Assign(self, node):
        self.generic_visit(node)
        if len(node.targets) == 1 and isinstance(node.value, ast.BinOp) and isinstance(node.targets[0], (ast.Name, ast.Attribute, ast.Subscript)) \
                and ast.unparse(node.targets[0]) == ast.unparse(node.value.left):
            tgt = copy.deepcopy(node.targets[0])
            return loc(ast.AugAssign(target=tgt, op=node.value.op, value=node.value.right), node)
        return node

    def _block(self, stmts):
        """Normalises a statement list (children first), then the If shapes that depend on what follows."""
        out = []
        for s in stmts:
            r = self.visit(s)
            if r is None:
                continue
            out.extend(r if isinstance(r, list) else [r])
        return self._ifs(out)

    def _ifs(self, stmts):
        out = []
        i = 0
        while i < len(stmts):
            s = stmts[i]
            if isinstance(s, ast.If):
                rest = stmts[i + 1:]
                body, orelse, test = s.body, s.orelse, s.test
                # an else after a body that leaves the block is the rest of the block
                if orelse and terminates(body):
                    rest = orelse + rest
                    orelse = []
                elif orelse and terminates(orelse):
                    test, body, rest, orelse = negate(test), orelse, body + rest, []
                if not orelse and terminates(body) and rest and terminates(rest):
                    # both continuations leave the block: the smaller one is the guarded early exit
                    if (exit_rank(rest), size(rest)) < (exit_rank(body), size(body)):
                        test, body, rest = negate(test), rest, body
                if orelse and is_negative(test):
                    test, body, orelse = negate(test), orelse, body
                s = loc(ast.If(test=test, body=body, orelse=orelse), s)
                out.append(s)
                out.extend(self._ifs(rest))
                return out
            out.append(s)
            i += 1
        return out

    def generic_visit(self, node):
        for field in ('body', 'orelse', 'finalbody'):
            blk = getattr(node, field, None)
            if isinstance(blk, list) and blk and isinstance(blk[0], ast.stmt):
                setattr(node, field, self._block(blk))
        for field, old in ast.iter_fields(node):
            if field in ('body', 'orelse', 'finalbody') and isinstance(old, list) and old and isinstance(old[0], ast.stmt):
                continue
            if isinstance(old, list):
                new = []
                for v in old:
                    if isinstance(v, ast.AST):
                        v = self.visit(v)
                        if v is None:
                            continue
                        if isinstance(v, list):
                            new.extend(v)
                            continue
                    new.append(v)
                old[:] = new
            elif isinstance(old, ast.AST):
                new = self.visit(old)
                if new is None:
                    delattr(node, field)
                else:
                    setattr(node, field, new)
        return node

    def visit_Expr(self, node):
        self.generic_visit(node)
        v = node.value
        if isinstance(v, ast.ListComp) and len(v.generators) == 1 and not v.generators[0].is_async:
            g = v.generators[0]
            body = [loc(ast.Expr(value=v.elt), node)]
            for cond in reversed(g.ifs):
                body = [loc(ast.If(test=cond, body=body, orelse=[]), node)]
            return loc(ast.For(target=g.target, iter=g.iter, body=body, orelse=[], type_comment=None), node)
        return node


def _defines(stmts):
    return any(isinstance(n, (ast.FunctionDef, ast.ClassDef, ast.Lambda)) for s in stmts for n in ast.walk(s))


def normalise(tree):
    """In-place normal form of a module / statement tree."""
    tree = Normaliser().visit(tree)
    ast.fix_missing_locations(tree)
    return tree


def normal_text(src):
    """Normal form of a source fragment (one or more statements, or an expression); fragments that do not parse on their
    own (a dangling block header) are completed with `pass` first. Returns None if the fragment cannot be parsed."""
    for cand in (src, src + ' pass', src + '\n    pass'):
        try:
            tree = ast.parse(cand)
        except SyntaxError:
            continue
        tree = normalise(tree)
        out = ast.unparse(tree)
        if cand is not src and out.rstrip().endswith('pass'):
            out = out.rstrip()[:-4]
        return out
    return None
