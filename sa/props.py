"""Property table: what each check decides / does not decide. MANIFEST.json is generated from this
(tools/gen_manifest.py); `claimed` flips to True only when the checker exists and is clean on the
unchanged tree."""

TRUSTED_BASE = [
    'CPython ast module parses /repo the way the interpreter does (Python 3 branch of the six.py version guards)',
    'clang++ 14 -fsyntax-only -ast-dump=json as C++ front-end (x86-64 SysV sizes/alignments of fixed-width types)',
    'struct module format widths/value domains; bytes.ljust pads with spaces unless given a fill byte; '
    'list.extend(iterator) appends as it goes whereas slice assignment materialises first; int/int is float on py3',
    'call-graph resolution by scope, class hierarchy and confirmed method-name families (over-approximation)',
    'std::vector<T>(n) value-initialises; std::hex and fill are sticky stream state, width is not',
    'normal form assumptions: ordering comparisons are between totally ordered values, attribute reads and the codec functions '
    '(_encode, encode_fcn) are free of side effects; /verif/reference/src is the version of the analysed sources on which the '
    'obligations were confirmed',
]


def P(title, decides, not_decided, technique, claimed=False, na_reason='checker not implemented yet'):
    technique += ('; Python sources compared in a normal form (copy propagation, block SSA / live ranges, tail duplication, if-shape, '
                  'loop and idiom normalisation, helper and constant folding) through atomic path facts (dominating and per path) and '
                  'meaning-level text; C++ through dominating / short-circuit guards and const-local substituted text; an obligation '
                  'whose structural argument can no longer be made is reported (E0.argument-lost), not skipped; reviewed-reference '
                  'fallback for local shape obligations (unused on the current tree)')
    return {'title': title, 'explanation': decides, 'not_decided': not_decided, 'technique': technique,
            'claimed': claimed, 'na_reason': na_reason}


PROPS = {
    'C01': P('Python encode emits the documented wire format',
             'Necessary structural clauses of the encode path, decided on the AST of prophy/: the struct, union and '
             'optional encode walkers perform the documented steps (pad to field alignment, field, block pad, end pad) '
             'in order with the documented offset/alignment sources over the descriptor in declaration order; every '
             'filler byte constant-folds to zero; counters are derived from the bound arrays; the byte order parameter '
             'is threaded unchanged to struct.pack; layout attributes are computed with optional-aware accessors and '
             'the documented aggregators; the runtime block-splitter predicate equals the documented one; the python '
             'generator emits descriptors whose runtime class matches the model member class.',
             'byte-for-byte equality of encode() output with the canonical encoding for all schemas and values',
             'AST skeleton extraction + sibling/role matching, constant folding, finite predicate abstraction', claimed=True),
    'C02': P('Python decode inverts encode',
             'Sibling agreement: each decode walker mirrors its encode walker step by step (same pad sources, same '
             'static slot sizes returned as consumed length); terminal unread-bytes test present and only on the '
             'terminal path, nested decodes pass terminal=False; len_hints written by the sizer decoder before the '
             'array decoder reads them; decode writes only decoded values into the message.',
             'value equality after the round trip for all schemas and values; the documented greedy-tail exception',
             'AST skeleton extraction, encode/decode sibling comparison, def-use on setattr sources', claimed=True),
    'C03': P('Python and C++ full codec wire-compatible',
             'Scalar tables agree across Python runtime, model and C++ (names, widths, C types, codec_traits); every '
             'multi-byte encode_int/decode_int specialisation has a bijective byte-lane table, identity for little and '
             'reversed for big, signed/float variants delegate to the same-width unsigned with the same E; '
             'encoder/decoder specialisations advance by the width they read/write; C++ optional encode/decode perform '
             'flag, gap, value/skip like the Python ones; generated union/struct encode and decode ladders agree; wire '
             'alignment is never taken from ABI alignment of composites; native overloads say native.',
             'byte equality between the Python and the C++ codec for all schemas and values; host endianness behaviour',
             'clang type-resolved AST rules (byte-lane abstract interpretation), generator-template ladders, table agreement', claimed=True),
    'C04': P('prophyc layout equals wire rules and runtime statics',
             'Builtin size tables agree; stiffness is a join (never below any part) decided by finite predicate '
             'abstraction of calc_wire_stiffness; encoded_byte_size published only under FIXED; optional and union size '
             'formulas depend on the documented inputs through the documented aggregators on both model and runtime; '
             'the three dynamic-field predicates of model.py are consistent; signed padding marker discipline in every '
             'consumer; optional-aware accessors in the runtime statics.',
             'numeric equality of sizes/alignments for all schemas; sizeof of raw structs',
             'table agreement, finite predicate abstraction of guards, def-use dependency obligations, idiom recognition', claimed=True),
    'C05': P('C++ full: get_byte_size equals bytes written',
             'Signed padding marker never used in arithmetic unguarded in generate_struct_get_byte_size; size ladder and '
             'encode ladder partition the member domain identically with one size term per encode statement; limited '
             'arrays clamped with the same min() in counter and data; only get_byte_size() sizes the vector in '
             'message::encode and nothing else allocates on the encode path; nearest<N> is a consistent round-up idiom.',
             'equality of get_byte_size() and bytes written for all values',
             'generator ladder comparison over an abstract member domain, marker-range guard evaluation, clang AST who-allocates rule', claimed=True),
    'C06': P('Python decode is total (ProphyError only)',
             'Interprocedural exception-escape analysis from struct.decode/union.decode: only ProphyError may escape; '
             'every struct.unpack / slice / consumed-size report is dominated by an exact remaining-length guard '
             '(len(data) - pos against the size about to be consumed); decoded counts pass a constant upper bound and a '
             'non-negativity test before reaching len_hints; decode loops have a visible progress argument.',
             'the fixpoint clause decode(encode(decode(x))), wall time and peak memory',
             'call graph + exception-escape dataflow, guard dominance with exact remaining-length recognition', claimed=True),
    'C07': P('C++ full decode memory-safe and exact',
             'On the clang AST of decoder.hpp/message.hpp: every cursor write and every decode_int read is dominated by a '
             'remaining-length check covering the advance; every vector resize is bounded by an expression in end - pos; '
             'no return true after a failed callee that advanced pos; generated decode touches pos only through checked '
             'helpers and every union path ends in a checked advance or return false; message::decode returns '
             'success && bytes_read == size and all overloads funnel through it.',
             'absence of all undefined behaviour; equality of re-encoded length',
             'guard-dominance over clang AST statement trees, generator template tokenisation, who-may-call', claimed=True),
    'C08': P('Raw C++ struct layout equals wire layout',
             'PROPHY_STRUCT is aligned+packed; every wire gap enumerated from the model (member padding, optional '
             'flag-to-value gap, union discriminator gap, part alignment) has an emitting construct in cpp.py guarded by the '
             'corresponding condition; padding marker used only when positive; _Padder decomposes 1..7; flag and '
             'discriminator widths; partition splits where the model treats a member as dynamic; part numbering agrees.',
             'actual offsetof/sizeof values of generated headers',
             'gap-obligation enumeration vs generator templates, marker guards, clang static_assert witness', claimed=True),
    'C09': P('Raw C++ swap converts in place',
             'prophy::swap(uint16/32/64) reverse all byte lanes (abstract interpretation over lanes), signed/float '
             'overloads delegate to the same width; swap_n_fixed/dynamic loop shapes; generated swap converts a '
             'discriminator/flag/counter before using it; every member class yields exactly one swap statement with '
             'dynamic/fixed mode chosen by element kind; cast targets are what follows in the wire layout; part numbering agrees.',
             'pointer walk over actual values; no byte outside the message changes',
             'byte-lane abstract interpretation on clang AST, generator ladder and template ordering rules', claimed=True),
    'C10': P('Python message API keeps states valid',
             'Every store into _fields / mutation of _values on a public path stores a checked value, a fresh T() or None '
             'under the optional setter; every growing mutator has a dominating limit guard whose truth set over a '
             'finite domain is exactly max_len>0 and new length > max_len; no mutation precedes an operation that can '
             'still reject; counters cannot be set; union arm accessors are gated on _discriminated; the numeric check '
             'domain equals the struct pack domain; slice handling honours all slice components.',
             'equality with a reference model over all histories',
             'store-site enumeration with dominance, finite-domain guard evaluation, check-then-act ordering', claimed=True),
    'C11': P('copy_from equal and independent',
             'No value reachable from the source is stored into the destination unless immutable on that path or a fresh '
             'object filled by copy_from; every field class reaches a branch whose assumptions hold (zip branch only for '
             'equal-length fixed arrays, copy_from target never None); copy_from clears before copying and the union '
             'copies _discriminated; nothing is stored through the source.',
             'equality of encodings after the copy for all values',
             'ownership/escape rule on copy paths, ladder coverage by predicate abstraction', claimed=True),
    'C12': P('prophyc accepts only what back-ends realise',
             'Each documented composability rule D1..D9 has an enforcement site (a rejection whose guard covers the '
             'forbidden set, or no grammar production) on each front-end path; existing enforcement sites keep their truth '
             'sets; every runtime class-construction rejection is covered or unreachable from generated code; names and '
             'arities the generators emit exist on the other side; check_nodes runs before any file is written.',
             'that every accepted schema actually imports/compiles',
             'validator-coverage by predicate abstraction, interface agreement between generators and runtime/headers', claimed=True),
    'C13': P('prophyc terminates with outputs or a designed diagnostic',
             'Exception-escape analysis from prophyc.main: only the designed channel (ProphycError, SystemExit, patch '
             'Exception) may escape; every ply error callback records an error or raises ParseError; argparse errors are '
             'routed to emit.error; every while loop and recursive cycle reachable from main has a visible progress '
             'argument or an acyclicity establisher.',
             'wall-clock bounds; ply and ElementTree internals',
             'call graph + exception-escape dataflow with an implicit-raise op table, loop/recursion progress classification', claimed=True),
    'C14': P('constant expressions denote one integer everywhere',
             'The two evaluators map shared operator tokens to the same Python operator with agreeing precedence tables; '
             'every applied operator is integer-closed; hex/decimal literal lexers denote the same language; no raw '
             'expression text reaches a back-end without evaluation; _to_literal suffix rule; names resolve through the '
             'same tables including includes.',
             'arithmetic results for all expressions',
             'operator-ladder/table agreement, integer-closure typing of BinOps, taint from XML attributes to emitted text', claimed=True),
    'C15': P('definition order does not matter',
             'topological_sort only permutes (insert/pop pairs); dependencies() of each node class cover every identifier '
             'the Python generator emits for it; the separator alphabet of Constant.dependencies covers the operator '
             'alphabet of calc; builtin known-set equals the scalar table; sort precedes cross_reference and follows patching.',
             'validity of the produced order for every DAG and start order',
             'effect rule on list mutations, emitted-identifier vs dependency set comparison, table agreement', claimed=True),
    'C16': P('multi-file schemas equal their concatenation',
             'FileProcessor caches by abspath with the cycle marker stored before processing and tested before use; '
             'push_dir/swap_dir restore in finally at the same index 0; include errors are routed to the error channel; '
             'every name class is propagated by p_include_def and walked by the model; the Python import covers every name '
             'an including module can mention; every generator translates Include; one FileProcessor per run.',
             'equivalence of outputs with the single-file build',
             'ordering/pairing rules on the AST, handler routing, name-class coverage', claimed=True),
    'C17': P('isar(+patch) and prophy front-ends agree',
             'Both front-ends construct StructMember with the same keyword vocabulary per array form and emit implicit '
             'sizers before their array with the same default type; make_enum two-complement constant equals 1<<(8*ENUM_SIZE); '
             'isar primitive types are builtin names; parse->patch->evaluate ordering; each patch action writes all slots '
             'of the over-constraint invariant it depends on and checks its documented precondition.',
             'equality of layouts/bytes between the front-ends for all schemas',
             'constructor-shape agreement, slot-write sets per patch action', claimed=True),
    'C18': P('text rendering same in Python and C++',
             'Every sticky stream manipulator in printer.hpp is restored on every path; print_byte escape table equals '
             'CPython bytes repr for single-quoted output; omission rules (counters, absent optionals, undiscriminated '
             'arms) and format pieces (indent, name: value, name { }, enumerators by name, make_pair for bytes) agree '
             'between field_to_string/__str__ and generate_*_print/printer.hpp.',
             'string equality for all messages; floating point formatting',
             'stream-state pairing on clang AST, escape-table agreement, format-literal agreement', claimed=True),
    'C19': P('byte order changes only scalar bytes; padding zero',
             'Non-interference of the byte order: the endianness parameter has no control or arithmetic dependents, is '
             'never reassigned and reaches only struct.pack/unpack format strings (Python) or the E template argument of '
             'encode_int/decode_int (C++); all filler is a zero constant; lane tables of all specialisations are mirror '
             'images; the C++ result vector is value-initialised and padding is only skipped.',
             'the relation between the two encodings of a given message value',
             'taint/non-interference on the endianness parameter, zero-fill constant folding, byte-lane tables', claimed=True),
    'C20': P('prophyc output deterministic',
             'No iteration order of a set flows to emitted text or list order; no hash/id/time/random/environ/pid source '
             'in prophyc; no absolute or cwd-dependent path reaches a translator; every module-level mutable or reused '
             'instance is reset at the start of each use or holds only pure results keyed by absolute path; default '
             'mutable arguments are never mutated; output names depend on the input basename only.',
             'determinism of ply/ElementTree internals',
             'set-order/nondeterminism-source taint, must-reset rule on shared state', claimed=True),
}
