"""Lazily built front-ends shared by the rules of one run."""
from . import pyfront


class Context(object):
    def __init__(self, repo):
        self.repo = repo
        self._py = None
        self._cxx = None

    @property
    def py(self):
        if self._py is None:
            self._py = pyfront.Tree(self.repo)
        return self._py

    @property
    def cxx(self):
        if self._cxx is None:
            from . import cxxfront
            self._cxx = cxxfront.CxxFront(self.repo)
        return self._cxx

    def inventory(self):
        inv = {}
        if self._py is not None:
            inv.update(self._py.inventory())
        if self._cxx is not None:
            inv.update(self._cxx.inventory())
        return inv
