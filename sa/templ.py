"""E8 TemplFront: what the code generators emit, read from their ASTs (never by running them).

For a generator function: its member ladder `for m in node.members: if ...: elif ...: else:` as a list of
branches, each with the guard chain and the string templates it formats/emits (with the `.format`
arguments bound to the holes)."""
import ast
import re

from .core import AnalysisError
from .pyfront import unparse


class Emit(object):
    """A string template emitted on a path, with its format arguments (sources) if any."""

    def __init__(self, text, args, node):
        self.text = text
        self.args = args      # list of source strings bound to {0},{1}.. ; {} for keywords
        self.node = node

    def hole(self, idx):
        if isinstance(idx, int):
            return self.args[idx] if idx < len(self.args) else None
        return None

    def __repr__(self):
        return '<Emit %r %r>' % (self.text, self.args)


def string_templates(node):
    """Every str constant under node, with the arguments of an enclosing `.format(...)` / `%` if the
    constant is the receiver."""
    out = []
    seen = set()
    for n in ast.walk(node):
        if isinstance(n, ast.Call) and isinstance(n.func, ast.Attribute) and n.func.attr == 'format':
            recv = n.func.value
            for c in _str_consts(recv):
                seen.add(id(c))
            text = _joined_text(recv)
            if text is not None:
                out.append(Emit(text, [unparse(a) for a in n.args] +
                                ['%s=%s' % (k.arg, unparse(k.value)) for k in n.keywords], n))
        elif isinstance(n, ast.BinOp) and isinstance(n.op, ast.Mod) and _joined_text(n.left) is not None:
            for c in _str_consts(n.left):
                seen.add(id(c))
            right = n.right.elts if isinstance(n.right, ast.Tuple) else [n.right]
            out.append(Emit(_joined_text(n.left), [unparse(a) for a in right], n))
    for n in ast.walk(node):
        if isinstance(n, ast.Constant) and isinstance(n.value, str) and id(n) not in seen:
            out.append(Emit(n.value, [], n))
    return out


def _str_consts(node):
    for n in ast.walk(node):
        if isinstance(n, ast.Constant) and isinstance(n.value, str):
            yield n


def _joined_text(node):
    """Text of a str constant or implicit/explicit concatenation of str constants (parenthesised)."""
    if isinstance(node, ast.Constant) and isinstance(node.value, str):
        return node.value
    if isinstance(node, ast.BinOp) and isinstance(node.op, ast.Add):
        a, b = _joined_text(node.left), _joined_text(node.right)
        if a is not None and b is not None:
            return a + b
    return None


class Branch(object):
    def __init__(self, guards, body, node):
        self.guards = guards    # [(test_node, polarity)] accumulated along the if/elif chain
        self.body = body        # statement list
        self.node = node

    @property
    def guard_src(self):
        return ' and '.join(('' if pol else 'not ') + '(' + unparse(t) + ')' for t, pol in self.guards) or 'True'

    def emits(self):
        out = []
        for s in self.body:
            out.extend(string_templates(s))
        return out


def if_chain(stmt, inherited=()):
    """Flatten `if a: A elif b: B else: C` into Branches with their accumulated guards.
    Nested ifs inside a branch body are NOT flattened (the body is kept whole)."""
    out = []
    guards = list(inherited)
    cur = stmt
    while True:
        out.append(Branch(guards + [(cur.test, True)], cur.body, cur))
        guards = guards + [(cur.test, False)]
        if len(cur.orelse) == 1 and isinstance(cur.orelse[0], ast.If):
            cur = cur.orelse[0]
            continue
        if cur.orelse:
            out.append(Branch(guards, cur.orelse, cur))
        else:
            out.append(Branch(guards, [], cur))
        break
    return out


def member_loop(func, iter_src_suffix='.members'):
    """The `for m in <x>.members:` loop of a generator function: (loopvar, For node)."""
    loops = [n for n in func.walk() if isinstance(n, ast.For) and unparse(n.iter).endswith(iter_src_suffix)
             and isinstance(n.target, ast.Name)]
    if len(loops) != 1:
        raise AnalysisError('%s: expected exactly one `for m in <node>.members` loop, found %d'
                            % (func.fq, len(loops)))
    return loops[0].target.id, loops[0]


def cxx_calls(text):
    """Tokenise an emitted C++ statement: [(callee, template_args_text, n_args)] (top-level commas)."""
    out = []
    for m in re.finditer(r'([A-Za-z_][\w:]*)\s*(<[^<>()]*>)?\s*\(', text):
        name, targs = m.group(1), m.group(2) or ''
        depth, i, n, has = 1, m.end(), 0, False
        while i < len(text) and depth:
            ch = text[i]
            if ch in '([':
                depth += 1
            elif ch in ')]':
                depth -= 1
            elif ch == ',' and depth == 1:
                n += 1
            elif not ch.isspace():
                has = True
            i += 1
        out.append((name, targs, (n + 1) if has else 0))
    return out


def assigns_cursor(text, var='pos'):
    """Does the emitted statement write the cursor raw (pos = / pos += / ++pos / pos++)?"""
    return bool(re.search(r'(^|[^\w.>])%s\s*(=[^=]|\+=|-=|\+\+|--)' % var, text) or
                re.search(r'(\+\+|--)\s*%s\b' % var, text))
