"""E11 Report: obligations ledger, known-findings matcher, evidence writer, exit codes.

Three outcomes (DESIGN 1.3): 0 all discharged (maybe KNOWN-FINDING lines), 1 VIOLATION,
2 ANALYSIS-ERROR (the checker cannot stand behind a verdict).
"""
import json
import os
import sys
import time

VERIF = os.path.dirname(os.path.dirname(os.path.abspath(__file__)))
REPO = os.environ.get('PROPHY_REPO', '/repo')
KNOWN_FILE = os.path.join(VERIF, 'known_findings.json')
EVIDENCE_DIR = os.environ.get('VERIF_EVIDENCE_DIR') or os.path.join(VERIF, 'evidence')


class AnalysisError(Exception):
    """An anchor vanished / a shape is not recognisable: the structural argument of a rule cannot be made on this tree.
    check.py reports it as a violation of rule E0.argument-lost (the obligation is not discharged): exit 1."""


class ToolError(AnalysisError):
    """The analysis itself could not run (clang failed, a source file does not parse, no checker, the self-test failed):
    ANALYSIS-ERROR, exit 2 - nothing is said about the property."""


class Obligation(object):
    __slots__ = ('rule', 'key', 'site', 'status', 'detail', 'what', 'deps')

    def __init__(self, rule, key, site, status, detail, what=''):
        self.rule = rule
        self.key = key          # stable, line-free identity of the construct
        self.site = site        # human location  file:line (qualname)
        self.status = status    # 'ok' | 'bad'
        self.detail = detail
        self.what = what
        self.deps = ()          # further functions the verdict depends on (reference comparison)

    def as_dict(self):
        return {'rule': self.rule, 'key': self.key, 'site': self.site, 'status': self.status,
                'detail': self.detail}


class Ledger(object):
    def __init__(self, pid):
        self.pid = pid
        self.obligations = []
        self.analysed = {}      # free-form inventory: units, functions, call sites
        self.floors = {}        # rule -> (found, floor)
        self.suppressions = []  # (rule, key, reason) that were used
        self.notes = []
        self.assumptions = []
        self.reviewed = None     # callable(obligation) -> bool: set by check.py (reference comparison, DESIGN 11.2)
        self.by_reference = []

    # -- recording -------------------------------------------------------------------------
    def ok(self, rule, key, site, detail=''):
        self.obligations.append(Obligation(rule, key, site, 'ok', detail))

    def bad(self, rule, key, site, what, detail='', deps=()):
        o = Obligation(rule, key, site, 'bad', detail, what)
        o.deps = tuple(deps or ())
        self.obligations.append(o)

    def check(self, cond, rule, key, site, what, detail='', deps=()):
        if cond:
            self.ok(rule, key, site, detail)
        else:
            self.bad(rule, key, site, what, detail, deps)
        return cond

    def note(self, text):
        self.notes.append(text)

    def suppress(self, rule, key, reason):
        self.suppressions.append({'rule': rule, 'key': key, 'reason': reason})

    def count(self, name, n):
        self.analysed[name] = self.analysed.get(name, 0) + n

    def inventory(self, name, items):
        self.analysed[name] = items

    def floor(self, rule, found, floor):
        """Instance floor: a rule matching fewer sites than confirmed by hand is analysis-broken."""
        # checked in finish(): a violation found elsewhere usually explains the missing instance and is the
        # more useful verdict; without one, a rule below its floor means "I no longer know what I am looking at"
        self.floors[rule] = (found, floor)

    def rule_count(self, rule):
        return sum(1 for o in self.obligations if o.rule == rule)


def load_known():
    if not os.path.exists(KNOWN_FILE):
        return []
    with open(KNOWN_FILE) as f:
        return json.load(f)['findings']


def finish(ledger, tier, seed, t0, rules_run, explanation, trusted_base, not_decided):
    """Match known findings, print lines, write evidence, return the exit code."""
    pid = ledger.pid
    known = [k for k in load_known() if pid in k['properties']]
    open_by_key = {(k['rule'], k['key']): k for k in known if k['status'] == 'open'}
    bad = [o for o in ledger.obligations if o.status == 'bad']
    matched, new = [], []
    seen_new = set()
    for o in bad:
        k = open_by_key.get((o.rule, o.key))
        if k is not None:
            matched.append((o, k))
        elif ledger.reviewed is not None and ledger.reviewed(o):
            # the rule did not recognise the construct, but the function it looks at is - in normal form - the function on which
            # this obligation was confirmed: a rule that is too literal must not turn that into an alarm
            o.status = 'ok'
            o.detail = '[function unchanged modulo normal form from the reviewed version; rule did not recognise it] ' + (o.detail or '')
            ledger.by_reference.append({'rule': o.rule, 'key': o.key, 'site': o.site})
        elif (o.rule, o.key) not in seen_new:
            seen_new.add((o.rule, o.key))
            new.append(o)
    printed = set()
    for o, k in matched:
        if k['id'] in printed:
            continue
        printed.add(k['id'])
        print('KNOWN-FINDING: property=%s %s [%s at %s]' % (pid, k['what'], o.rule, o.site))
    deficits = ['rule %s matched %d instance(s), floor confirmed by reading is %d' % (r, a, b)
                for r, (a, b) in sorted(ledger.floors.items()) if a < b]
    if deficits and not new:
        # fewer instances than were confirmed by reading: an anchored construct vanished or is no longer recognisable - the
        # obligations that used to be discharged on it are not discharged now
        o = Obligation('E0.argument-lost', 'floor|' + '; '.join(sorted(r for r, (a, b) in ledger.floors.items() if a < b)), pid, 'bad',
                       '', '; '.join(deficits) + ' (an anchored construct vanished or is no longer recognisable)')
        ledger.obligations.append(o)
        new.append(o)
    for d in deficits:
        print('  note: ' + d)
    replay_dir = os.path.join(EVIDENCE_DIR, 'replay')
    replays = []
    if os.path.isdir(replay_dir):
        for fn in os.listdir(replay_dir):
            if fn.startswith(pid + '-'):
                os.unlink(os.path.join(replay_dir, fn))
    if new:
        os.makedirs(replay_dir, exist_ok=True)
    for n, o in enumerate(new):
        path = os.path.join(replay_dir, '%s-%s-%d.json' % (pid, o.rule.replace('/', '_'), n))
        with open(path, 'w') as f:
            json.dump({'property': pid, 'rule': o.rule, 'key': o.key, 'site': o.site, 'what': o.what,
                       'detail': o.detail}, f, indent=1)
        replays.append(path)
        print('  rule %s at %s: %s' % (o.rule, o.site, o.what))
        if o.detail:
            print('    construct: %s' % (o.detail,))
        print('VIOLATION property=%s replay=%s' % (pid, path))

    n_ob = len(ledger.obligations)
    n_ok = sum(1 for o in ledger.obligations if o.status == 'ok')
    distinct = len(set((o.rule, o.key) for o in ledger.obligations))
    samples = []
    per_rule = {}
    for o in ledger.obligations:
        per_rule.setdefault(o.rule, {'ok': 0, 'bad': 0})[o.status] += 1
        if sum(1 for s in samples if s['rule'] == o.rule) < 2 and len(samples) < 40:
            samples.append(o.as_dict())
    evidence = {
        'property_id': pid,
        'tier': tier,
        'seed': seed,
        'level': 'other',
        'coverage': {
            'explanation': explanation,
            'evaluations': n_ob,
            'distinct_nontrivial': distinct,
            'rule': 'one evaluation = one obligation (rule instance on a construct located in /repo by role); '
                    'distinct = distinct (rule, construct key) pairs; every obligation is non-vacuous: it names a '
                    'construct that exists in the analysed source',
            'obligations': n_ob,
            'discharged': n_ok,
            'known_findings_matched': sorted(printed),
            'new_violations': [o.as_dict() for o in new],
            'checker_cmd': '/venv/bin/python /verif/check.py %s --tier %s' % (pid, tier),
            'trusted_base': trusted_base,
            'rules_run': rules_run,
            'per_rule': per_rule,
            'instance_floors': {r: {'found': a, 'floor': b} for r, (a, b) in ledger.floors.items()},
            'analysed': ledger.analysed,
            'suppressions': ledger.suppressions,
            'discharged_by_reviewed_reference': ledger.by_reference,
            'notes': ledger.notes,
            'not_decided': not_decided,
            'samples': samples,
            'exhaustive': False,
        },
        'assumptions': ledger.assumptions + trusted_base,
        'wall_s': round(time.time() - t0, 3),
        'violations': len(new),
    }
    os.makedirs(EVIDENCE_DIR, exist_ok=True)
    with open(os.path.join(EVIDENCE_DIR, pid + '.json'), 'w') as f:
        json.dump(evidence, f, indent=1, sort_keys=True, default=str)
    print('%s: %d obligations over %d rules, %d discharged, %d known finding(s), %d new violation(s), %.2fs'
          % (pid, n_ob, len(per_rule), n_ok, len(printed), len(new), time.time() - t0))
    return 1 if new else 0


def write_error_evidence(pid, tier, seed, t0, message):
    os.makedirs(EVIDENCE_DIR, exist_ok=True)
    with open(os.path.join(EVIDENCE_DIR, pid + '.json'), 'w') as f:
        json.dump({'property_id': pid, 'tier': tier, 'seed': seed, 'level': 'other',
                   'coverage': {'explanation': 'ANALYSIS-ERROR: ' + message, 'evaluations': 1,
                                'distinct_nontrivial': 0, 'samples': [message]},
                   'wall_s': round(time.time() - t0, 3), 'violations': 0}, f, indent=1)
