"""Helpers over the clang AST: statement dominance (guards), remaining-length guard recognition,
byte-lane abstract interpretation (F5), loop shapes (F5b)."""
import re

from .core import AnalysisError

STMT_LIST = ('CompoundStmt',)


def nows(s):
    return re.sub(r'\s+', '', s or '')


def is_ref(n, name):
    n = n.strip()
    return n.kind == 'DeclRefExpr' and n.ref == name


def returns_false(stmt):
    """Does this statement (the then-branch of a guard) always `return false`?"""
    s = stmt
    if s.kind == 'CompoundStmt':
        if not s.kids:
            return False
        s = s.kids[-1]
    if s.kind != 'ReturnStmt' or not s.kids:
        return False
    v = s.kids[0].strip()
    return v.kind == 'CXXBoolLiteralExpr' and v.value is False


def always_returns(stmt):
    s = stmt
    if s.kind == 'CompoundStmt':
        if not s.kids:
            return False
        s = s.kids[-1]
    return s.kind == 'ReturnStmt'


def if_parts(ifs):
    """(cond, then, else|None) of an IfStmt (clang puts init/condvar first only when present)."""
    kids = ifs.kids
    if ifs.j.get('hasElse'):
        return kids[-3], kids[-2], kids[-1]
    return kids[-2], kids[-1], None


def dominating_guards(stmt, func_body):
    """[(cond_node, polarity, kind)] that hold when stmt starts: enclosing if branches and earlier
    sibling `if (c) return ...;` statements in every enclosing compound statement."""
    out = []
    n = stmt
    while n is not None and n is not func_body.parent:
        p = n.parent
        if p is None:
            break
        if p.kind == 'CompoundStmt':
            for s in p.kids:
                if s is n:
                    break
                if s.kind == 'IfStmt':
                    c, t, e = if_parts(s)
                    if always_returns(t) and e is None:
                        out.append((c, False, 'early-exit:false' if returns_false(t) else 'early-exit:return'))
        elif p.kind == 'IfStmt':
            c, t, e = if_parts(p)
            if n is t:
                out.append((c, True, 'branch'))
            elif n is e:
                out.append((c, False, 'branch'))
        elif p.kind == 'WhileStmt':
            if n is p.kids[-1]:
                out.append((p.kids[0], True, 'loop'))
        n = p
    return atomise(out)


def guards_at(node, func_body):
    """What holds when the expression `node` is evaluated: the operands to its left in `a && node` (hold) / `a || node` (fail),
    then the guards that dominate the statement it belongs to. [(cond, polarity, kind)] in atomic form."""
    out = []
    cur = node
    stmt = node
    while cur.parent is not None and cur is not func_body:
        p = cur.parent
        b = p.bin if p.kind in ('BinaryOperator', 'CXXOperatorCallExpr') else None
        if b is not None and b[0] in ('&&', '||'):
            inside_rhs = any(x is cur for x in b[2].walk())
            if inside_rhs:
                out.append((b[1], b[0] == '&&', 'short-circuit'))
        if p.kind == 'CompoundStmt' or (p.kind == 'IfStmt' and cur in if_parts(p)[1:]) or (p.kind == 'WhileStmt' and cur is p.kids[-1]):
            stmt = cur
            break
        cur = p
        stmt = cur
    return atomise(out) + dominating_guards(stmt, func_body)


def failure_returns_false(call, func_body):
    """Is a false result of `call` turned into `return false` (directly: `if (!call) return false;`, or as one operand of the
    condition: `if (a && !call) return false;`, or by being the returned value)?"""
    cur = call
    while cur.parent is not None and cur is not func_body:
        p = cur.parent
        if p.kind == 'ReturnStmt':
            v = p.kids[0].strip() if p.kids else None
            return v is not None and (v is call.strip() or v is call)
        if p.kind == 'IfStmt' and any(x is call for x in if_parts(p)[0].walk()):
            c, t, e = if_parts(p)
            atoms = atomise([(c, True, 'cond')])
            return returns_false(t) and any(pol is False and (a.strip() is call.strip() or a is call) for a, pol, _ in atoms)
        cur = p
    return False


def single_assignment_locals(body):
    """{name: initialiser node} of the locals of a function body that are initialised where they are declared and never
    assigned, incremented or have their address taken afterwards (whether a callee changes them through a reference parameter
    is not visible here: use only where the local is handed over by value)."""
    out = {}
    for d in body.find('VarDecl'):
        if d.kids and d.j.get('init') is not None and d.parent is not None and d.parent.kind == 'DeclStmt':
            out[d.name] = d.kids[-1]
    for n in body.walk():
        tgt = None
        if n.kind in ('BinaryOperator', 'CompoundAssignOperator') and n.opcode in ('=', '+=', '-=', '*=', '/=', '|=', '&=', '^=', '<<=', '>>=') and n.kids:
            tgt = n.kids[0]
        elif n.kind == 'UnaryOperator' and n.opcode in ('++', '--', '&') and n.kids:
            tgt = n.kids[0]
        if tgt is not None:
            t = tgt
            while t.kind in ('ImplicitCastExpr', 'ParenExpr') and t.kids:
                t = t.kids[0]
            if t.kind == 'DeclRefExpr':
                out.pop(t.ref, None)
    return out


def nstmts(body, loose=None):
    """Normal-form texts of the statements of a body; declarations of locals that `ntext` substitutes are left out."""
    out = []
    for s_ in stmts_of(body):
        if s_.kind == 'DeclStmt' and s_.kids and all(k.kind == 'VarDecl' for k in s_.kids):
            names = [k.name for k in s_.kids]
            probe = [r for r in body.find('DeclRefExpr') if r.ref in names]
            if probe and all(r.const_local_init(refs=True) is not None or (loose is not None and r.ref in loose) for r in probe):
                continue
            if not probe and all((k.type or '').startswith('const ') for k in s_.kids):
                continue
        out.append(s_.front.ntext(s_, 0, loose).rstrip(';'))
    return out


def atomise(conds):
    """`a || b` failing means both fail; `a && b` holding means both hold; `!a` holding means a fails."""
    out = []
    stack = list(conds)
    while stack:
        c, pol, kind = stack.pop(0)
        n = c.strip()
        b = n.bin if n.kind in ('BinaryOperator', 'CXXOperatorCallExpr') else None
        if b is not None and ((b[0] == '||' and pol is False) or (b[0] == '&&' and pol is True)):
            stack = [(b[1], pol, kind), (b[2], pol, kind)] + stack
        elif n.kind == 'UnaryOperator' and n.opcode == '!' and n.kids:
            stack = [(n.kids[0], not pol, kind)] + stack
        else:
            out.append((c, pol, kind))
    return out


def remaining_guard(cond, polarity, pos, end):
    """If (cond, polarity) says  size_t(end - pos) >= N  holds, return the node N; else None.
    Recognised: `size_t(end - pos) < N` failing (polarity False); `N > size_t(end - pos)` failing."""
    c = cond.strip()
    if c.kind != 'BinaryOperator' or polarity is not False:
        return None
    l, r = c.kids[0], c.kids[1]
    if c.opcode == '<' and is_remaining(l, pos, end):
        return r
    if c.opcode == '>' and is_remaining(r, pos, end):
        return l
    return None


def is_remaining(n, pos, end):
    """size_t(end - pos) in any cast spelling (functional, C-style, static_cast)."""
    n = n.strip()
    if n.kind not in ('CXXFunctionalCastExpr', 'CStyleCastExpr', 'CXXStaticCastExpr'):
        return False
    if 'size_t' not in (n.type or '') and 'unsigned long' not in (n.type or ''):
        return False
    inner = n.kids[-1].strip() if n.kids else None
    return inner is not None and is_diff(inner, end, pos)


def is_diff(n, a, b):
    n = n.strip()
    return (n.kind == 'BinaryOperator' and n.opcode == '-' and is_ref(n.kids[0], a) and is_ref(n.kids[1], b))


def mentions_remaining(n, pos, end):
    for x in n.walk():
        if x.kind == 'BinaryOperator' and x.opcode == '-' and is_ref(x.kids[0], end) and is_ref(x.kids[1], pos):
            return True
    return False


def enclosing(n, kind):
    p = n.parent
    while p is not None:
        if p.kind == kind:
            return p
        p = p.parent
    return None


def stmts_of(body):
    """Direct statements of a compound (or the single statement)."""
    return body.kids if body.kind == 'CompoundStmt' else [body]


def counted_loop(w):
    """A `while (n)` / `while (n--)` loop: returns (counter_name, decrements_in_body, body_stmts) or None."""
    cond = w.kids[0].strip()
    body = stmts_of(w.kids[-1])
    if cond.kind == 'DeclRefExpr':
        name = cond.ref
        dec = 0
        for s in body:
            for x in s.walk():
                if x.kind == 'UnaryOperator' and x.opcode == '--' and is_ref(x.kids[0], name):
                    dec += 1
                if x.kind == 'CompoundAssignOperator' and x.opcode == '-=' and is_ref(x.kids[0], name):
                    dec += 100
        return name, dec, body
    if cond.kind == 'UnaryOperator' and cond.opcode == '--' and cond.j.get('isPostfix') and \
            cond.kids[0].strip().kind == 'DeclRefExpr':
        name = cond.kids[0].strip().ref
        extra = sum(1 for s in body for x in s.walk()
                    if x.kind in ('UnaryOperator', 'CompoundAssignOperator') and x.opcode in ('--', '-=', '++', '+=')
                    and is_ref(x.kids[0], name))
        return name, 1 + extra, body
    return None


# ------------------------------------------------------------------------------------------------
# byte-lane abstract domain (F5): a value of n bytes is a list of lanes, least significant first;
# each lane is ('src', k) = byte k of the source, 'Z' = zero, 'T' = unknown.

Z, T = 'Z', 'T'


def lanes_src(n):
    return [('src', k) for k in range(n)]


def lanes_zero(n):
    return [Z] * n


def lanes_top(n):
    return [T] * n


def lane_or(a, b):
    n = max(len(a), len(b))
    a = a + [Z] * (n - len(a))
    b = b + [Z] * (n - len(b))
    out = []
    for x, y in zip(a, b):
        if x == Z:
            out.append(y)
        elif y == Z:
            out.append(x)
        elif x == y and x != T:
            out.append(x)
        else:
            out.append(T)
    return out


def lane_shl(a, bits, width):
    if bits % 8:
        return lanes_top(width)
    k = bits // 8
    out = ([Z] * k + a)[:width]
    return out + [Z] * (width - len(out))


def lane_shr(a, bits, width):
    if bits % 8:
        return lanes_top(width)
    k = bits // 8
    out = a[k:]
    return (out + [Z] * width)[:width]


def lane_and(a, mask, width):
    out = []
    for i in range(width):
        mb = (mask >> (8 * i)) & 0xFF
        lane = a[i] if i < len(a) else Z
        out.append(lane if mb == 0xFF else Z if mb == 0 else (Z if lane == Z else T))
    return out


def lane_resize(a, width):
    return (a + [Z] * width)[:width]


WIDTHS = {'unsigned char': 1, 'uint8_t': 1, 'unsigned short': 2, 'uint16_t': 2, 'unsigned int': 4, 'uint32_t': 4,
          'unsigned long': 8, 'uint64_t': 8, 'unsigned long long': 8, 'int': 4, 'short': 2, 'long': 8,
          'int16_t': 2, 'int32_t': 4, 'int64_t': 8, 'float': 4, 'double': 8, 'signed char': 1, 'int8_t': 1,
          'char': 1, 'long long': 8}


def type_width(t):
    if t is None:
        return None
    t = t.replace('const ', '').replace('&', '').strip()
    return WIDTHS.get(t)


def int_value(n):
    n = n.strip()
    if n.kind == 'IntegerLiteral':
        return int(n.value)
    return None


class LaneEval(object):
    """Evaluates a clang expression over the lane domain. `env` maps a source text (e.g. '*in', 'in',
    'pos[3]') or decl name to lanes."""

    def __init__(self, env, subscript_base=None):
        self.env = env
        self.subscript_base = subscript_base   # name of the byte array whose element k is source byte k

    def ev(self, n):
        n0 = n
        while n0.kind in ('ImplicitCastExpr', 'ParenExpr') and n0.kids:
            n0 = n0.kids[0]
        if n0.kind == 'DeclRefExpr' and n0.ref in self.env:
            # a local evaluated where it was declared (not re-evaluated from its initialiser at the point of use)
            return lane_resize(self.env[n0.ref], type_width(n0.type) or 8)
        n = n.strip()
        w = type_width(n.type) or 8
        if n.kind == 'IntegerLiteral':
            v = int(n.value)
            return [('const', (v >> (8 * i)) & 0xFF) if (v >> (8 * i)) & 0xFF else Z for i in range(w)]
        key = nows(n.text)
        if key in self.env:
            return lane_resize(self.env[key], w)
        if n.kind == 'DeclRefExpr' and n.ref in self.env:
            return lane_resize(self.env[n.ref], w)
        if n.kind == 'ArraySubscriptExpr' and self.subscript_base is not None:
            base, idx = n.kids[0].strip(), int_value(n.kids[1])
            if is_ref(base, self.subscript_base) and idx is not None:
                return [('src', idx)] + [Z] * (w - 1)
            return lanes_top(w)
        if n.kind in ('CXXFunctionalCastExpr', 'CStyleCastExpr', 'CXXStaticCastExpr'):
            return lane_resize(self.ev(n.kids[-1]), w)
        if n.kind == 'ImplicitCastExpr' or n.kind == 'ParenExpr':
            return lane_resize(self.ev(n.kids[0]), w)
        if n.kind == 'UnaryOperator' and n.opcode == '*':
            return lanes_top(w)
        if n.kind == 'BinaryOperator':
            op = n.opcode
            a = self.ev(n.kids[0])
            if op in ('<<', '>>'):
                s = int_value(n.kids[1])
                if s is None:
                    return lanes_top(w)
                a = lane_resize(a, w)
                return lane_shl(a, s, w) if op == '<<' else lane_shr(a, s, w)
            if op == '&':
                m = int_value(n.kids[1])
                if m is None:
                    m = int_value(n.kids[0])
                    a = self.ev(n.kids[1])
                if m is None:
                    return lanes_top(w)
                return lane_and(lane_resize(a, w), m, w)
            if op == '|':
                return lane_resize(lane_or(a, self.ev(n.kids[1])), w)
        return lanes_top(w)


def expect_lanes(width, order):
    """little: lane k <- src k ; big: lane k <- src (width-1-k)"""
    if order == 'little':
        return [('src', k) for k in range(width)]
    return [('src', width - 1 - k) for k in range(width)]
