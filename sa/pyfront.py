"""E1 PyFront + E2-lite: parse /repo's Python, function/class tables with nested closures, constant
folding, normalised source of constructs, path conditions (guards that hold when a node is reached).

No module of the repository is imported or executed.
"""
import ast
import os

from .core import AnalysisError, ToolError

PKGS = ('prophy', 'prophyc')
SKIP_DIRS = ('tests', 'clang', '__pycache__')


class Src(str):
    """Source text of a construct. `fragment in text` holds when the fragment occurs literally, or - the analysed trees being
    in normal form (sa/canon.py) - when the *normal form* of the fragment occurs modulo consistent renaming of local names
    (hook installed by rules/shared_py.py). Equality stays exact."""
    hook = None
    alts = ()       # the same construct in the light normal form (no propagation of locals, no helper folding): a fragment
                    # written the way the source spells it is still found after the full normal form has substituted its locals

    def __contains__(self, piece):
        if str.__contains__(self, piece):
            return True
        if Src.hook is not None and Src.hook(piece, self):
            return True
        for a in self.alts:
            if str.__contains__(a, piece) or (Src.hook is not None and Src.hook(piece, a)):
                return True
        return False


def ws(s):
    import re
    r = Src(re.sub(r'\s+', ' ', s))
    if isinstance(s, Src) and s.alts:
        r.alts = tuple(re.sub(r'\s+', ' ', a) for a in s.alts)
    return r


def unparse(node):
    if node is None:
        return Src('None')
    if isinstance(node, list):
        return Src('; '.join(unparse(n) for n in node))
    r = Src(ast.unparse(node))
    light = getattr(node, '_light', None)
    if light is not None:
        r.alts = (ast.unparse(light),)
    return r


class Func(object):
    """A function (def or lambda-free) with its qualified name and lexical parents."""

    def __init__(self, module, qualname, node, parent, cls):
        self.module = module
        self.qualname = qualname
        self.node = node
        self.parent = parent      # enclosing Func or None
        self.cls = cls            # enclosing class name (innermost) or None
        self.params = [a.arg for a in node.args.posonlyargs + node.args.args + node.args.kwonlyargs]
        if node.args.vararg:
            self.params.append(node.args.vararg.arg)
        if node.args.kwarg:
            self.params.append(node.args.kwarg.arg)

    @property
    def fq(self):
        return '%s:%s' % (self.module.name, self.qualname)

    def site(self, node=None):
        n = node if node is not None else self.node
        return '%s:%d (%s)' % (self.module.rel, getattr(n, 'lineno', 0), self.qualname)

    def walk(self, into_nested=False):
        """All nodes of the body; nested function/class bodies excluded unless asked."""
        nested = (ast.FunctionDef, ast.AsyncFunctionDef, ast.ClassDef, ast.Lambda)
        stack = [s for s in self.node.body if into_nested or not isinstance(s, nested)]
        while stack:
            n = stack.pop()
            yield n
            for c in ast.iter_child_nodes(n):
                if not into_nested and isinstance(c, (ast.FunctionDef, ast.AsyncFunctionDef, ast.ClassDef,
                                                      ast.Lambda)):
                    continue
                stack.append(c)

    def __repr__(self):
        return '<Func %s>' % self.fq


class Module(object):
    def __init__(self, root, rel):
        self.rel = rel
        self.path = os.path.join(root, rel)
        self.name = rel[:-3].replace('/', '.')
        if self.name.endswith('.__init__'):
            self.name = self.name[:-9]
        with open(self.path, encoding='utf-8') as f:
            self.source = f.read()
        try:
            self.tree = ast.parse(self.source, self.path)
        except SyntaxError as e:
            raise ToolError('module %s does not parse: %s' % (rel, e))
        fold_version_guards(self.tree)
        if not os.environ.get('SA_NO_CANON'):
            from . import canon
            if not os.environ.get('SA_NO_INLINE') and not os.environ.get('SA_NO_CANON2'):
                from . import canon2, inline
                base = inline.baseline()
                if base:
                    self.folded_constants = canon2.fold_module_constants(self.tree, set(base.get(self.name + '#names', [])))
            self.tree = canon.normalise(self.tree)
            if not os.environ.get('SA_NO_INLINE'):
                from . import inline
                self.folded = inline.inline_module(self.tree, self.name)
                if self.folded:
                    self.tree = canon.normalise(self.tree)
        self.folded = getattr(self, 'folded', [])
        self._attach_light()
        self.funcs = {}          # qualname -> [Func] (duplicates: if/else variants in order)
        self.classes = {}        # qualname -> ClassDef
        self.class_bases = {}    # qualname -> [base source]
        self.parents = {}        # id(node) -> parent node
        self.func_of = {}        # id(node) -> Func containing it (innermost)
        self.imports = {}        # local name -> dotted target ('prophyc.model', 'prophyc.model.Kind')
        self._index()

    def _attach_light(self):
        """Every function node of the analysed tree gets `_light`: the same function with only the local rewrites of the
        normal form applied (comparison / if shapes), locals and helpers left as written."""
        if os.environ.get('SA_NO_CANON') or os.environ.get('SA_NO_LIGHT'):
            return
        from . import canon
        light = ast.parse(self.source, self.path)
        fold_version_guards(light)
        light = canon.normalise_light(light)

        def quals(tree):
            out = {}

            def walk(body, prefix):
                for s in body:
                    if isinstance(s, (ast.FunctionDef, ast.AsyncFunctionDef)):
                        out.setdefault(prefix + s.name, []).append(s)
                        walk(s.body, prefix + s.name + '.')
                    elif isinstance(s, ast.ClassDef):
                        walk(s.body, prefix + s.name + '.')
                    else:
                        for field in ('body', 'orelse', 'finalbody'):
                            b = getattr(s, field, None)
                            if isinstance(b, list):
                                walk([x for x in b if isinstance(x, ast.stmt)], prefix)
                        for h in getattr(s, 'handlers', []) or []:
                            walk(h.body, prefix)
            walk(tree.body, '')
            return out
        a, b = quals(self.tree), quals(light)
        for q, nodes in a.items():
            if len(b.get(q, [])) == len(nodes):
                for n, l in zip(nodes, b[q]):
                    n._light = l

    def _index(self):
        for parent in ast.walk(self.tree):
            for child in ast.iter_child_nodes(parent):
                self.parents[id(child)] = parent
        pkg = self.name.rsplit('.', 1)[0] if '.' in self.name else self.name
        is_pkg = self.rel.endswith('__init__.py')
        for n in ast.walk(self.tree):
            if isinstance(n, ast.Import):
                for a in n.names:
                    self.imports[a.asname or a.name.split('.')[0]] = a.name if a.asname else a.name.split('.')[0]
                    if a.asname:
                        self.imports[a.asname] = a.name
            elif isinstance(n, ast.ImportFrom):
                base = n.module or ''
                if n.level:
                    anchor = self.name if is_pkg else pkg
                    parts = anchor.split('.')
                    if n.level > 1:
                        parts = parts[:-(n.level - 1)]
                    base = '.'.join(parts + ([n.module] if n.module else []))
                for a in n.names:
                    self.imports[a.asname or a.name] = base + '.' + a.name

        def visit(body, prefix, parent_func, cls):
            for n in body:
                self._visit_stmt(n, prefix, parent_func, cls, visit)
        visit(self.tree.body, '', None, None)

    def _visit_stmt(self, n, prefix, parent_func, cls, visit):
        if isinstance(n, (ast.FunctionDef, ast.AsyncFunctionDef)):
            q = prefix + n.name
            f = Func(self, q, n, parent_func, cls)
            self.funcs.setdefault(q, []).append(f)
            for sub in ast.walk(n):
                self.func_of.setdefault(id(sub), f)
            # innermost wins: overwrite for nested ones afterwards
            self._mark(n, f)
            visit(n.body, q + '.', f, cls)
        elif isinstance(n, ast.ClassDef):
            q = prefix + n.name
            self.classes[q] = n
            self.class_bases[q] = [unparse(b) for b in n.bases]
            visit(n.body, q + '.', parent_func, q)
        else:
            for field in ('body', 'orelse', 'finalbody', 'handlers'):
                sub = getattr(n, field, None)
                if isinstance(sub, list):
                    for s in sub:
                        if isinstance(s, ast.ExceptHandler):
                            visit(s.body, prefix, parent_func, cls)
                        elif isinstance(s, ast.stmt):
                            self._visit_stmt(s, prefix, parent_func, cls, visit)

    def _mark(self, fnode, f):
        for sub in ast.walk(fnode):
            self.func_of[id(sub)] = f

    # ------------------------------------------------------------------------------------------
    def func(self, qualname, index=None):
        fs = self.funcs.get(qualname)
        if not fs:
            raise AnalysisError('anchor vanished: function %s not found in %s' % (qualname, self.rel))
        if index is None:
            if len(fs) != 1:
                raise AnalysisError('anchor ambiguous: %d definitions of %s in %s' % (len(fs), qualname, self.rel))
            return fs[0]
        if index >= len(fs):
            raise AnalysisError('anchor vanished: variant %d of %s in %s' % (index, qualname, self.rel))
        return fs[index]

    def has_func(self, qualname):
        return qualname in self.funcs

    def cls(self, qualname):
        c = self.classes.get(qualname)
        if c is None:
            raise AnalysisError('anchor vanished: class %s not found in %s' % (qualname, self.rel))
        return c

    def parent(self, node):
        return self.parents.get(id(node))

    def all_funcs(self):
        for fs in self.funcs.values():
            for f in fs:
                yield f

    def assign_value(self, name, scope=None):
        """Value node of the (single) module-level or class-level assignment `name = ...`."""
        body = self.tree.body if scope is None else self.cls(scope).body
        found = [s.value for s in body if isinstance(s, ast.Assign)
                 for t in s.targets if isinstance(t, ast.Name) and t.id == name]
        if len(found) != 1:
            raise AnalysisError('anchor vanished: assignment %s%s in %s (found %d)'
                                % ((scope + '.') if scope else '', name, self.rel, len(found)))
        return found[0]


def fold_version_guards(tree):
    """`if sys.version < '3': A else: B` -> B (the only interpreter on this image is Python 3)."""
    for node in ast.walk(tree):
        for field in ('body', 'orelse'):
            body = getattr(node, field, None)
            if not isinstance(body, list):
                continue
            out = []
            for s in body:
                if (isinstance(s, ast.If) and isinstance(s.test, ast.Compare)
                        and unparse(s.test.left) in ('sys.version', 'sys.version_info')
                        and len(s.test.ops) == 1 and isinstance(s.test.ops[0], ast.Lt)):
                    out.extend(s.orelse)
                else:
                    out.append(s)
            setattr(node, field, out)


class Tree(object):
    def __init__(self, root):
        self.root = root
        self.modules = {}
        for pkg in PKGS:
            base = os.path.join(root, pkg)
            if not os.path.isdir(base):
                raise ToolError('package %s missing under %s' % (pkg, root))
            for d, dirs, files in os.walk(base):
                dirs[:] = sorted(x for x in dirs if x not in SKIP_DIRS)
                for fn in sorted(files):
                    if fn.endswith('.py') and not fn.startswith('test_') and fn != 'conftest.py':
                        rel = os.path.relpath(os.path.join(d, fn), root)
                        m = Module(root, rel)
                        self.modules[m.name] = m

    def mod(self, name):
        m = self.modules.get(name)
        if m is None:
            raise AnalysisError('anchor vanished: module %s' % name)
        return m

    def func(self, spec, index=None):
        """'prophy.composite:struct.encode'"""
        mod, q = spec.split(':')
        return self.mod(mod).func(q, index)

    def inventory(self):
        return {'python_modules': sorted(self.modules),
                'python_functions': sum(len(v) for m in self.modules.values() for v in m.funcs.values())}


# ------------------------------------------------------------------------------------------------
# constant folding

class NotConst(Exception):
    pass


_BIN = {ast.Add: lambda a, b: a + b, ast.Sub: lambda a, b: a - b, ast.Mult: lambda a, b: a * b,
        ast.LShift: lambda a, b: a << b, ast.RShift: lambda a, b: a >> b, ast.BitOr: lambda a, b: a | b,
        ast.BitAnd: lambda a, b: a & b, ast.FloorDiv: lambda a, b: a // b, ast.Mod: lambda a, b: a % b}


def const_eval(node, env=None):
    """Folds literals, tuples/lists/dicts/sets of them, + - * << >> | & on them, names bound in env."""
    env = env or {}
    if isinstance(node, ast.Constant):
        return node.value
    if isinstance(node, ast.Name):
        if node.id in env:
            return env[node.id]
        raise NotConst(node.id)
    if isinstance(node, ast.Tuple):
        return tuple(const_eval(e, env) for e in node.elts)
    if isinstance(node, ast.List):
        return [const_eval(e, env) for e in node.elts]
    if isinstance(node, ast.Set):
        return set(const_eval(e, env) for e in node.elts)
    if isinstance(node, ast.Dict):
        return {const_eval(k, env): const_eval(v, env) for k, v in zip(node.keys, node.values)}
    if isinstance(node, ast.UnaryOp) and isinstance(node.op, ast.USub):
        return -const_eval(node.operand, env)
    if isinstance(node, ast.UnaryOp) and isinstance(node.op, ast.Not):
        return not const_eval(node.operand, env)
    if isinstance(node, ast.BinOp) and type(node.op) in _BIN:
        a, b = const_eval(node.left, env), const_eval(node.right, env)
        try:
            return _BIN[type(node.op)](a, b)
        except Exception:
            raise NotConst(unparse(node))
    if isinstance(node, (ast.GeneratorExp, ast.ListComp, ast.SetComp)):
        # a comprehension over constants (`x + y for x in 'ui' for y in ['8', '16']`)
        def expand(gens, e):
            if not gens:
                yield const_eval(node.elt, e)
                return
            g = gens[0]
            it = const_eval(g.iter, e)
            if not isinstance(it, (str, tuple, list, set, frozenset)):
                raise NotConst(unparse(g.iter))
            for v in (sorted(it) if isinstance(it, (set, frozenset)) else it):
                e2 = dict(e)
                if isinstance(g.target, ast.Name):
                    e2[g.target.id] = v
                else:
                    raise NotConst(unparse(g.target))
                if all(const_eval(c, e2) for c in g.ifs):
                    for x in expand(gens[1:], e2):
                        yield x
        vals = list(expand(node.generators, env))
        return set(vals) if isinstance(node, ast.SetComp) else vals
    if isinstance(node, ast.Call) and isinstance(node.func, ast.Name) and node.func.id in ('set', 'frozenset', 'tuple', 'list', 'sorted') \
            and len(node.args) == 1 and not node.keywords:
        v = const_eval(node.args[0], env)
        try:
            return {'set': set, 'frozenset': frozenset, 'tuple': tuple, 'list': list, 'sorted': sorted}[node.func.id](v)
        except Exception:
            raise NotConst(unparse(node))
    if isinstance(node, ast.Subscript):
        base = const_eval(node.value, env)
        try:
            return base[const_eval(node.slice, env)]
        except Exception:
            raise NotConst(unparse(node))
    raise NotConst(unparse(node))


def try_const(node, env=None):
    try:
        return True, const_eval(node, env)
    except NotConst:
        return False, None


# ------------------------------------------------------------------------------------------------
# path conditions (E2-lite)

def terminates(stmts):
    """Does this statement list always leave the enclosing block (raise/return/continue/break)?"""
    if not stmts:
        return False
    last = stmts[-1]
    if isinstance(last, (ast.Raise, ast.Return, ast.Continue, ast.Break)):
        return True
    if isinstance(last, ast.If):
        return terminates(last.body) and terminates(last.orelse)
    return False


def exit_kind(stmts):
    """'raise:<Class>' / 'return' / ... of a terminating block's last statement."""
    last = stmts[-1]
    if isinstance(last, ast.Raise):
        exc = last.exc
        if isinstance(exc, ast.Call):
            exc = exc.func
        return 'raise:' + (unparse(exc) if exc is not None else '')
    if isinstance(last, ast.Return):
        return 'return'
    return type(last).__name__.lower()


def path_conditions(module, func, target):
    """Conditions known to hold when `target` (a node inside func) starts executing, as a list of
    (test_node, polarity, how) with how in {'branch', 'early-exit:<kind>', 'loop-test', 'assert'}.

    Syntax-directed: enclosing if/elif/else/while branches, and earlier sibling statements of the
    target (or of any ancestor) that are early exits `if C: raise/return` (then `not C` holds) or asserts.
    Conditions whose variables are re-bound between the guard and the target are dropped (stale).
    """
    conds = []
    node = target
    fnode = func.node
    while node is not fnode:
        parent = module.parent(node)
        if parent is None:
            break
        for field in ('body', 'orelse', 'finalbody'):
            block = getattr(parent, field, None)
            if isinstance(block, list) and any(s is node for s in block):
                idx = [i for i, s in enumerate(block) if s is node][0]
                between = block[:idx]
                for j, s in enumerate(between):
                    later = between[j + 1:]
                    if isinstance(s, ast.If) and terminates(s.body) and not terminates(s.orelse or [ast.Pass()]):
                        if not _rebinds(later + _prefix_of(node, target), s.test):
                            conds.append((s.test, False, 'early-exit:' + exit_kind(s.body)))
                    elif isinstance(s, ast.If) and s.orelse and terminates(s.orelse) and not terminates(s.body):
                        if not _rebinds(later, s.test):
                            conds.append((s.test, True, 'early-exit:' + exit_kind(s.orelse)))
                    elif isinstance(s, ast.Assert):
                        if not _rebinds(later, s.test):
                            conds.append((s.test, True, 'assert'))
                if isinstance(parent, ast.If):
                    conds.append((parent.test, field == 'body', 'branch'))
                elif isinstance(parent, ast.While) and field == 'body':
                    conds.append((parent.test, True, 'loop-test'))
        if isinstance(parent, (ast.ListComp, ast.SetComp, ast.DictComp, ast.GeneratorExp)) and \
                not any(node is g for g in parent.generators):
            for g in parent.generators:
                for c in g.ifs:
                    conds.append((c, True, 'branch'))
        if isinstance(parent, ast.IfExp):
            if node is parent.body:
                conds.append((parent.test, True, 'branch'))
            elif node is parent.orelse:
                conds.append((parent.test, False, 'branch'))
        if isinstance(parent, ast.BoolOp):
            # `a and b`: b evaluated only if a true; `a or b`: b only if a false
            idx = [i for i, v in enumerate(parent.values) if v is node]
            if idx:
                for v in parent.values[:idx[0]]:
                    conds.append((v, isinstance(parent.op, ast.And), 'short-circuit'))
        node = parent
    return atomise(conds)


def paths_to(func, target, limit=256):
    """Every acyclic path of the function body that reaches the statement `target`, as the list of atomic facts collected on it
    (tests taken / not taken, in order; facts about names re-bound later on the path are dropped). Joins are *not* merged: a
    statement after `if a: ... ` is reached by two paths. Loops are entered zero times or once (facts from inside a loop body do
    not survive the loop). None when there are more than `limit` paths or the target is not a statement of the function."""
    found = []

    class Over(Exception):
        pass

    def kill(facts, stmt):
        bound = set()
        for n in ast.walk(stmt):
            if isinstance(n, ast.Name) and isinstance(n.ctx, (ast.Store, ast.Del)):
                bound.add(n.id)
            elif isinstance(n, ast.AugAssign) and isinstance(n.target, ast.Name):
                bound.add(n.target.id)
        if not bound:
            return facts
        return [f for f in facts if not (names_in(f[0]) & bound)]

    def run(stmts, facts):
        """-> list of fact lists with which control falls off the end of stmts"""
        live = [facts]
        for st in stmts:
            nxt = []
            for fs in live:
                if st is target:
                    found.append(list(fs))
                    if len(found) > limit:
                        raise Over()
                if isinstance(st, ast.If):
                    a = run(st.body, fs + [(st.test, True, 'branch')])
                    b = run(st.orelse, fs + [(st.test, False, 'branch')])
                    nxt.extend(a + b)
                elif isinstance(st, (ast.For, ast.While)):
                    inner = fs + ([(st.test, True, 'loop-test')] if isinstance(st, ast.While) else [])
                    run(st.body, kill(inner, st))
                    nxt.append(kill(fs, st))
                    if st.orelse:
                        nxt = [x for y in nxt for x in run(st.orelse, y)]
                elif isinstance(st, ast.Try):
                    a = run(st.body, fs)
                    for h in st.handlers:
                        a = a + run(h.body, kill(fs, st))
                    if st.orelse:
                        a = [x for y in a for x in run(st.orelse, y)]
                    if st.finalbody:
                        a = [x for y in a for x in run(st.finalbody, y)]
                    nxt.extend(a)
                elif isinstance(st, ast.With):
                    nxt.extend(run(st.body, kill(fs, ast.Module(body=[ast.Expr(value=i.optional_vars) for i in st.items if i.optional_vars is not None], type_ignores=[]))))
                elif isinstance(st, (ast.Return, ast.Raise, ast.Continue, ast.Break)):
                    pass
                elif isinstance(st, ast.Assert):
                    nxt.append(kill(fs, st) + [(st.test, True, 'assert')])
                else:
                    nxt.append(kill(fs, st))
                if len(nxt) > limit:
                    raise Over()
            live = nxt
            if not live:
                # nothing falls through; later statements are unreachable on these paths (target may still be nested later)
                break
        return live
    try:
        run(func.node.body, [])
    except Over:
        return None
    if not found:
        return None
    return [atomise(fs) for fs in found]


def atomise(conds):
    """Facts in atomic form: `not X` holds  ==  X fails;  `A and B` holds == both hold;  `A or B` fails == both fail."""
    out = []
    for t, pol, how in conds:
        stack = [(t, pol)]
        while stack:
            e, p = stack.pop(0)
            if isinstance(e, ast.UnaryOp) and isinstance(e.op, ast.Not):
                stack.insert(0, (e.operand, not p))
            elif isinstance(e, ast.BoolOp) and ((isinstance(e.op, ast.And) and p) or (isinstance(e.op, ast.Or) and not p)):
                stack = [(v, p) for v in e.values] + stack
            elif isinstance(e, ast.Compare) and len(e.ops) == 1 and not p:
                from . import canon
                out.append((canon.negate(e), True, how))        # a failed comparison is the opposite comparison
            else:
                out.append((e, p, how))
    return out


def _prefix_of(node, target):
    return []


def names_in(node):
    return set(n.id for n in ast.walk(node) if isinstance(n, ast.Name))


def _rebinds(stmts, test):
    """Is any plain name read by `test` assigned in stmts?"""
    names = names_in(test)
    for s in stmts:
        for n in ast.walk(s):
            if isinstance(n, (ast.Assign, ast.AugAssign, ast.AnnAssign)):
                targets = n.targets if isinstance(n, ast.Assign) else [n.target]
                for t in targets:
                    for x in ast.walk(t):
                        if isinstance(x, ast.Name) and x.id in names and isinstance(x.ctx, ast.Store):
                            return True
            elif isinstance(n, (ast.For, ast.comprehension)):
                for x in ast.walk(n.target):
                    if isinstance(x, ast.Name) and x.id in names:
                        return True
    return False


# ------------------------------------------------------------------------------------------------
# alpha-normalised construct keys (stable under renaming of locals and re-wrapping of lines)

class _Alpha(ast.NodeTransformer):
    def __init__(self, local_names):
        self.local = local_names
        self.map = {}

    def visit_Name(self, node):
        if node.id in self.local:
            if node.id not in self.map:
                self.map[node.id] = '_v%d' % len(self.map)
            return ast.copy_location(ast.Name(id=self.map[node.id], ctx=node.ctx), node)
        return node


def local_names(func):
    names = set(func.params)
    for n in func.walk():
        if isinstance(n, ast.Name) and isinstance(n.ctx, ast.Store):
            names.add(n.id)
    return names


def norm_key(func, node):
    """Alpha-normalised source of a construct inside func: locals/params -> placeholders."""
    import copy
    n = copy.deepcopy(node)
    loc = local_names(func) if func is not None else set()
    n = _Alpha(loc).visit(n)
    return unparse(n)


def calls_in(node, into_nested=False):
    for n in ast.walk(node):
        if isinstance(n, ast.Call):
            yield n


def call_name(call):
    """'f', 'obj.meth', 'a.b.c' (source of the callee expression)."""
    return unparse(call.func)


def attr_chain(node):
    """`a.b.c` -> ['a','b','c']; None if not a pure attribute chain on a name."""
    parts = []
    while isinstance(node, ast.Attribute):
        parts.append(node.attr)
        node = node.value
    if isinstance(node, ast.Name):
        parts.append(node.id)
        return list(reversed(parts))
    return None
