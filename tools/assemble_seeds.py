#!/venv/bin/python
"""Copies the independently confirmed seeded changes from /tmp/mut into /verif/seeded/<id>/ and records what was run."""
import glob, json, os, shutil, subprocess, sys
HERE = os.path.dirname(os.path.dirname(os.path.abspath(__file__)))
sys.path.insert(0, HERE)
head = subprocess.run(['git', '-C', '/repo', 'log', '--oneline', '-1'], capture_output=True, text=True).stdout.strip()
import argparse
ap = argparse.ArgumentParser()
ap.add_argument('--root', default='/tmp/mut')
ap.add_argument('--offset', type=int, default=0)
ap.add_argument('--round', type=int, default=1)
ap.add_argument('--first', help='json {"Cxx/N": verdict of the checks as they stood when the seed arrived}')
A = ap.parse_args()
FIRST = json.load(open(A.first)) if A.first else {}
for d in sorted(glob.glob(A.root + '/C*/[12]')):
    vp = os.path.join(d, 'verified.json')
    if not os.path.exists(vp):
        continue
    v = json.load(open(vp))
    if not v.get('confirmed'):
        continue
    pid, n = d.split('/')[-2], d.split('/')[-1]
    out = os.path.join(HERE, 'seeded', '%s-%d' % (pid, int(n) + A.offset))
    shutil.rmtree(out, ignore_errors=True)
    os.makedirs(out)
    for fn in os.listdir(d):
        if fn in ('verified.json', 'with.txt', 'without.txt') or fn.endswith('.rebased.diff') or fn == '__pycache__':
            continue
        shutil.copy(os.path.join(d, fn), os.path.join(out, fn))
    meta = {}
    try:
        meta = json.load(open(os.path.join(d, 'meta.json')))
    except Exception:
        pass
    c = subprocess.run(['/venv/bin/python', os.path.join(HERE, 'tools', 'seedtest.py'), d], capture_output=True, text=True).stdout.strip().splitlines()
    verdict = c[-1].split(None, 2)[-1] if c else ''
    rebased = os.path.exists(os.path.join(d, 'patch.orig.diff'))
    json.dump({
        'property': pid,
        'round': A.round,
        'verdict_on_arrival': FIRST.get('%s/%s' % (pid, n)),
        'summary': meta.get('summary'),
        'needs_to_manifest': meta.get('needs_to_manifest'),
        'files_touched': meta.get('files_touched'),
        'origin': 'written by an independent sub-agent that saw only the property text and a scratch worktree of /repo'
                  + ('; patch.diff is that change rebased onto the repaired tree (patch.orig.diff = as delivered against the pinned commit)' if rebased else ''),
        'confirmed_by_me': {
            'repo_head': head,
            'how': 'tools/verify_seed.py in a scratch worktree of /repo HEAD: demo on the clean tree, git apply patch.diff, '
                   'unedited test suite (/venv/bin/python -m pytest -q -p no:cacheprovider -x), demo again',
            'demo_clean_exit': v['demo_clean']['rc'], 'suite_with_patch': v['suite_with_patch']['tail'],
            'demo_patched_exit': v['demo_patched']['rc'], 'demo_patched_tail': v['demo_patched']['tail'][-300:],
        },
        'checks_run': 'tools/seedtest.py: git -C /repo apply patch.diff; check.py for every claimed property; git -C /repo checkout -- .',
        'verdict': verdict,
    }, open(os.path.join(out, 'meta.json'), 'w'), indent=1)
    print(pid, n, verdict)
