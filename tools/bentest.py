#!/venv/bin/python
"""Runs every claimed check against behaviour-preserving patches (scratch copies, nothing touches /repo): a patch is
reported as ALARM when any property's verdict (exit code, set of KNOWN-FINDING lines) differs from the clean tree.
Usage: bentest.py dir-with-patch.diff ..."""
import os
import shutil
import sys
import tempfile
from concurrent.futures import ThreadPoolExecutor

HERE = os.path.dirname(os.path.dirname(os.path.abspath(__file__)))
sys.path.insert(0, HERE)
from selftest import run as R  # noqa: E402

ALL = ['C%02d' % i for i in range(1, 21)]


def main():
    dirs = [d.rstrip('/') for d in sys.argv[1:]]
    ev = tempfile.mkdtemp()
    try:
        with ThreadPoolExecutor(10) as ex:
            base = dict(ex.map(lambda p: (p, (lambda r: (r[0], r[2]))(R.run_check(p, R.REPO, ev))), ALL))
    finally:
        shutil.rmtree(ev, ignore_errors=True)

    def go(d):
        r = R.one((d, ALL, os.path.join(d, 'patch.diff'), None, None, ''), 'benign', base)
        if 'error' in r:
            return d, 'ERROR ' + r['error'], {}
        bad = {p: v for p, v in r['results'].items() if not v['ok']}
        return d, 'silent' if not bad else 'ALARM', bad
    with ThreadPoolExecutor(4) as ex:
        for d, st, bad in ex.map(go, dirs):
            print('%-22s %s %s' % (d, st, ' '.join('%s:exit%d' % (p, v['exit']) for p, v in sorted(bad.items()))))
            for p, v in sorted(bad.items()):
                for x in v['violations'][:2]:
                    print('      ', p, x[:260])
                if v['exit'] == 2:
                    print('      ', p, [l[:260] for l in v.get('output_tail', '').splitlines() if 'ANALYSIS-ERROR' in l][:1])
            sys.stdout.flush()


if __name__ == '__main__':
    main()
