#!/usr/bin/env python3-vt
"""Validates MANIFEST.json and every evidence file against the harness schemas (run with python3-vt)."""
import glob, json, sys
import jsonschema
bad = 0
m = json.load(open('/verif/MANIFEST.json'))
jsonschema.validate(m, json.load(open('/root/.vp/MANIFEST.schema.json')))
print('MANIFEST ok: %d checks, %d n/a' % (len(m['checks']), len(m.get('not_applicable', []))))
es = json.load(open('/root/.vp/EVIDENCE.schema.json'))
for c in m['checks']:
    p = c['evidence_file']
    try:
        jsonschema.validate(json.load(open(p)), es)
        print('evidence ok', p)
    except Exception as e:
        bad += 1
        print('EVIDENCE BAD', p, str(e)[:300])
sys.exit(1 if bad else 0)
