#!/venv/bin/python
"""Writes sa/baseline_funcs.json: the functions (qualified names per module) that exist in /repo now, i.e. the functions the rules
were written against. sa/inline.py folds helpers that are *not* in this list back into their callers. Re-run after a deliberate
change of the anchored functions (and re-confirm the rules)."""
import ast
import json
import os
import sys

HERE = os.path.dirname(os.path.dirname(os.path.abspath(__file__)))
sys.path.insert(0, HERE)
from sa import context, core  # noqa: E402

os.environ['SA_NO_INLINE'] = '1'
ctx = context.Context(core.REPO)
out = {}
for name, m in sorted(ctx.py.modules.items()):
    quals = []

    def walk(body, prefix):
        for s in body:
            if isinstance(s, (ast.FunctionDef, ast.AsyncFunctionDef)):
                quals.append(prefix + s.name)
                walk(s.body, prefix + s.name + '.')
            elif isinstance(s, ast.ClassDef):
                walk(s.body, prefix + s.name + '.')
            else:
                for field in ('body', 'orelse', 'finalbody'):
                    b = getattr(s, field, None)
                    if isinstance(b, list):
                        walk([x for x in b if isinstance(x, ast.stmt)], prefix)
    walk(ast.parse(m.source).body, '')
    out[name] = sorted(set(quals))
    # module-level names (N21 folds constants that are *not* listed here back into their readers)
    out[name + '#names'] = sorted(set(t.id for s in ast.parse(m.source).body if isinstance(s, (ast.Assign, ast.AugAssign, ast.AnnAssign))
                                      for tg in (s.targets if isinstance(s, ast.Assign) else [s.target]) for t in ast.walk(tg)
                                      if isinstance(t, ast.Name)))
with open(os.path.join(HERE, 'sa', 'baseline_funcs.json'), 'w') as f:
    json.dump(out, f, indent=0, sort_keys=True)
import shutil
ref = os.path.join(HERE, 'reference', 'src')
shutil.rmtree(ref, ignore_errors=True)
for name, m in sorted(ctx.py.modules.items()):
    dst = os.path.join(ref, m.rel)
    os.makedirs(os.path.dirname(dst), exist_ok=True)
    shutil.copy(m.path, dst)
head = os.popen('git -C %s log --oneline -1' % core.REPO).read().strip()
with open(os.path.join(HERE, 'reference', 'README'), 'w') as f:
    f.write('Snapshot of the analysed Python modules of /repo as they were when every obligation of the rules was last confirmed on them\n'
            '(%s). Used only by sa/core.py to recognise a function that is unchanged modulo the normal form (DESIGN 11.2).\n' % head)
print(sum(len(v) for k, v in out.items() if '#' not in k), 'functions in', sum(1 for k in out if '#' not in k), 'modules; reference sources copied')
