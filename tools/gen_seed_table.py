#!/venv/bin/python
"""Regenerates the table of seeded changes in DESIGN.md (between the seeds:begin / seeds:end markers) from seeded/*/meta.json."""
import glob
import json
import os
import re

HERE = os.path.dirname(os.path.dirname(os.path.abspath(__file__)))


def clip(s, n):
    s = re.sub(r'\s+', ' ', (s or '').replace('|', '/'))
    return s if len(s) <= n else s[:n - 1] + '…'


rows = ['| seed | round | what it changes | needs | on arrival | reported by (now) |', '|---|---|---|---|---|---|']
for mp in sorted(glob.glob(os.path.join(HERE, 'seeded', '*', 'meta.json'))):
    m = json.load(open(mp))
    name = os.path.basename(os.path.dirname(mp))
    verdict = m.get('verdict', '')
    rep = re.search(r'violations=(\S+)', verdict)
    rows.append('| %s | %s | %s | %s | %s | %s |' % (name, m.get('round', 1), clip(m.get('summary'), 170), clip(m.get('needs_to_manifest'), 150),
                                                clip(m.get('verdict_on_arrival') or ('see text' if m.get('round', 1) == 1 else 'CAUGHT'), 60), rep.group(1) if rep else verdict))
p = os.path.join(HERE, 'DESIGN.md')
s = open(p).read()
a, b = s.index('<!-- seeds:begin -->'), s.index('<!-- seeds:end -->')
s = s[:a] + '<!-- seeds:begin -->\n' + '\n'.join(rows) + '\n' + s[b:]
open(p, 'w').write(s)
print(len(rows) - 2, 'seeds')
