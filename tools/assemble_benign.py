#!/venv/bin/python
"""Copies the independently written behaviour-preserving refactorings (/tmp/ben/Cxx/N) into /verif/benign/Cxx-N/ and records the
verdicts of a tools/bentest.py run (log given as argument) in benign/INDEX.json."""
import json
import os
import re
import shutil
import sys

HERE = os.path.dirname(os.path.dirname(os.path.abspath(__file__)))
log = open(sys.argv[1]).read().splitlines()
status = {}
cur = None
for line in log:
    m = re.match(r'^(/tmp/ben/(C\d\d)/(\d))\s+(silent|ALARM|ERROR)\s*(.*)$', line)
    if m:
        cur = '%s-%s' % (m.group(2), m.group(3))
        status[cur] = {'verdict': m.group(4).lower(), 'properties': m.group(5).split(), 'rules': []}
    elif cur and re.match(r'^\s+C\d\d (rule|\[)', line):
        r = re.search(r'(rule \S+|ANALYSIS-ERROR[^\']*)', line)
        if r and r.group(1) not in status[cur]['rules']:
            status[cur]['rules'].append(r.group(1)[:120])
out = os.path.join(HERE, 'benign')
os.makedirs(out, exist_ok=True)
index = {}
for name, st in sorted(status.items()):
    pid, n = name.split('-')
    src = '/tmp/ben/%s/%s' % (pid, n)
    dst = os.path.join(out, name)
    shutil.rmtree(dst, ignore_errors=True)
    os.makedirs(dst)
    for fn in ('patch.diff', 'meta.json'):
        shutil.copy(os.path.join(src, fn), os.path.join(dst, fn))
    meta = json.load(open(os.path.join(src, 'meta.json')))
    index[name] = {'property': pid, 'summary': (meta.get('summary') or '')[:300], 'verdict': st['verdict'],
                   'alarming_properties': st['properties'], 'alarming_rules': st['rules']}
json.dump(index, open(os.path.join(out, 'INDEX.json'), 'w'), indent=1, sort_keys=True)
print(sum(1 for v in index.values() if v['verdict'] == 'silent'), 'silent of', len(index))
