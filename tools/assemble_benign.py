#!/venv/bin/python
"""Copies independently written behaviour-preserving refactorings (<root>/Cxx/N) into /verif/benign/Cxx-(N+offset)/ and records
the verdicts of a tools/bentest.py run (log given as argument) in benign/INDEX.json (entries of other batches are kept).
Usage: assemble_benign.py <bentest log> [--root /tmp/ben] [--offset 0] [--batch 1] [--untuned]
--untuned additionally records the verdict as `verdict_on_arrival` (the checks as they were before looking at the batch)."""
import argparse
import json
import os
import re
import shutil

HERE = os.path.dirname(os.path.dirname(os.path.abspath(__file__)))
ap = argparse.ArgumentParser()
ap.add_argument('log')
ap.add_argument('--root', default='/tmp/ben')
ap.add_argument('--offset', type=int, default=0)
ap.add_argument('--batch', type=int, default=1)
ap.add_argument('--untuned', action='store_true')
a = ap.parse_args()
log = open(a.log).read().splitlines()
status = {}
cur = None
for line in log:
    m = re.match(r'^(\S*/(C\d\d)[/-](\d+))\s+(silent|ALARM|ERROR)\s*(.*)$', line)
    if m:
        n = int(m.group(3))
        if m.group(1).startswith(a.root):
            n += a.offset
        cur = '%s-%d' % (m.group(2), n)
        status[cur] = {'verdict': m.group(4).lower(), 'properties': m.group(5).split(), 'rules': [], 'src': m.group(1)}
    elif cur and re.match(r'^\s+C\d\d (rule|\[)', line):
        r = re.search(r'(rule \S+|ANALYSIS-ERROR[^\']*)', line)
        if r and r.group(1) not in status[cur]['rules']:
            status[cur]['rules'].append(r.group(1)[:120])
out = os.path.join(HERE, 'benign')
os.makedirs(out, exist_ok=True)
ipath = os.path.join(out, 'INDEX.json')
index = json.load(open(ipath)) if os.path.exists(ipath) else {}
for name, st in sorted(status.items()):
    pid, n = name.split('-')
    src = st['src']
    dst = os.path.join(out, name)
    if os.path.abspath(src) != os.path.abspath(dst):
        shutil.rmtree(dst, ignore_errors=True)
        os.makedirs(dst)
        for fn in ('patch.diff', 'meta.json'):
            shutil.copy(os.path.join(src, fn), os.path.join(dst, fn))
    meta = json.load(open(os.path.join(dst, 'meta.json')))
    old = index.get(name, {})
    ent = {'property': pid, 'batch': old.get('batch', a.batch), 'summary': (meta.get('summary') or '')[:300], 'verdict': st['verdict'],
           'alarming_properties': st['properties'], 'alarming_rules': st['rules']}
    if a.untuned:
        ent['verdict_on_arrival'] = st['verdict']
    elif 'verdict_on_arrival' in old:
        ent['verdict_on_arrival'] = old['verdict_on_arrival']
    index[name] = ent
json.dump(index, open(ipath, 'w'), indent=1, sort_keys=True)
for b in sorted(set(v.get('batch', 1) for v in index.values())):
    ents = [v for v in index.values() if v.get('batch', 1) == b]
    print('batch', b, ':', sum(1 for v in ents if v['verdict'] == 'silent'), 'silent of', len(ents))
