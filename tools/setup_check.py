#!/venv/bin/python
"""setup_cmd: nothing is built or installed; verify the two front-ends exist."""
import shutil, subprocess, sys
ok = True
for tool in ('clang++',):
    p = shutil.which(tool)
    print('%s: %s' % (tool, p))
    ok = ok and bool(p)
print('python:', sys.version.split()[0])
import ast, json  # noqa
if ok:
    out = subprocess.run(['clang++', '--version'], capture_output=True, text=True).stdout.splitlines()[0]
    print(out)
sys.exit(0 if ok else 1)
