#!/venv/bin/python
"""Regenerates /verif/MANIFEST.json from sa/props.py and validates it against the schema."""
import json
import os
import sys

HERE = os.path.dirname(os.path.dirname(os.path.abspath(__file__)))
sys.path.insert(0, HERE)
from sa import props  # noqa: E402

BASELINE = ("cd /repo && /venv/bin/python -m pytest -ra -q -p no:cacheprovider --timeout=900 "
            "--continue-on-collection-errors")


def main():
    checks, na = [], []
    for pid in sorted(props.PROPS):
        m = props.PROPS[pid]
        if not m['claimed']:
            na.append({'property_id': pid, 'reason': m['na_reason']})
            continue
        checks.append({
            'property_id': pid,
            'quick_cmd': '/venv/bin/python /verif/check.py %s --tier quick' % pid,
            'thorough_cmd': '/venv/bin/python /verif/check.py %s --tier thorough' % pid,
            'evidence_file': '/verif/evidence/%s.json' % pid,
            'replay_cmd_template': '/venv/bin/python /verif/check.py --replay {path}',
            'engine': 'sa',
            'level_claimed': {
                'category': 'other',
                'text': 'Static rule checking over sites enumerated from /repo on every run (no repository code is '
                        'executed). Decides: ' + m['explanation'] + ' These are necessary conditions of the '
                        'property; a pass means every enumerated obligation is discharged, not that the behaviour is proved.',
                'design_ref': 'DESIGN.md section 5, ' + pid,
            },
            'level_note': 'Does not decide: ' + m['not_decided'] + '. Trusted: Python ast / clang 14 front-ends, the '
                          'language facts of DESIGN 1.4, call-graph resolution by name families. Listed genuine '
                          'defects are in known_findings.json and print KNOWN-FINDING lines.',
            'technique': 'static analysis: ' + m['technique'],
        })
    manifest = {
        'version': 1,
        'setup_cmd': '/venv/bin/python /verif/tools/setup_check.py',
        'hooks': {
            'guard': 'PROPHY_VERIF',
            'enable': 'none needed: static analysis reads /repo sources; no instrumentation commits exist',
            'baseline_off_cmd': BASELINE,
            'source_commits': [],
            'add_only': True,
        },
        'engines': [{
            'name': 'sa',
            'path': '/verif/sa',
            'serves_properties': [c['property_id'] for c in checks],
            'kind_free_text': 'repository-specific static analysis: Python ast front-end with CFG-lite guard dominance, '
                              'call graph, exception-escape dataflow, finite predicate abstraction of guards, '
                              'generator-template front-end, clang JSON AST front-end for the C++ headers',
        }],
        'checks': checks,
        'not_applicable': na,
        'notes': 'Exit 0 = all obligations discharged (KNOWN-FINDING lines for listed genuine defects), exit 1 + '
                 'VIOLATION line = unlisted violation (including rule E0.argument-lost: an anchored construct vanished or has a '
                 'shape on which the structural argument can no longer be made, so the obligation is not discharged), exit 2 + '
                 'ANALYSIS-ERROR = the analysis itself could not run (clang failed, a source does not parse, checker crashed, '
                 'self-test failed). See DESIGN.md 1.3.',
    }
    path = os.path.join(HERE, 'MANIFEST.json')
    with open(path, 'w') as f:
        json.dump(manifest, f, indent=1)
        f.write('\n')
    try:
        sys.path.insert(0, '/opt/veriftools/pyvenv/lib/python3.11/site-packages')
        import jsonschema
        with open('/root/.vp/MANIFEST.schema.json') as f:
            jsonschema.validate(manifest, json.load(f))
        print('MANIFEST.json valid: %d checks, %d not_applicable' % (len(checks), len(na)))
    except ImportError:
        print('MANIFEST.json written (jsonschema unavailable, not validated)')


if __name__ == '__main__':
    main()
