#!/venv/bin/python
"""Runs the claimed checks against each seeded change: apply the patch to /repo, run, undo.

  seedtest.py [--props C07,C03] [dirs...]      default dirs: /verif/seeded/*  (and /tmp/mut/*/* with --tmp)
Prints one line per seed: which properties raised VIOLATION / ANALYSIS-ERROR.
"""
import argparse
import glob
import json
import os
import subprocess
import sys

HERE = os.path.dirname(os.path.dirname(os.path.abspath(__file__)))
sys.path.insert(0, HERE)
from sa import props  # noqa: E402


def sh(cmd, **kw):
    return subprocess.run(cmd, shell=True, capture_output=True, text=True, **kw)


def main():
    ap = argparse.ArgumentParser()
    ap.add_argument('--props')
    ap.add_argument('--tmp', action='store_true')
    ap.add_argument('-v', action='store_true')
    ap.add_argument('dirs', nargs='*')
    a = ap.parse_args()
    dirs = a.dirs or sorted(glob.glob(os.path.join(HERE, 'seeded', '*')))
    if a.tmp:
        dirs += sorted(d for d in glob.glob('/tmp/mut/C*/[0-9]*') if os.path.isdir(d))
    pids = a.props.split(',') if a.props else [p for p in sorted(props.PROPS) if props.PROPS[p]['claimed']]
    if sh('git -C /repo status --porcelain').stdout.strip():
        print('refusing: /repo working tree is not clean')
        return 2
    rows = []
    for d in dirs:
        patch = os.path.join(d, 'patch.diff')
        if not os.path.exists(patch):
            continue
        target = None
        mp = os.path.join(d, 'meta.json')
        if os.path.exists(mp):
            try:
                target = json.load(open(mp)).get('property')
            except ValueError:
                pass
        r = sh('git -C /repo apply --whitespace=nowarn %s' % patch)
        if r.returncode:
            rows.append((d, target, 'PATCH DOES NOT APPLY: ' + r.stderr.strip()[:120]))
            continue
        try:
            hits, errs, out_all = [], [], []
            for pid in pids:
                c = sh('/venv/bin/python %s/check.py %s' % (HERE, pid))
                if c.returncode == 1:
                    hits.append(pid)
                elif c.returncode != 0:
                    errs.append(pid)
                if c.returncode and a.v:
                    out_all.append(c.stdout)
        finally:
            sh('git -C /repo checkout -- .')
            sh('git -C /repo clean -fdq -- prophy prophyc prophy_cpp')
        caught = 'CAUGHT' if (target in hits) else ('caught-by-other' if hits else 'MISSED')
        rows.append((d, target, '%s violations=%s analysis-errors=%s' % (caught, ','.join(hits) or '-',
                                                                        ','.join(errs) or '-')))
        if a.v:
            for o in out_all:
                print('\n'.join(l for l in o.splitlines() if not l.startswith('KNOWN-FINDING')))
    for d, t, msg in rows:
        print('%-28s %-4s %s' % (d.replace(HERE + '/', ''), t or '?', msg))
    return 0


if __name__ == '__main__':
    sys.exit(main())
