#!/venv/bin/python
"""Independent confirmation of a seeded change (not part of any check): in a scratch worktree of /repo HEAD
  1. the demonstration passes on the clean tree,
  2. the patch applies, the unedited test suite still passes,
  3. the demonstration fails with the patch.
Writes <seed dir>/verified.json. Usage: verify_seed.py [-j N] dir...
"""
import json
import os
import subprocess
import sys
from concurrent.futures import ThreadPoolExecutor


def sh(cmd, cwd=None, timeout=900):
    try:
        p = subprocess.run(cmd, shell=True, cwd=cwd, capture_output=True, text=True, timeout=timeout)
        return p.returncode, (p.stdout + p.stderr)[-1500:]
    except subprocess.TimeoutExpired:
        return 124, 'TIMEOUT'


def verify(d):
    name = d.rstrip('/').replace('/', '_').strip('_')
    wt = '/tmp/sv/' + name
    sh('git -C /repo worktree remove --force %s' % wt)
    rc, out = sh('git -C /repo worktree add -q --detach %s HEAD' % wt)
    res = {'seed': d}
    try:
        if rc:
            res['error'] = 'worktree: ' + out
            return res
        demo = os.path.join(d, 'demo.py')
        rc0, out0 = sh('/venv/bin/python %s' % demo, cwd=wt)
        res['demo_clean'] = {'rc': rc0, 'tail': out0[-400:]}
        rc, out = sh('git apply --whitespace=nowarn %s' % os.path.join(d, 'patch.diff'), cwd=wt)
        if rc:
            res['error'] = 'patch does not apply: ' + out
            return res
        rcs, outs = sh('/venv/bin/python -m pytest -q -p no:cacheprovider -x', cwd=wt)
        res['suite_with_patch'] = {'rc': rcs, 'tail': outs.strip().splitlines()[-1] if outs.strip() else ''}
        rc1, out1 = sh('/venv/bin/python %s' % demo, cwd=wt)
        res['demo_patched'] = {'rc': rc1, 'tail': out1[-400:]}
        res['confirmed'] = (rc0 == 0 and rcs == 0 and rc1 not in (0, 124))
        return res
    finally:
        sh('git -C /repo worktree remove --force %s' % wt)
        with open(os.path.join(d, 'verified.json'), 'w') as f:
            json.dump(res, f, indent=1)


def main():
    args = sys.argv[1:]
    jobs = 6
    if args and args[0] == '-j':
        jobs = int(args[1])
        args = args[2:]
    os.makedirs('/tmp/sv', exist_ok=True)
    with ThreadPoolExecutor(jobs) as ex:
        for r in ex.map(verify, args):
            print('%-24s confirmed=%s clean=%s suite=%s patched=%s %s' % (
                r['seed'], r.get('confirmed'), r.get('demo_clean', {}).get('rc'), r.get('suite_with_patch', {}).get('rc'),
                r.get('demo_patched', {}).get('rc'), r.get('error', '')))
            sys.stdout.flush()


if __name__ == '__main__':
    main()
