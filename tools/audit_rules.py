#!/venv/bin/python
"""Lists the obligations that only pass on the unchanged tree because the function they look at equals its reviewed reference
(sa/reviewed.py): rules that have become too literal for the current normal form and should be rewritten."""
import os
import subprocess
import sys

HERE = os.path.dirname(os.path.dirname(os.path.abspath(__file__)))
env = dict(os.environ, SA_NO_REFERENCE='1', VERIF_EVIDENCE_DIR='/tmp/audit_ev')
seen = {}
for i in range(1, 21):
    pid = 'C%02d' % i
    p = subprocess.run(['/venv/bin/python', os.path.join(HERE, 'check.py'), pid], capture_output=True, text=True, env=env)
    for line in p.stdout.splitlines():
        if line.startswith('  rule ') or line.startswith('ANALYSIS-ERROR'):
            seen.setdefault(line.strip()[:230], []).append(pid)
for k, v in sorted(seen.items()):
    print(','.join(v), k)
print(len(seen), 'distinct rule instances rely on the reference')
