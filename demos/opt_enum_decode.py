import prophy
class E(prophy.with_metaclass(prophy.enum_generator, prophy.enum)):
    _enumerators = [('A', 0), ('B', 2)]
class S(prophy.with_metaclass(prophy.struct_generator, prophy.struct)):
    _descriptor = [('e', prophy.optional(E))]
x = S(); x.e = 'B'
d = x.encode('<'); print(d)
y = S()
try:
    y.decode(d, '<'); print('decoded', y.e)
except Exception as ex:
    print('EXC', type(ex).__name__, ex)
