#include <cstddef>
#include <cstdio>
#include "o.pp.hpp"
int main(){ printf("has_b at %zu, b at %zu, c at %zu, sizeof %zu (wire: 8, 16, 24, 32)\n", offsetof(O,has_b), offsetof(O,b), offsetof(O,c), sizeof(O));
 return !(offsetof(O,has_b)==8 && offsetof(O,b)==16 && offsetof(O,c)==24 && sizeof(O)==32); }
