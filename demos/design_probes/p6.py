import prophy
class A(prophy.with_metaclass(prophy.struct_generator, prophy.struct)):
    _descriptor = [('a', prophy.u8), ('b', prophy.optional(prophy.u8))]
x=A(); x.a=1; x.b=2
print(x.encode('<'), A._SIZE, A._ALIGNMENT)
class B(prophy.with_metaclass(prophy.struct_generator, prophy.struct)):
    _descriptor = [('a', prophy.u8), ('b', prophy.optional(prophy.u16)), ('c', prophy.u8)]
x=B(); x.a=1; x.b=2; x.c=3
print(x.encode('<'), B._SIZE, B._ALIGNMENT)
y=B(); print(y.decode(x.encode('<'),'<'), y.a, y.b, y.c)
class C(prophy.with_metaclass(prophy.struct_generator, prophy.struct)):
    _descriptor = [('n', prophy.u32), ('b', prophy.bytes(bound='n', size=5))]
try: print(C().encode('<'))
except Exception as e: print('EXC', type(e).__name__, e)
