#include "c.ppf.hpp"
#include <iostream>
#include <cstdio>
#include <cstring>
using namespace prophy::generated;
int main(int argc, char** argv) {
    int t = atoi(argv[1]);
    if (t==1) { X x; x.x.push_back(1); x.y=2; std::vector<uint8_t> v = x.encode(); printf("size %zu gbs %zu\n", v.size(), x.get_byte_size()); }
    if (t==2) { O o; uint8_t* d = new uint8_t[12]; memset(d,0,12); d[0]=1; bool r=o.decode(d,12); printf("decode %d\n", r); uint8_t* d2=new uint8_t[8]; memset(d2,0,8); r=o.decode(d2,8); printf("decode8 %d\n", r); }
    if (t==3) { B b; b.b.push_back(1); b.n=255; std::cout << b.print(); }
    if (t==4) { OL o; o.l = L(); std::vector<uint8_t> v=o.encode(); printf("size %zu ebs %d\n", v.size(), (int)OL::encoded_byte_size); uint8_t buf[64]; printf("written %zu\n", o.encode(buf)); }
    if (t==5) { DA a; uint8_t d[4]={0xff,0xff,0xff,0x7f}; bool r=a.decode<prophy::little>(d,4); printf("decode %d\n", r); }
    return 0;
}
