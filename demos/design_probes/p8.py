import prophyc, os, sys, importlib
open('e.xml','w').write('<x><constant name="C" value="1 &lt;&lt; 2 * 3"/><struct name="S"><member name="a" type="u8"><dimension size="C"/></member></struct></x>')
nodes = prophyc.main(['--isar','--python_out','out','--cpp_out','out','--quiet','e.xml'])['e']
for n in nodes:
    if n.name=='S': print('model size', n.byte_size, n.members[0].numeric_size)
sys.path.insert(0,'out'); m=importlib.import_module('e'); print('py C', m.C, m.S._SIZE)
print([l for l in open('out/e.pp.hpp') if 'C' in l][:3])
