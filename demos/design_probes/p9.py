import prophyc, os
from prophyc import model
open('g.xml','w').write('<x><struct name="A"><member name="n" type="u32"/><member name="x" type="u8"><dimension size="3"/></member></struct></x>')
open('gp.txt','w').write('A greedy x\nA dynamic x n\n')
nodes = prophyc.main(['--isar','--python_out','out','--quiet','--patch','gp.txt','g.xml'])['g']
for n in nodes:
    if n.name=='A': print([(m.name,m.bound,m.size,m.greedy,m.optional) for m in n.members], 'kind', n.kind)
print(open('out/g.py').read()[-200:])
