import prophyc, os, sys
def gen(text, opts=('--cpp_full_out','out','--cpp_out','out'), fname='t.prophy', extra=()):
    open(fname,'w').write(text)
    for f in os.listdir('out'): os.remove('out/'+f)
    prophyc.main(list(opts)+['--quiet']+list(extra)+[fname])
gen('struct X { u32 x<>; u8 y; }; struct O { u8 a; u64* b; u8 c; }; struct L { u32 x<3>; }; struct OL { L* l; u8 z;};')
src = open('out/t.ppf.hpp').read()
i = src.index('struct X'); print(src[i:i+900])
src = open('out/t.pp.hpp').read()
i = src.index('PROPHY_STRUCT(8) O'); print(src[i:i+400])
