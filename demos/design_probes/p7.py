import prophyc, os, sys, importlib
from prophyc import model
def build(text, fname='q.prophy', opts=()):
    open(fname,'w').write(text)
    for f in os.listdir('out'):
        if os.path.isfile('out/'+f): os.remove('out/'+f)
    nodes = prophyc.main(['--python_out','out','--cpp_full_out','out','--cpp_out','out','--quiet']+list(opts)+[fname])
    sys.path.insert(0,'out'); sys.modules.pop('q',None); mod=importlib.import_module('q'); sys.path.pop(0)
    return nodes['q'], mod
# (a) nested dynamic struct then block needing alignment
nodes, q = build('struct D { u8 n; u8 x<@n>; }; struct P { D d; u8 b; u64 c; };')
p=q.P(); p.d.x[:]=[1]; p.b=2; p.c=3
print('a) py bytes', p.encode('<').hex(' '))
for n in nodes:
    if n.name=='P': print('   model members', [(m.name,m.byte_size,m.alignment,m.padding) for m in n.members], n.byte_size, n.alignment, n.kind)
# (b) dynamic struct ending in optional
nodes, q = build('struct X { u8 x<>; u8* o; };')
x=q.X(); x.x[:]=[1]; x.o=5
print('b) py bytes', x.encode('<').hex(' '), len(x.encode('<')))
for n in nodes:
    if n.name=='X': print('   model members', [(m.name,m.byte_size,m.alignment,m.padding) for m in n.members], n.byte_size, n.alignment, n.kind)
print(open('out/q.ppf.cpp').read().split('encode(const X& x')[1][:400])
