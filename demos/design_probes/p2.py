import prophyc, os, sys, traceback, tempfile, importlib
def run(name, text, extra=()):
    open('t.prophy','w').write(text)
    for f in os.listdir('out'): os.remove('out/'+f)
    try:
        prophyc.main(['--python_out','out','--cpp_full_out','out','--cpp_out','out','--quiet','t.prophy'])
        print('ACCEPT', name)
        return True
    except BaseException as e:
        print('REJECT', name, type(e).__name__, str(e)[:150].replace('\n',' | '))
cases = {
 'dyn in fixed array': 'struct D { u8 x<>; }; struct X { D d[2]; };',
 'dyn in limited array': 'struct D { u8 x<>; }; struct X { D d<2>; };',
 'unl in dyn array': 'struct U { u8 x<...>; }; struct X { U d<>; };',
 'unl in greedy array': 'struct U { u8 x<...>; }; struct X { U d<...>; };',
 'unl not last': 'struct U { u8 x<...>; }; struct X { U d; u8 y; };',
 'optional dyn': 'struct D { u8 x<>; }; struct X { D* d; };',
 'optional unl': 'struct U { u8 x<...>; }; struct X { U* d; };',
 'union arm dyn': 'struct D { u8 x<>; }; union X { 1: D d; };',
 'union arm unl': 'struct U { u8 x<...>; }; union X { 1: U d; };',
 'sizer missing': 'struct X { u8 x<@n>; };',
 'sizer after': 'struct X { u8 x<@n>; u8 n; };',
 'sizer float': 'struct X { float n; u8 x<@n>; };',
 'sizer optional': 'struct X { u32* n; u8 x<@n>; };',
 'sizer array': 'struct X { u32 n[2]; u8 x<@n>; };',
 'sizer enum': 'enum E { A = 1 }; struct X { E n; u8 x<@n>; };',
 'dup field': 'struct X { u8 a; u8 a; };',
 'dup disc': 'union X { 1: u8 a; 1: u8 b; };',
 'dup disc expr': 'const C = 1; union X { 1: u8 a; C: u8 b; };',
 'array size 0': 'struct X { u8 a[0]; };',
 'array size neg': 'struct X { u8 a[-1]; };',
 'enum > 32 bit': 'enum E { A = 0x100000000 };',
 'enum neg': 'enum E { A = -1 };',
 'disc > 32 bit': 'union X { 0x100000000: u8 a; };',
 'disc neg': 'union X { -1: u8 a; };',
 'dyn+unl struct': 'struct U { u8 x<...>; }; struct X { u8 a<>; U u; }; struct Y { X x; u8 z; };',
 'dyn+unl in array': 'struct U { u8 x<...>; }; struct X { u8 a<>; U u; }; struct Y { X x<>; };',
 'div const': 'const A = 3 / 2; struct X { u8 a[A]; };',
 'div size': 'struct X { u8 a[4/2]; };',
 'typedef of unl not last': 'struct U { u8 x<...>; }; typedef U T; struct X { T d; u8 y; };',
 'typedef dyn in fixed arr': 'struct D { u8 x<>; }; typedef D T; struct X { T d[2]; };',
 'self ref': 'struct X { X x; };',
 'bytes optional': 'struct X { bytes* x; };',
 'empty struct': 'struct X { };',
 'shift neg': 'const A = 1 << -1;',
 'two arrays one sizer': 'struct X { u8 n; u8 a<@n>; u16 b<@n>; };',
 'enum dup value': 'enum E { A = 1, B = 1 }; struct X { E e; };',
 'sizer u64': 'struct X { u64 n; u8 a<@n>; };',
 'sizer i8': 'struct X { i8 n; u8 a<@n>; };',
 'limited ext sizer u8': 'struct X { u8 n; u8 a<@n>; };',
 'union in union': 'union A { 1: u8 a; }; union B { 1: A a; };',
 'optional union': 'union A { 1: u8 a; }; struct X { A* a; };',
 'array of union': 'union A { 1: u8 a; }; struct X { A a[2]; A b<>; };',
}
res = {}
for k,v in cases.items():
    ok = run(k, v)
    if ok:
        sys.path.insert(0,'out')
        try:
            if 't' in sys.modules: del sys.modules['t']
            importlib.import_module('t'); print('    import ok')
        except BaseException as e:
            print('    IMPORT FAIL', type(e).__name__, e)
        sys.path.pop(0)
