import prophy, traceback
def t(name, f):
    try:
        r = f()
        print(name, '->', r)
    except Exception as e:
        print(name, 'EXC', type(e).__name__, e)

class E(prophy.with_metaclass(prophy.enum_generator, prophy.enum)):
    _enumerators = [('A', 0), ('B', 2)]
class OE(prophy.with_metaclass(prophy.struct_generator, prophy.struct)):
    _descriptor = [('e', prophy.optional(E))]
def f():
    x = OE(); x.e = 2
    b = x.encode('<'); y = OE(); y.decode(b, '<'); return y.e
t('opt-enum no 1', f)

class N(prophy.with_metaclass(prophy.struct_generator, prophy.struct)):
    _descriptor = [('a', prophy.u8)]
class OS(prophy.with_metaclass(prophy.struct_generator, prophy.struct)):
    _descriptor = [('n', prophy.optional(N))]
def f():
    a = OS(); a.n = True; a.n.a = 5
    b = OS(); b.copy_from(a); return b.n.a
t('copy optional composite', f)

class LA(prophy.with_metaclass(prophy.struct_generator, prophy.struct)):
    _descriptor = [('num', prophy.u32), ('x', prophy.array(N, bound='num', size=3))]
def f():
    a = LA(); a.x.add().a = 3
    b = LA(); b.copy_from(a); return len(b.x), a.encode('<'), b.encode('<')
t('copy limited composite array', f)

class F(prophy.with_metaclass(prophy.struct_generator, prophy.struct)):
    _descriptor = [('f', prophy.r32)]
def f():
    a = F(); a.f = 1e39; return a.encode('<')
t('r32 too large', f)

class S8(prophy.with_metaclass(prophy.struct_generator, prophy.struct)):
    _descriptor = [('n', prophy.u8), ('x', prophy.array(prophy.u8, bound='n'))]
def f():
    a = S8(); a.x[:] = [1]*300; return a.encode('<')
t('u8 sizer 300', f)
def f():
    a = S8(); a.x[:] = [1,2]
    try: a.x.extend(iter([3, 4, 999]))
    except Exception as e: print('  extend exc', type(e).__name__, e)
    try: a.x.extend([3, 4, 999])
    except Exception as e: print('  extend exc', type(e).__name__, e)
    return a.x
t('extend partial', f)
def f():
    a = S8(); a.x[:] = [1,2,3,4]
    a.x[::2] = [9, 9, 9]
    return a.x
t('slice step', f)

class O(prophy.with_metaclass(prophy.struct_generator, prophy.struct)):
    _descriptor = [('a', prophy.u32), ('o', prophy.optional(prophy.u64))]
def f():
    a = O(); return a.decode(b'\x01\x00\x00\x00' + b'\x00'*4 + b'\0\0\0\0', '<'), len(a.encode('<'))
t('truncated absent optional', f)

class Em(prophy.with_metaclass(prophy.struct_generator, prophy.struct)):
    _descriptor = []
class G(prophy.with_metaclass(prophy.struct_generator, prophy.struct)):
    _descriptor = [('x', prophy.array(Em))]
print('Em size', Em._SIZE)
