#include "s.pp.hpp"
#include "s.ppf.hpp"
#include <cstdio>
#include <cstring>
#include <cstdlib>
static void hex2(const char* h, uint8_t* out){ for (size_t i=0;h[i];i+=2){ unsigned v; sscanf(h+i,"%2x",&v); out[i/2]=v; } }
int main(int argc,char**argv){
  int t=atoi(argv[1]);
  if(t==1){
    const char* big="000000010100000001020304050607080000000109001122";
    uint8_t* buf=(uint8_t*)aligned_alloc(8,24); hex2(big,buf);
    X* end=prophy::swap(reinterpret_cast<X*>(buf));
    for(int i=0;i<24;i++) printf("%02x",buf[i]); printf("\nreturned offset %ld\n",(long)((uint8_t*)end-buf));
  }
  if(t==2){
    prophy::generated::O o; uint8_t* d=(uint8_t*)malloc(16); memset(d,0,16);
    bool r=o.decode<prophy::little>(d,16); printf("decode %d\n",r);
  }
}
