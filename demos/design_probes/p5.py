import prophyc, os, sys, random, importlib, signal
from prophyc import model
random.seed(1)
scal = ['u8','u16','u32','u64','i8','i16','i32','i64','float','double']
def gen_schema(n):
    out=[]; types=[]  # (name, kind) kind: F,D,U
    out.append('enum E { E_A = 0, E_B = 2 };'); types.append(('E','F'))
    for i in range(n):
        name='S%d'%i
        if random.random()<0.2 and any(k=='F' for _,k in types):
            arms=[]
            for j in range(random.randint(1,3)):
                t=random.choice(scal+[x for x,k in types if k=='F'])
                arms.append('%d: %s a%d;'%(j+1,t,j))
            out.append('union %s { %s };'%(name,' '.join(arms))); types.append((name,'F')); continue
        m=[]; kind='F'
        nm=random.randint(1,5)
        for j in range(nm):
            last = j==nm-1
            t=random.choice(scal+[x for x,k in types])
            tk = dict(types).get(t,'F')
            form=random.choice(['plain','plain','opt','fixed','dyn','lim','greedy','bytes'])
            f='m%d'%j
            if tk=='U':
                if not last: t='u8'; tk='F'
                else: form='plain'
            if tk=='D' and form in ('opt','fixed','lim'): form='plain'
            if form=='greedy' and not last: form='dyn'
            if form=='plain': m.append('%s %s;'%(t,f)); 
            elif form=='opt': m.append('%s* %s;'%(t,f))
            elif form=='fixed': m.append('%s %s[%d];'%(t,f,random.randint(1,3)))
            elif form=='dyn': m.append('%s %s<>;'%(t,f)); kind=max(kind,'D') if kind!='U' else kind
            elif form=='lim': m.append('%s %s<%d>;'%(t,f,random.randint(1,3)))
            elif form=='greedy': m.append('%s %s<...>;'%(t,f)); kind='U'
            elif form=='bytes':
                bf=random.choice(['[3]','<>','<5>'])
                m.append('bytes %s%s;'%(f,bf)); 
                if bf=='<>': kind=max(kind,'D') if kind!='U' else kind
            if form in('plain',) and tk in ('D','U'):
                if tk=='U': kind='U'
                elif kind!='U': kind='D'
            if form=='dyn' and kind=='F': kind='D'
        out.append('struct %s { %s };'%(name,' '.join(m))); types.append((name,kind))
    return '\n'.join(out)
bad=0
for it in range(300):
    text=gen_schema(random.randint(2,6))
    open('r.prophy','w').write(text)
    for f in os.listdir('out'):
        if os.path.isfile('out/'+f): os.remove('out/'+f)
    try:
        nodes = prophyc.main(['--python_out','out','--quiet','r.prophy'])['r']
    except BaseException as e:
        print('prophyc fail', type(e).__name__, str(e)[:100]); continue
    sys.path.insert(0,'out'); sys.modules.pop('r',None)
    try:
        mod=importlib.import_module('r')
    except BaseException as e:
        print('IMPORT FAIL', type(e).__name__, e, '\n', text); bad+=1; sys.path.pop(0); continue
    sys.path.pop(0)
    for n in nodes:
        if isinstance(n,(model.Struct,model.Union)):
            c=getattr(mod,n.name)
            dyn = n.kind!=model.Kind.FIXED if isinstance(n,model.Struct) else False
            msz = n.byte_size; 
            if (c._ALIGNMENT!=n.alignment) or ((c._DYNAMIC or c._UNLIMITED)!=dyn) or (not dyn and c._SIZE!=msz) or (c._UNLIMITED != (n.kind==model.Kind.UNLIMITED)):
                print('MISMATCH', n.name, 'model', n.byte_size, n.alignment, n.kind, 'py', c._SIZE, c._ALIGNMENT, c._DYNAMIC, c._UNLIMITED); print(text); bad+=1
            if not dyn:
                try:
                    L=len(c().encode('<'))
                    if L!=msz: print('ENC LEN', n.name, L, msz); print(text); bad+=1
                except BaseException as e: print('enc exc', e)
    if bad>6: break
print('done', bad)
