#include "g.ppf.hpp"
#include <cstdio>
#include <cstdlib>
#include <new>
using namespace prophy::generated;
int main(int argc,char**argv){
  int t=atoi(argv[1]);
  if(t==1){ DA a; uint8_t d[4]={0xff,0xff,0xff,0x3f};
    try { bool r=a.decode<prophy::little>(d,4); printf("decode %d, vector size %zu (capacity bytes %zu)\n", r, a.x.size(), a.x.capacity()*4); }
    catch(std::bad_alloc&){ printf("bad_alloc from a 4-byte input\n"); } }
  if(t==2){ G g; // two elements, second truncated: n=1,x=[7] ; n=3, x=[1] (2 missing)
    uint8_t d[3]={1,7,3};
    bool r=g.decode<prophy::little>(d,3); printf("decode %d elems %zu reencoded %zu input 3\n", r, g.e.size(), g.encode<prophy::little>().size()); }
}
