import prophyc, os, sys, signal, importlib
def run(name, text, fname='t.xml', opts=('--isar','--python_out','out'), extra=(), timeout=5):
    open(fname,'w').write(text)
    for f in os.listdir('out'):
        if os.path.isfile('out/'+f): os.remove('out/'+f)
    def h(*a): raise TimeoutError('HANG')
    signal.signal(signal.SIGALRM, h); signal.alarm(timeout)
    try:
        prophyc.main(list(opts)+['--quiet']+list(extra)+[fname])
        print('ACCEPT', name)
        return True
    except BaseException as e:
        print('REJECT', name, type(e).__name__, str(e)[:120].replace('\n',' | '))
    finally:
        signal.alarm(0)
def imp():
    sys.path.insert(0,'out')
    try:
        sys.modules.pop('t',None); importlib.import_module('t'); print('   import ok')
    except BaseException as e: print('   IMPORT FAIL', type(e).__name__, e)
    sys.path.pop(0)
if run('missing include', '<x><xi:include xmlns:xi="http://www.xyz.com/1984/XInclude" href="nope.xml"/><struct name="A"><member name="a" type="u8"/></struct></x>'): imp()
if run('const mul dep', '<x><constant name="C" value="A*B"/><constant name="A" value="2"/><constant name="B" value="3"/><struct name="S"><member name="a" type="u8"><dimension size="C"/></member></struct></x>'): imp(); print(open('out/t.py').read()[-300:])
if run('const plus dep', '<x><constant name="C" value="A+B"/><constant name="A" value="2"/><constant name="B" value="3"/></x>'): imp()
run('cyclic typedef', '<x><typedef name="A" type="B"/><typedef name="B" type="A"/></x>')
run('self typedef', '<x><typedef name="A" type="A"/></x>')
run('cyclic struct', '<x><struct name="A"><member name="b" type="B"/></struct><struct name="B"><member name="a" type="A"/></struct></x>')
run('malformed xml', '<x><struct name="A">')
run('enum no value', '<x><enum name="E"><enum-member name="A"/></enum></x>')
run('const no value', '<x><constant name="C"/></x>')
run('typedef bad prim', '<x><typedef name="T" primitiveType="128 bit integer"/></x>')
if run('typedef struct w/ enum size', '<x><typedef name="T" type="S"/><enum name="E"><enum-member name="E_MAX" value="3"/></enum><struct name="S"><member name="a" type="u8"><dimension size="E_MAX"/></member></struct></x>'): imp()
open('patch.txt','w').write('A\n')
run('patch one word', '<x><struct name="A"><member name="a" type="u8"/></struct></x>', extra=('--patch','patch.txt'))
open('patch.txt','w').write('A frobnicate x\n')
run('patch unknown action', '<x><struct name="A"><member name="a" type="u8"/></struct></x>', extra=('--patch','patch.txt'))
open('patch.txt','w').write('A limited a n\n')
run('patch limited non-array', '<x><struct name="A"><member name="n" type="u8"/><member name="a" type="u8"/></struct></x>', extra=('--patch','patch.txt'))
run('prophy div zero calc', 'const A = 1;\nstruct X { u8 a[A]; };', fname='t.prophy', opts=('--python_out','out'))
run('isar div zero', '<x><constant name="C" value="1/0"/><struct name="S"><member name="a" type="u8"><dimension size="C"/></member></struct></x>')
run('big shift', 'const A = 1 << (1 << 62);', fname='t.prophy', opts=('--python_out','out'))
run('binary', '\x00\x01\xff', fname='t.prophy', opts=('--python_out','out'))
