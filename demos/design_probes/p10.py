import prophy
class N(prophy.with_metaclass(prophy.struct_generator, prophy.struct)):
    _descriptor = [('a', prophy.u8)]
class S(prophy.with_metaclass(prophy.struct_generator, prophy.struct)):
    _descriptor = [('n', prophy.u32), ('x', prophy.array(N, bound='n'))]
s=S()
try: s.x.add(a=999)
except prophy.ProphyError as e: print('rejected:', e)
print('len after rejected add:', len(s.x))
try: s.x.extend([N(), 5])
except Exception as e: print('rejected:', type(e).__name__, e)
print('len after rejected extend:', len(s.x))
