#include "e.ppf.hpp"
#include <cstdio>
using namespace prophy::generated;
int main(){ X a; a.x.push_back(1); a.o = uint8_t(5); std::vector<uint8_t> v = a.encode<prophy::little>();
  printf("cpp bytes %zu:", v.size()); for (size_t i=0;i<v.size();i++) printf(" %02x", v[i]); printf("\n"); }
