"""Reproductions of the open C13 findings: inputs for which an internal exception escapes prophyc.main.
Run: cd <scratch dir> && /venv/bin/python /verif/demos/c13_escapes.py"""
import os, sys, tempfile, traceback
import prophyc

def run(name, files, args):
    d = tempfile.mkdtemp()
    for fn, content in files.items():
        mode = 'wb' if isinstance(content, bytes) else 'w'
        with open(os.path.join(d, fn), mode) as f:
            f.write(content)
    os.makedirs(os.path.join(d, 'out'))
    argv = [a.replace('@', d + '/') for a in args]
    try:
        prophyc.main(argv)
        print('%-34s -> ok' % name)
    except prophyc.ProphycError as e:
        print('%-34s -> ProphycError (designed): %s' % (name, str(e).splitlines()[0][:70]))
    except SystemExit as e:
        print('%-34s -> SystemExit' % name)
    except BaseException as e:
        print('%-34s -> ESCAPES %s: %s' % (name, type(e).__name__, str(e)[:70]))

X = '<x>%s</x>'
run('isar constant without value', {'a.xml': X % '<constant name="A"/>'}, ['--isar', '--python_out', '@out', '@a.xml'])
run('isar enum member without value', {'a.xml': X % '<enum name="E"><enum-member name="A"/></enum>'}, ['--isar', '--python_out', '@out', '@a.xml'])
run('isar unknown primitiveType', {'a.xml': X % '<typedef name="T" primitiveType="13 bit integer"/>'}, ['--isar', '--python_out', '@out', '@a.xml'])
run('isar duplicate enum value', {'a.xml': X % '<enum name="E"><enum-member name="A" value="1"/><enum-member name="B" value="1"/></enum>'},
    ['--isar', '--python_out', '@out', '@a.xml'])
run('isar missing sizer (cpp_full)', {'a.xml': X % '<struct name="S"><member name="x" type="u8"><dimension variableSizeFieldName="@nope"/></member></struct>'},
    ['--isar', '--cpp_full_out', '@out', '@a.xml'])
run('isar missing sizer (cpp raw)', {'a.xml': X % '<struct name="S"><member name="a" type="u8"><dimension isVariableSize="true"/></member><member name="x" type="u8"><dimension variableSizeFieldName="@nope"/></member></struct>'},
    ['--isar', '--cpp_out', '@out', '@a.xml'])
run('isar struct-typed sizer (cpp_full)', {'a.xml': X % '<struct name="T"><member name="a" type="u8"/></struct><struct name="S"><member name="n" type="T"/><member name="x" type="u8"><dimension variableSizeFieldName="@n"/></member></struct>'},
    ['--isar', '--cpp_full_out', '@out', '@a.xml'])
run('non-UTF-8 input', {'a.prophy': b'struct S { u8 x; }; // \xff\xfe\n'}, ['--python_out', '@out', '@a.prophy'])
run('isar name with line break (prophy_out)', {'a.xml': X % '<struct name="S&#10;T" comment="doc"><member name="a" type="u8"/></struct>'},
    ['--isar', '--prophy_out', '@out', '@a.xml'])
