"""Open C12 findings: the isar front-end enforces none of the composability rules; rule-breaking input is accepted by
prophyc and the generated Python module fails at import. Run: cd <scratch> && /venv/bin/python /verif/demos/c12_isar_accepts.py"""
import os, sys, tempfile, importlib, subprocess
import prophyc
D = '<struct name="D"><member name="x" type="u8"><dimension isVariableSize="true"/></member></struct>'
G = '<struct name="G"><member name="x" type="u8"><dimension isVariableSize="true"/></member></struct>'
CASES = {
 'D1 dynamic struct in fixed array': D + '<struct name="S"><member name="d" type="D"><dimension size="2"/></member></struct>',
 'D4 optional of dynamic struct': D + '<struct name="S"><member name="d" type="D" optional="true"/></struct>',
 'D5 dynamic union arm': D + '<union name="U"><member name="d" type="D" discriminatorValue="1"/></union>',
 'D6 sizer after array': '<struct name="S"><member name="x" type="u8"><dimension variableSizeFieldName="@n"/></member><member name="n" type="u32"/></struct>',
 'D8 array size zero': '<struct name="S"><member name="x" type="u8"><dimension size="0"/></member></struct>',
 'D9 enumerator beyond 32 bits': '<enum name="E"><enum-member name="A" value="4294967296"/></enum>',
}
for name, body in CASES.items():
    d = tempfile.mkdtemp(); open(os.path.join(d, 'm.xml'), 'w').write('<x>%s</x>' % body); os.mkdir(os.path.join(d, 'out'))
    try:
        prophyc.main(['--isar', '--python_out', os.path.join(d, 'out'), os.path.join(d, 'm.xml')]); acc = 'ACCEPTED'
    except BaseException as e:
        acc = 'rejected (%s)' % type(e).__name__
    r = subprocess.run([sys.executable, '-c', 'import sys; sys.path.insert(0, %r); import m' % os.path.join(d, 'out')], capture_output=True, text=True)
    print('%-34s prophyc: %-10s import: %s' % (name, acc, 'ok' if r.returncode == 0 else 'FAILS ' + r.stderr.strip().splitlines()[-1][:70]))
