#!/venv/bin/python
"""Self-test of the checkers (DESIGN section 8): every catalogued mutant must be reported by the named properties
(exit 1 + VIOLATION), every benign variant must leave the verdicts of the clean tree unchanged.

  run.py [--props C07,C03] [--only m26,...] [-j 16] [--seed N] [--json out.json]

Scratch copies of /repo's analysed directories are made under tempfile.mkdtemp() and removed in `finally`.
"""
import argparse
import json
import os
import random
import shutil
import subprocess
import sys
import tempfile
from concurrent.futures import ThreadPoolExecutor

HERE = os.path.dirname(os.path.abspath(__file__))
VERIF = os.path.dirname(HERE)
sys.path.insert(0, VERIF)
from selftest import catalog  # noqa: E402

REPO = os.environ.get('PROPHY_REPO', '/repo')
DIRS = ('prophy', 'prophyc', 'prophy_cpp/include', 'docs')


def make_copy():
    d = tempfile.mkdtemp(prefix='sa_selftest_')
    for sub in DIRS:
        shutil.copytree(os.path.join(REPO, sub), os.path.join(d, sub), ignore=shutil.ignore_patterns('tests', '__pycache__', '*.pyc'))
    return d


def run_check(pid, repo, evdir):
    env = dict(os.environ, PROPHY_REPO=repo, VERIF_EVIDENCE_DIR=evdir, VERIF_TIER='quick')
    p = subprocess.run(['/venv/bin/python', os.path.join(VERIF, 'check.py'), pid], capture_output=True, text=True, env=env)
    viol = [l for l in p.stdout.splitlines() if l.startswith('  rule ')]
    known = sorted(l.split(' [')[0] for l in p.stdout.splitlines() if l.startswith('KNOWN-FINDING'))
    return p.returncode, viol, known, p.stdout


def seeded_entries():
    """The independently written, confirmed seeded changes under /verif/seeded as additional mutants: each must be reported
    by the property it was written against."""
    import glob
    out = []
    for mp in sorted(glob.glob(os.path.join(VERIF, 'seeded', '*', 'meta.json'))):
        try:
            meta = json.load(open(mp))
        except ValueError:
            continue
        d = os.path.dirname(mp)
        patch = os.path.join(d, 'patch.diff')
        if os.path.exists(patch) and meta.get('property'):
            out.append(('seed-' + os.path.basename(d), [meta['property']], patch, None, None, (meta.get('summary') or '')[:160]))
    return out


def benign_entries():
    """The independently written behaviour-preserving refactorings under /verif/benign that the checks are silent on (the rest
    is the measured residue of 11.7): the property each was written against must keep its verdict."""
    p = os.path.join(VERIF, 'benign', 'INDEX.json')
    out = []
    if os.path.exists(p):
        for name, e in sorted(json.load(open(p)).items()):
            if e.get('verdict') == 'silent':
                out.append(('ben-' + name, [e['property']], os.path.join(VERIF, 'benign', name, 'patch.diff'), None, None, e.get('summary', '')[:160]))
    return out


def one(entry, kind, baseline):
    mid, props, rel, old, new, note = entry
    d = make_copy()
    ev = tempfile.mkdtemp(prefix='sa_selftest_ev_')
    try:
        if old is None:
            p = subprocess.run(['patch', '-p1', '-s', '-d', d, '-i', rel], capture_output=True, text=True)
            if p.returncode:
                return {'id': mid, 'kind': kind, 'ok': False, 'error': 'patch does not apply: ' + (p.stdout + p.stderr)[-200:]}
            rel = os.path.relpath(rel, VERIF)
        else:
            path = os.path.join(d, rel)
            src = open(path, encoding='utf-8').read()
            if src.count(old) != 1:
                return {'id': mid, 'kind': kind, 'ok': False, 'error': 'pattern occurs %d times in %s' % (src.count(old), rel)}
            open(path, 'w', encoding='utf-8').write(src.replace(old, new))
        res = {'id': mid, 'kind': kind, 'note': note, 'file': rel, 'results': {}}
        ok = True
        for pid in props:
            rc, viol, known, out = run_check(pid, d, ev)
            if kind == 'mutant':
                good = rc == 1 and bool(viol)
            else:
                good = baseline[pid][0] == 0 and (rc, known) == baseline[pid]      # the clean tree must pass for the comparison to mean anything
            res['results'][pid] = {'exit': rc, 'violations': [v.strip()[:200] for v in viol[:3]], 'ok': good}
            if not good:
                res['results'][pid]['output_tail'] = out[-600:]
            ok = ok and good
        res['ok'] = ok
        return res
    finally:
        shutil.rmtree(d, ignore_errors=True)
        shutil.rmtree(ev, ignore_errors=True)


def run_for(pid, seed=0, jobs=16):
    """Kill matrix of one property's rules: (results, n_mutants, n_killed, n_benign, n_silent)."""
    muts = [(e[0], [pid]) + tuple(e[2:]) for e in list(catalog.MUTANTS) + seeded_entries() if pid in e[1]]
    ben = [(e[0], [pid]) + tuple(e[2:]) for e in list(catalog.BENIGN) + benign_entries() if pid in e[1]]
    rnd = random.Random(seed)
    rnd.shuffle(muts)
    rnd.shuffle(ben)
    baseline = {}
    ev = tempfile.mkdtemp(prefix='sa_selftest_ev_')
    try:
        rc, viol, known, out = run_check(pid, REPO, ev)
        baseline[pid] = (rc, known)
    finally:
        shutil.rmtree(ev, ignore_errors=True)
    results = []
    with ThreadPoolExecutor(jobs) as ex:
        futs = [ex.submit(one, e, 'mutant', baseline) for e in muts] + [ex.submit(one, e, 'benign', baseline) for e in ben]
        for f in futs:
            results.append(f.result())
    return results


def main():
    ap = argparse.ArgumentParser()
    ap.add_argument('--props')
    ap.add_argument('--only')
    ap.add_argument('-j', type=int, default=16)
    ap.add_argument('--seed', type=int, default=0)
    ap.add_argument('--json')
    a = ap.parse_args()
    want = set(a.props.split(',')) if a.props else None
    only = set(a.only.split(',')) if a.only else None

    def sel(entries):
        out = []
        for e in entries:
            if only and e[0] not in only:
                continue
            props = [p for p in e[1] if not want or p in want]
            if props:
                out.append((e[0], props) + tuple(e[2:]))
        return out
    muts, ben = sel(list(catalog.MUTANTS) + seeded_entries()), sel(list(catalog.BENIGN) + benign_entries())
    rnd = random.Random(a.seed)
    rnd.shuffle(muts)
    rnd.shuffle(ben)
    # baseline verdicts of the clean tree for the benign comparison
    baseline = {}
    ev = tempfile.mkdtemp(prefix='sa_selftest_ev_')
    try:
        for pid in sorted(set(p for e in ben for p in e[1])):
            rc, viol, known, out = run_check(pid, REPO, ev)
            baseline[pid] = (rc, known)
    finally:
        shutil.rmtree(ev, ignore_errors=True)
    results = []
    with ThreadPoolExecutor(a.j) as ex:
        futs = [ex.submit(one, e, 'mutant', baseline) for e in muts] + [ex.submit(one, e, 'benign', baseline) for e in ben]
        for f in futs:
            results.append(f.result())
    bad = [r for r in results if not r.get('ok')]
    for r in sorted(results, key=lambda x: x['id']):
        status = 'ok ' if r.get('ok') else 'BAD'
        detail = r.get('error') or ' '.join('%s:%s' % (p, 'exit%d' % v['exit']) for p, v in sorted(r['results'].items()))
        print('%s %-28s %-7s %s' % (status, r['id'], r['kind'], detail))
    print('selftest: %d mutants (%d killed), %d benign variants (%d silent)' % (
        len(muts), sum(1 for r in results if r['kind'] == 'mutant' and r.get('ok')),
        len(ben), sum(1 for r in results if r['kind'] == 'benign' and r.get('ok'))))
    if a.json:
        with open(a.json, 'w') as f:
            json.dump(results, f, indent=1)
    if not getattr(a, 'only', None) and len(muts) > 100:
        # a full run: keep its summary next to the code (DESIGN 11.6 refers to it)
        head = os.popen('git -C %s log --oneline -1' % VERIF).read().strip()
        with open(os.path.join(VERIF, 'selftest', 'LAST_RUN.txt'), 'w') as f:
            f.write('selftest/run.py (full run) on the working tree after /verif commit %s\n' % head)
            f.write('%d mutants (%d reported), %d benign variants (%d silent)\n' % (
                len(muts), sum(1 for r in results if r['kind'] == 'mutant' and r.get('ok')),
                len(ben), sum(1 for r in results if r['kind'] == 'benign' and r.get('ok'))))
            for r in sorted(results, key=lambda x: x['id']):
                if not r.get('ok'):
                    f.write('NOT OK %s %s\n' % (r['id'], r['kind']))
    return 1 if bad else 0


if __name__ == '__main__':
    sys.exit(main())
