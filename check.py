#!/venv/bin/python
"""Single entry point of the static-analysis checks.

  check.py <Cxx> [--tier quick|thorough]     decide one property on /repo's current working tree
  check.py --replay <file>                   re-run the rule of a replay file and print its report
  check.py --all [--tier ...]                run every implemented property (exit = worst)

Exit 0: all obligations discharged (KNOWN-FINDING lines allowed); 1: VIOLATION (including E0.argument-lost: a rule can no
longer make its structural argument on this tree); 2: ANALYSIS-ERROR (the analysis itself could not run).
"""
import argparse
import importlib
import json
import os
import sys
import time
import traceback

HERE = os.path.dirname(os.path.abspath(__file__))
sys.path.insert(0, HERE)

from sa import core, props  # noqa: E402


def run_property(pid, tier, seed, only_key=None):
    t0 = time.time()
    meta = props.PROPS.get(pid)
    if meta is None:
        print('ANALYSIS-ERROR property=%s unknown property id' % pid)
        return 2
    try:
        try:
            mod = importlib.import_module('sa.rules.%s' % pid.lower())
        except ImportError as e:
            if 'sa.rules' in str(e):
                raise core.ToolError('property %s has no checker (not implemented, fail-closed)' % pid)
            raise
        from sa import context
        ctx = context.Context(core.REPO)
        ledger = core.Ledger(pid)
        from sa.rules import shared_py
        shared_py.init_globals(ctx.py)
        from sa import reviewed
        ledger.reviewed = reviewed.Reviewed(ctx.py)
        try:
            rules_run = mod.run(ctx, ledger, tier)
        except core.ToolError:
            raise
        except core.AnalysisError as e:
            # a rule could not make its structural argument on this tree (anchor vanished, shape not recognisable): the
            # obligation it stands for is not discharged. Reported like any other undischarged obligation.
            import re as _re
            key = _re.sub(r'\s+', ' ', str(e))[:160]
            ledger.bad('E0.argument-lost', key, pid, 'the structural argument of a rule of %s cannot be made on this tree: %s '
                       '(the code it is anchored in was restructured or removed; the property is not established until the rule is '
                       're-read against the new code)' % (pid, e), '')
            rules_run = sorted(set(o.rule for o in ledger.obligations))
        ledger.analysed.update(ctx.inventory())
        if only_key is not None:
            hits = [o for o in ledger.obligations if (o.rule, o.key) == only_key]
            for o in hits:
                print('REPLAY %s %s at %s: %s %s' % (o.status.upper(), o.rule, o.site, o.what, o.detail))
            if not hits:
                print('REPLAY: construct no longer present (rule %s key %s)' % only_key)
            return 1 if any(o.status == 'bad' for o in hits) else 0
        if tier == 'thorough':
            # the checker's own kill matrix for this property's rules (DESIGN section 8): mutants of a scratch copy must be
            # reported, behaviour-preserving variants must leave the verdict unchanged; VERIF_SEED only orders them
            from selftest import run as selftest_run
            res = selftest_run.run_for(pid, seed=seed, jobs=16)
            muts = [r for r in res if r['kind'] == 'mutant']
            ben = [r for r in res if r['kind'] == 'benign']
            ledger.analysed['selftest'] = {
                'mutants': len(muts), 'killed': sum(1 for r in muts if r.get('ok')),
                'benign_variants': len(ben), 'silent': sum(1 for r in ben if r.get('ok')),
                'detail': [{'id': r['id'], 'kind': r['kind'], 'ok': r.get('ok'), 'note': r.get('note'), 'file': r.get('file'),
                            'report': (list(r.get('results', {}).values()) or [{}])[0].get('violations', [])[:1]} for r in res],
            }
            for r in res:
                ledger.check(bool(r.get('ok')), 'SELFTEST.' + r['kind'], r['id'], r.get('file', ''),
                             'self-test %s: %s' % (r['kind'], r.get('error') or r.get('results')), r.get('note', ''))
            failed = [r['id'] for r in res if not r.get('ok')]
            if failed:
                raise core.ToolError('the checker failed its own self-test for %s (mutant not reported / benign variant '
                                         'changed the verdict): %s' % (pid, ', '.join(failed)))
        return core.finish(ledger, tier, seed, t0, rules_run, meta['explanation'], props.TRUSTED_BASE,
                           meta['not_decided'])
    except core.AnalysisError as e:
        print('ANALYSIS-ERROR property=%s %s' % (pid, e))
        core.write_error_evidence(pid, tier, seed, t0, str(e))
        return 2
    except Exception:
        tb = traceback.format_exc()
        print('ANALYSIS-ERROR property=%s checker raised:\n%s' % (pid, tb))
        core.write_error_evidence(pid, tier, seed, t0, tb.splitlines()[-1])
        return 2


def main():
    ap = argparse.ArgumentParser()
    ap.add_argument('pid', nargs='?')
    ap.add_argument('--tier', default='quick', choices=['quick', 'thorough'])
    ap.add_argument('--replay')
    ap.add_argument('--all', action='store_true')
    a = ap.parse_args()
    tier = os.environ.get('VERIF_TIER') or a.tier
    if tier not in ('quick', 'thorough'):
        tier = a.tier
    try:
        seed = int(os.environ.get('VERIF_SEED', '0'))
    except ValueError:
        seed = 0
    if a.replay:
        with open(a.replay) as f:
            r = json.load(f)
        return run_property(r['property'], tier, seed, only_key=(r['rule'], r['key']))
    if a.all:
        worst = 0
        for pid in sorted(props.PROPS):
            if props.PROPS[pid].get('claimed'):
                worst = max(worst, run_property(pid, tier, seed))
        return worst
    if not a.pid:
        ap.error('property id required')
    return run_property(a.pid.upper(), tier, seed)


if __name__ == '__main__':
    code = main()
    sys.stdout.flush()
    os._exit(code)
